"""C05 - parsing does not depend on chunking or consumption.

G: TokChunks: TLC explores, for every stream built from up to MaxItems items,
   every way of feeding it in up to MaxChunks chunks interleaved with up to
   MaxRet retrieval calls (get_message / pending / iterate), checks
   ChunkIndependence on the specification, and emits each complete call
   history with the expected result of every call.  Each history is replayed
   on a real Parser (feed / feed_byte) and on a real ParserQueue.
V: long random streams with random chunking/retrieval on the real Parser,
   validated by TokenizerTrace (shared with C04).
"""
import json
import random

from .. import core, tlaval
from . import c04


def cfg(items, chunks, ret):
    return """SPECIFICATION Spec
CONSTANTS
 MaxItems = %d
 MaxChunks = %d
 MaxRet = %d
INVARIANT ChunkIndependence
INVARIANT ControlAgrees
INVARIANT FinalComplete
INVARIANT Emit
CHECK_DEADLOCK FALSE
""" % (items, chunks, ret)


def replay_parser(stream, hist, variant):
    """Replay one history on a real mido.Parser. Returns None or (which, detail)."""
    import mido
    p = mido.Parser()
    pos = 0
    for i, h in enumerate(hist):
        op, n, r = h['op'], h['n'], h['r']
        try:
            if op == 'feed':
                chunk = stream[pos:pos + n]
                pos += n
                if n == 1 and variant % 2 == 0:
                    p.feed_byte(chunk[0])
                elif variant % 3 == 0:
                    p.feed(bytes(chunk))
                elif variant % 3 == 1:
                    p.feed(chunk)
                else:
                    for b in chunk:
                        p.feed_byte(b)
            elif op == 'get':
                m = p.get_message()
                got = [] if m is None else [list(m.bytes())]
                if got != r:
                    return 'get', 'step %d: get_message() gave %r expected %r' % (i, m, r)
                if (m is None) != (n == 0):
                    return 'get-none', 'step %d' % i
            elif op == 'pending':
                if p.pending() != n or len(p) != n:
                    return 'pending', 'step %d: pending()=%r expected %d' % (i, p.pending(), n)
            elif op == 'iter':
                before = p.pending()
                got = [list(m.bytes()) for m in p]
                if got != r or before != n:
                    return 'iter', 'step %d: iteration gave %r expected %r (pending before %d)' % (
                        i, got, r, before)
                if p.pending() != 0 or p.get_message() is not None:
                    return 'iter-left', 'step %d: messages left after iteration' % i
        except Exception as e:
            return 'raises/' + type(e).__name__, 'step %d (%s): %r' % (i, op, e)
    return None


def replay_queue(stream, hist):
    """Same history on mido.backends._parser_queue.ParserQueue."""
    from mido.backends._parser_queue import ParserQueue
    q = ParserQueue()
    pos = 0
    for i, h in enumerate(hist):
        op, n, r = h['op'], h['n'], h['r']
        try:
            if op == 'feed':
                q.put_bytes(stream[pos:pos + n])
                pos += n
            elif op == 'get':
                m = q.poll()
                got = [] if m is None else [list(m.bytes())]
                if got != r:
                    return 'queue-poll', 'step %d: poll() gave %r expected %r' % (i, m, r)
            elif op == 'pending':
                if q._queue.qsize() != n:
                    return 'queue-size', 'step %d: qsize=%d expected %d' % (i, q._queue.qsize(), n)
            elif op == 'iter':
                got = [list(m.bytes()) for m in q.iterpoll()]
                if got != r:
                    return 'queue-iterpoll', 'step %d: gave %r expected %r' % (i, got, r)
        except Exception as e:
            return 'queue-raises/' + type(e).__name__, 'step %d (%s): %r' % (i, op, e)
    return None


def check_history(stream, hist, variant):
    r = replay_parser(stream, hist, variant)
    if r is None and variant % 4 == 0:
        r = replay_queue(stream, hist)
    return r


def worker(lines):
    res = {'n': 0, 'viol': [], 'samples': [], 'counts': {'with_cut_inside_message': 0}}
    for line in lines:
        stream, hist = tlaval.parse(json.loads(line))[1:]
        res['n'] += 1
        variant = (len(hist) * 7 + sum(stream)) % 12
        if sum(1 for h in hist if h['op'] == 'feed') > 1:
            res['counts']['with_cut_inside_message'] += 1
        r = check_history(stream, hist, variant)
        if r and len(res['viol']) < 10:
            ops = '-'.join(h['op'][0] for h in hist)
            res['viol'].append(('chunks/%s' % r[0], {'stream': stream, 'hist': hist, 'variant': variant},
                                '%s (ops %s, stream %r)' % (r[1], ops, stream)))
    if lines:
        res['samples'].append({'stream': stream, 'history': [[h['op'], h['n'], h['r']] for h in hist]})
    return res


def replay(case):
    if case.get('kind') == 'trace':
        return c04.replay_trace(case)
    for variant in ([case['variant']] if 'variant' in case else range(12)):
        r = check_history(case['stream'], case['hist'], variant)
        if r:
            return '%s: %s' % r
        r = replay_queue(case['stream'], case['hist'])
        if r:
            return '%s: %s' % r
    return None


def run(ctx):
    thorough = ctx.tier == 'thorough'
    params = (3, 3, 2) if thorough else (2, 3, 2)
    pr = core.ParallelReplay(ctx, worker, batch_size=2000)
    res = core.run_tlc('TokChunks', cfg(*params), on_emit=pr.push, raw_ints=True, timeout=3400,
                       heap='16g')
    n = pr.finish()
    ctx.add_tlc(res, 'TokChunks items<=%d chunks<=%d retrievals<=%d' % params)
    ctx.constants = {'MaxItems': params[0], 'MaxChunks': params[1], 'MaxRet': params[2]}
    ctx.exhaustive = True
    ctx.note('histories', n)
    if thorough:
        # deeper random behaviours of the same module
        pr = core.ParallelReplay(ctx, worker, batch_size=2000)
        res = core.run_tlc('TokChunks', cfg(4, 9, 6), on_emit=pr.push, raw_ints=True,
                           simulate=200000, depth=30, seed=ctx.seed + 5, timeout=1800, workers=8)
        pr.finish()
        ctx.add_tlc(res, 'TokChunks -simulate items<=4 chunks<=9 retrievals<=6')
    # V: long streams, random chunking and retrieval, validated by TLC
    ctx.seed_offset = 5
    c04.run_traces(ctx, 40 if thorough else 20, 6000 if thorough else 2500,
                   'TokenizerTrace (chunked feeding + retrieval)')
    ctx.assumptions += [
        'ParserQueue is replayed single-threaded (its locking is outside this property)',
    ]
