"""C05 - parsing does not depend on chunking or consumption.

G: TokChunks: TLC explores, for every stream built from up to MaxItems items,
   every way of feeding it in up to MaxChunks chunks interleaved with up to
   MaxRet retrieval calls (get_message / pending / iterate), checks
   ChunkIndependence on the specification, and emits each complete call
   history with the expected result of every call.  Each history is replayed
   on a real Parser (feed / feed_byte) and on a real ParserQueue.
V: long random streams with random chunking/retrieval on the real Parser,
   validated by TokenizerTrace (shared with C04).
"""
import json
import random

from .. import core, tlaval
from . import c04


def cfg(items, chunks, ret):
    return """SPECIFICATION Spec
CONSTANTS
 MaxItems = %d
 MaxChunks = %d
 MaxRet = %d
INVARIANT ChunkIndependence
INVARIANT ControlAgrees
INVARIANT FinalComplete
INVARIANT Emit
CHECK_DEADLOCK FALSE
""" % (items, chunks, ret)


def replay_parser(stream, hist, variant):
    """Replay one history on a real mido.Parser. Returns None or (which, detail)."""
    import mido
    p = mido.Parser()
    pos = 0
    forked = []
    for i, h in enumerate(hist):
        op, n, r = h['op'], h['n'], h['r']
        try:
            if op == 'feed':
                chunk = stream[pos:pos + n]
                pos += n
                # an empty chunk is a chunk (a read that returned nothing): it changes nothing
                p.feed([b'', [], iter(()), bytearray()][(i + variant) % 4])
                if variant % 5 == 0 and i == 1:
                    # the parser is forked: the copy carries on, the original stays as it is
                    import copy
                    original, before = p, (p.pending(), [list(m.bytes()) for m in p.messages])
                    p = copy.deepcopy(p)
                    forked.append((original, before))
                if n == 1 and variant % 2 == 0:
                    p.feed_byte(chunk[0])
                elif variant % 3 == 0:
                    p.feed(bytes(chunk))
                elif variant % 3 == 1:
                    p.feed(chunk)
                else:
                    for b in chunk:
                        p.feed_byte(b)
            elif op == 'get':
                m = p.get_message()
                got = [] if m is None else [list(m.bytes())]
                if got != r:
                    return 'get', 'step %d: get_message() gave %r expected %r' % (i, m, r)
                if m is not None:
                    # what was retrieved is the caller's: it arrives unstamped and may be stamped
                    if m.time != 0:
                        return 'get-stamped', 'step %d: get_message() gave a message that already carries time %r' % (i, m.time)
                    m.time = 12.5
                if (m is None) != (n == 0):
                    return 'get-none', 'step %d' % i
            elif op == 'iter1':
                it = iter(p)
                m = next(it, None)
                got = [] if m is None else [list(m.bytes())]
                del it                       # the iteration is abandoned
                if m is not None:
                    if m.time != 0:
                        return 'iter-one-step-stamped', 'step %d: message already carries time %r' % (i, m.time)
                    m.time = 3
                if got != r:
                    return 'iter-one-step', 'step %d: next(iter(parser)) gave %r expected %r' % (i, m, r)
            elif op == 'pending':
                if p.pending() != n or len(p) != n:
                    return 'pending', 'step %d: pending()=%r expected %d' % (i, p.pending(), n)
            elif op == 'iter':
                before = p.pending()
                ms = list(p)
                got = [list(m.bytes()) for m in ms]
                if any(m.time != 0 for m in ms) or len({id(m) for m in ms}) != len(ms):
                    return 'iter-stamped', 'step %d: iteration yielded shared or already stamped messages %s' % (i, core.srepr(ms))
                for m in ms:
                    m.time = 7
                if got != r or before != n:
                    return 'iter', 'step %d: iteration gave %r expected %r (pending before %d)' % (
                        i, got, r, before)
                if p.pending() != 0 or p.get_message() is not None:
                    return 'iter-left', 'step %d: messages left after iteration' % i
        except Exception as e:
            return 'raises/' + type(e).__name__, 'step %d (%s): %r' % (i, op, e)
    for original, (npend, msgs) in forked:
        if original.pending() != npend or [list(m.bytes()) for m in original.messages] != msgs:
            return 'fork-shares-state', 'a parser was deep-copied and the copy fed: the original now holds %r, before %r' % (
                [list(m.bytes()) for m in original.messages], msgs)
    return None


def replay_queue(stream, hist):
    """Same history on mido.backends._parser_queue.ParserQueue."""
    from mido.backends._parser_queue import ParserQueue
    q = ParserQueue()
    pos = 0
    for i, h in enumerate(hist):
        op, n, r = h['op'], h['n'], h['r']
        try:
            if op == 'feed':
                q.put_bytes(stream[pos:pos + n])
                pos += n
            elif op == 'get':
                m = q.poll()
                got = [] if m is None else [list(m.bytes())]
                if got != r:
                    return 'queue-poll', 'step %d: poll() gave %r expected %r' % (i, m, r)
            elif op == 'iter1':
                it = q.iterpoll()
                m = next(it, None)
                got = [] if m is None else [list(m.bytes())]
                del it
                if got != r:
                    return 'queue-iterpoll-one-step', 'step %d: gave %r expected %r' % (i, m, r)
            elif op == 'pending':
                if hasattr(q, '_queue') and hasattr(q._queue, 'qsize') and q._queue.qsize() != n:
                    return 'queue-size', 'step %d: qsize=%d expected %d' % (i, q._queue.qsize(), n)
            elif op == 'iter':
                got = [list(m.bytes()) for m in q.iterpoll()]
                if got != r:
                    return 'queue-iterpoll', 'step %d: gave %r expected %r' % (i, got, r)
        except Exception as e:
            return 'queue-raises/' + type(e).__name__, 'step %d (%s): %r' % (i, op, e)
    return None


def check_history(stream, hist, variant):
    r = replay_parser(stream, hist, variant)
    if r is None and variant % 4 == 0:
        r = replay_queue(stream, hist)
    return r


def worker(lines):
    res = {'n': 0, 'viol': [], 'samples': [], 'counts': {'with_cut_inside_message': 0}}
    for line in lines:
        stream, hist = tlaval.parse(json.loads(line))[1:]
        res['n'] += 1
        variant = (len(hist) * 7 + sum(stream)) % 12
        if sum(1 for h in hist if h['op'] == 'feed') > 1:
            res['counts']['with_cut_inside_message'] += 1
        r = check_history(stream, hist, variant)
        if r and len(res['viol']) < 10:
            ops = '-'.join(h['op'][0] for h in hist)
            res['viol'].append(('chunks/%s' % r[0], {'stream': stream, 'hist': hist, 'variant': variant},
                                '%s (ops %s, stream %r)' % (r[1], ops, stream)))
    if lines:
        res['samples'].append({'stream': stream, 'history': [[h['op'], h['n'], h['r']] for h in hist]})
    return res


def replay(case):
    if case.get('kind') == 'trace':
        return c04.replay_trace(case)
    if case.get('kind') == 'writers':
        r = check_queue_writers(case['rseed'])
        return r and '%s: %s' % r
    for variant in ([case['variant']] if 'variant' in case else range(12)):
        r = check_history(case['stream'], case['hist'], variant)
        if r:
            return '%s: %s' % r
        r = replay_queue(case['stream'], case['hist'])
        if r:
            return '%s: %s' % r
    return None


def check_queue_writers(rseed):
    """Two threads hand consecutive chunks of a byte stream to one ParserQueue
    (cuts inside messages).  Whatever the schedule, the queue must hold the
    messages in the order in which the parser completed them, i.e. the parse
    of the chunks in the order in which the writers got the parser lock."""
    import queue as _queue
    import mido
    from .. import portrun, sched as S
    rng = random.Random(rseed)
    m = [mido.Message('note_on', note=1 + k).bytes() for k in range(4)]
    cut = rng.choice([1, 2])
    chunks = {1: m[0] + m[1][:cut], 2: m[1][cut:] + m[2] + m[3][:1], 3: m[3][1:]}
    nthreads = rng.choice([2, 3])
    sc = S.Scheduler(budget=300)
    with S.Patched(sc):
        setup = portrun.Setup('pqueue', [], {}, rng)
        for t in range(1, nthreads + 1):
            sc.spawn(t, (lambda c=chunks[t]: setup.pq.put_bytes(c)))
        started = set()
        guard = 0
        try:
            while not sc.all_done() and guard < 2000:
                guard += 1
                for t in list(sc.ts):
                    if t not in started:
                        started.add(t)
                        sc.step(t)
                run = sc.runnable()
                if not run:
                    break
                sc.step(rng.choice(run))
        except S.SchedulerError as e:
            return 'queue-writers-hang', 'a writer entered a blocking call and never came back (%s)' % e
        if not sc.all_done():
            return 'queue-writers-hang', 'writers did not finish'
        for st in sc.ts.values():
            if st.exc is not None:
                return 'queue-writers-raise', repr(st.exc)
        # order in which the writers held the parser lock = order of their first access under it
        order = []
        for tid, op in sc.trace:
            if op not in ('start', 'acq') and tid not in order:
                order.append(tid)
        for t in range(1, nthreads + 1):
            if t not in order:
                order.append(t)          # a chunk that completed no message
        got = []
        while True:
            try:
                if isinstance(getattr(setup.pq, '_queue', None), S.AnnQueue):
                    got.append(list(setup.pq._queue.q.get_nowait().bytes()))
                else:
                    m_ = setup.pq.poll()
                    if m_ is None:
                        break
                    got.append(list(m_.bytes()))
            except _queue.Empty:
                break
    stream = [b for t in order for b in chunks[t]]
    exp = [list(x.bytes()) for x in mido.parse_all(stream)]
    if got != exp:
        return ('queue-writers-order', 'writers took the lock in order %r; queue holds %r, the parser completed %r' % (
            order, got, exp))
    return None


def run(ctx):
    thorough = ctx.tier == 'thorough'
    params = (3, 3, 2) if thorough else (2, 3, 2)
    pr = core.ParallelReplay(ctx, worker, batch_size=2000)
    res = core.run_tlc('TokChunks', cfg(*params), on_emit=pr.push, raw_ints=True, timeout=3400,
                       heap='16g')
    n = pr.finish()
    ctx.add_tlc(res, 'TokChunks items<=%d chunks<=%d retrievals<=%d' % params)
    ctx.constants = {'MaxItems': params[0], 'MaxChunks': params[1], 'MaxRet': params[2]}
    ctx.exhaustive = True
    ctx.note('histories', n)
    if thorough:
        # deeper random behaviours of the same module
        pr = core.ParallelReplay(ctx, worker, batch_size=2000)
        res = core.run_tlc('TokChunks', cfg(4, 9, 6), on_emit=pr.push, raw_ints=True,
                           simulate=200000, depth=30, seed=ctx.seed + 5, timeout=1800, workers=8)
        pr.finish()
        ctx.add_tlc(res, 'TokChunks -simulate items<=4 chunks<=9 retrievals<=6')
    # two writer threads on one ParserQueue under the deterministic scheduler
    rng = random.Random(ctx.seed + 55)
    for _ in range(600 if thorough else 120):
        rseed = rng.randrange(1 << 30)
        r = check_queue_writers(rseed)
        ctx.replayed += 1
        if r:
            ctx.violation('chunks/' + r[0], {'kind': 'writers', 'rseed': rseed}, r[1])
    # V: long streams, random chunking and retrieval, validated by TLC
    ctx.seed_offset = 5
    c04.run_traces(ctx, 40 if thorough else 20, 6000 if thorough else 2500,
                   'TokenizerTrace (chunked feeding + retrieval)')
    ctx.assumptions += [
        'ParserQueue is replayed single-threaded (its locking is outside this property)',
    ]
