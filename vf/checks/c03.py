"""C03 - no invalid message state is reachable through the checked API.

G: MsgObj: for every message type, TLC starts from EVERY valid state over the
   boundary values and takes one action of the checked API (attribute
   assignment, deletion, copy with overrides, constructor, from_dict,
   from_str, sysex data +=) with every probe value (at / beyond both range
   limits, float, str, None, sequences) and with attributes the type does not
   have; it checks AllValid, TypeStable and RejectIsNoOp on the specification
   and emits every transition.  Each transition is replayed on the real
   Message class: accepted => the resulting attribute dictionary equals the
   specified post-state; rejected => ValueError / TypeError / AttributeError
   and the original object is unchanged.
   tlc -simulate supplies long histories of accepted and rejected assignments
   on ONE object (MsgObjHist).
"""
import json
import random

from .. import core, tlaval
from ..midi import TYPES, is_valid_message

ALLOWED = (ValueError, TypeError, AttributeError)


def conc(x):
    k, v = x['k'], x['v']
    if k == 'int':
        return v[0]
    if k == 'float':
        return v[0] / 10.0
    if k == 'str':
        return '1'
    if k == 'none':
        return None
    if k == 'seq':
        return list(v)
    if k == 'badseq':
        return [1, 'a']
    raise ValueError(k)


def as_text(name, x):
    k, v = x['k'], x['v']
    if k == 'int':
        return '%s=%d' % (name, v[0])
    if k == 'float':
        return '%s=%r' % (name, v[0] / 10.0)
    if k == 'seq':
        return '%s=(%s)' % (name, ','.join(str(i) for i in v))
    if k == 'badseq':
        return '%s=(1,a)' % name
    if k == 'none':
        return '%s=None' % name
    return '%s=abc' % name


def state_dict(t, attrs):
    d = {'type': t}
    for a, x in attrs.items():
        d[a] = tuple(x['v']) if x['k'] == 'seq' else conc(x)
    return d


def norm(msg):
    d = dict(vars(msg))
    if 'data' in d:
        d['data'] = tuple(d['data'])
    return d


def same(d1, d2):
    if d1 != d2:
        return False
    return all(type(d1[k]) is type(d2[k]) for k in d1)


def replay_row(row):
    import mido
    t, pre, act, name, val, name2, val2, ok, post = row
    pre_d = state_dict(t, pre)
    post_d = state_dict(t, post)
    kwargs = {k: v for k, v in pre_d.items() if k != 'type'}
    try:
        msg = mido.Message(t, **kwargs)
    except Exception as e:
        return 'pre-state', 'constructor rejected the valid state %r: %r' % (pre_d, e)
    if not same(norm(msg), pre_d):
        return 'pre-state', 'constructed %r from %r' % (norm(msg), pre_d)
    x = conc(val)
    ovr = {name: x}
    if name2:
        ovr[name2] = conc(val2)
    result = None
    exc = None
    try:
        if act == 'setattr':
            setattr(msg, name, x)
        elif act == 'delattr':
            delattr(msg, name)
        elif act == 'copy':
            result = msg.copy(**ovr)
        elif act == 'new':
            result = mido.Message(t, **ovr)
        elif act == 'from_dict':
            result = mido.Message.from_dict(dict(ovr, type=t))
        elif act == 'from_str':
            text = t + ' ' + ' '.join(as_text(n, v) for n, v in
                                      [(name, val)] + ([(name2, val2)] if name2 else []))
            result = mido.Message.from_str(text)
        elif act == 'copy_type':
            result = msg.copy(type=t if name == 'same' else ('note_on' if t != 'note_on' else 'note_off'))
        elif act == 'iadd':
            msg.data += x
    except ALLOWED as e:
        exc = e
    except Exception as e:
        return ('wrong-exception/%s/%s' % (act, type(e).__name__),
                '%s(%s=%r) raised %r' % (act, name, x, e))
    cls = '%s/%s/%s' % (act, t if act == 'iadd' else name if name in ('bogus', 'type') else
                        ('time' if name == 'time' else 'data' if name == 'data' else 'intattr'), val['k'])
    if ok and exc is not None:
        return 'rejects-valid/' + cls, '%s %s=%r on %r raised %r' % (act, name, x, pre_d, exc)
    if not ok and exc is None:
        return ('accepts-invalid/' + cls,
                '%s %s=%r on %s was accepted (result %r)' % (act, name, x, t, result if result is not None else norm(msg)))
    # the object the action was applied to
    if act in ('setattr', 'iadd', 'delattr'):
        if not same(norm(msg), post_d):
            return ('wrong-state/' + cls,
                    'after %s %s=%r the message is %r, specified %r' % (act, name, x, norm(msg), post_d))
        if not is_valid_message(msg):
            return 'invalid-state/' + cls, 'message is invalid: %r' % (norm(msg),)
    else:
        if not same(norm(msg), pre_d):
            return 'original-changed/' + cls, '%s changed the original to %r' % (act, norm(msg))
        if ok:
            if result is msg:
                return 'not-a-copy/' + cls, '%s returned the same object' % act
            if act in ('copy', 'copy_type'):
                exp = dict(pre_d)
            else:
                exp = {'type': t, 'time': 0}
                for a in pre_d:
                    if a not in exp:
                        exp[a] = {'velocity': 64, 'data': ()}.get(a, 0)
            if act != 'copy_type':
                for n, v in ovr.items():
                    exp[n] = tuple(v) if n == 'data' else v
            if not same(norm(result), exp):
                return 'wrong-result/' + cls, '%s gave %r expected %r' % (act, norm(result), exp)
            if not is_valid_message(result):
                return 'invalid-state/' + cls, 'result is invalid: %r' % (norm(result),)
    return None


def worker(lines):
    res = {'n': 0, 'viol': [], 'samples': [], 'counts': {'accepted': 0, 'rejected': 0}}
    for line in lines:
        row = tlaval.parse(json.loads(line))[1:]
        res['n'] += 1
        res['counts']['accepted' if row[7] else 'rejected'] += 1
        r = replay_row(row)
        if r and len(res['viol']) < 10:
            res['viol'].append(('msgobj/' + r[0], {'row': row}, r[1]))
    if lines:
        res['samples'].append({'type': row[0], 'action': row[2], 'name': row[3], 'value': row[4], 'accepted': row[7]})
    return res


# ---- histories on one object -------------------------------------------------

def replay_history(t, steps):
    """steps: list of (name, value-record, ok, post attrs)."""
    import mido
    msg = mido.Message(t)
    for i, (name, val, ok, post) in enumerate(steps):
        x = conc(val)
        before = norm(msg)
        try:
            if name == 'data+=':
                msg.data += x
            else:
                setattr(msg, name, x)
            raised = None
        except ALLOWED as e:
            raised = e
        except Exception as e:
            return 'wrong-exception/history', 'step %d: %s=%r raised %r' % (i, name, x, e)
        if ok and raised is not None:
            return 'rejects-valid/history', 'step %d: %s=%r raised %r' % (i, name, x, raised)
        if not ok and raised is None:
            return 'accepts-invalid/history', 'step %d: %s=%r accepted' % (i, name, x)
        if not ok and not same(norm(msg), before):
            return 'rejected-but-changed/history', 'step %d: rejected %s=%r changed %r to %r' % (
                i, name, x, before, norm(msg))
        if not same(norm(msg), state_dict(t, post)):
            return 'wrong-state/history', 'step %d: message is %r, specified %r' % (i, norm(msg), state_dict(t, post))
    return None


def hist_worker(lines):
    res = {'n': 0, 'viol': [], 'samples': [], 'counts': {'history_steps': 0}}
    for line in lines:
        t, steps = tlaval.parse(json.loads(line))[1:]
        steps = [(s['name'], s['val'], s['ok'], s['post']) for s in steps]
        res['n'] += 1
        res['counts']['history_steps'] += len(steps)
        r = replay_history(t, steps)
        if r and len(res['viol']) < 10:
            res['viol'].append(('msgobj/' + r[0], {'hist': [t, [list(s) for s in steps]]}, r[1]))
    if lines:
        res['samples'].append({'type': t, 'history': [[s[0], s[1], s[2]] for s in steps[:6]]})
    return res


def replay(case):
    if 'typeprobe' in case:
        v = [x for x in check_type_probes() if x[1] == case]
        return v and v[0][2]
    if 'hist' in case:
        t, steps = case['hist']
        r = replay_history(t, [tuple(s) for s in steps])
    else:
        r = replay_row(case['row'])
    return r and '%s: %s' % r


def check_type_probes():
    """The message type itself: anything but a documented type name must be
    refused by every entry point (no object may come out)."""
    import mido
    out = []
    bad_types = [0x90, 144.0, 0xf8, 0, 255, None, b'note_on', ('note_on',), 'Note_On', 'note_on ', '', 'sysex\n']
    for bt in bad_types:
        for how, f in (('constructor', lambda: mido.Message(bt)),
                       ('from_dict', lambda: mido.Message.from_dict({'type': bt})),
                       ('copy', lambda: mido.Message('clock').copy(type=bt))):
            try:
                m = f()
            except Exception:
                continue
            out.append(('accepts-invalid/%s/type' % how, {'typeprobe': [how, repr(bt)]},
                        '%s with type=%r returned %s' % (how, bt, core.srepr(m))))
    # the type given twice (positional and keyword, the same or not) is never a way to mix two types
    for pos, kw in (('clock', 'note_on'), ('aftertouch', 'polytouch'), ('clock', 'sysex'), ('note_on', 'note_off'),
                    ('note_on', 'note_on'), ('songpos', 'pitchwheel')):
        try:
            m = mido.Message(pos, type=kw)
        except Exception:
            continue
        ok = False
        try:
            ok = (m.type == pos == kw) and is_valid_message(m) and list(m.bytes()) == list(mido.Message(pos).bytes())
        except Exception:
            pass
        if not ok:
            out.append(('accepts-invalid/constructor/type-twice', {'typeprobe': ['type-twice', pos + '/' + kw]},
                        "Message(%r, type=%r) returned %s" % (pos, kw, core.srepr(vars(m)))))
    for text in ('clock type=144', 'note_on type=0x90', '144', '0x90 note=1', 'note_on type=note_off'):
        try:
            m = mido.Message.from_str(text)
        except Exception:
            continue
        if m.type not in TYPES or text.endswith('type=note_off'):
            out.append(('accepts-invalid/from_str/type', {'typeprobe': ['from_str', text]},
                        'from_str(%r) returned %s' % (text, core.srepr(m))))
    # one-shot iterables as sysex data: what is *stored* must have been validated
    for name, bad, mk in (('generator', True, lambda: (x for x in [1, 128])),
                          ('iterator', True, lambda: iter([1, 2, -1])),
                          ('map', True, lambda: map(float, [1, 2])),
                          ('generator', False, lambda: (x for x in [1, 127])),
                          ('iterator', False, lambda: iter([0, 5]))):
        for how, f in (('constructor', lambda: mido.Message('sysex', data=mk())),
                       ('from_dict', lambda: mido.Message.from_dict({'type': 'sysex', 'data': mk()})),
                       ('copy', lambda: mido.Message('sysex').copy(data=mk()))):
            try:
                m = f()
            except Exception as e:
                if not bad:
                    out.append(('rejects-valid/%s/data-%s' % (how, name), {'typeprobe': [how, name]},
                                '%s with valid data from a one-shot %s raised %r' % (how, name, e)))
                continue
            ok = (type(m.data).__name__ == 'SysexData' and
                  all(type(b) is int and 0 <= b <= 127 for b in m.data))
            if bad or not ok or list(m.data) != list(mk()):
                out.append(('accepts-invalid/%s/data-%s' % (how, name), {'typeprobe': [how, name]},
                            '%s with data from a one-shot %s (%r) returned %s' % (
                                how, name, list(mk()), core.srepr(m))))
    # every spelling of "change the data of a sysex message" is checked
    for bad in ([200], [2.5], [None], ['a'], [-1], [1, 300], bytearray(b'\xc8')):
        for how, f in (('data = data + x', lambda m: setattr(m, 'data', m.data + tuple(bad))),
                       ('data = x + data', lambda m: setattr(m, 'data', list(bad) + list(m.data))),
                       ('data = SysexData(x)', lambda m: setattr(m, 'data', type(m.data)(bad))),
                       ('data += x', lambda m: m.__setattr__('data', m.data.__iadd__(bad))),
                       ('data = data * 1 + x', lambda m: setattr(m, 'data', m.data * 1 + tuple(bad))),
                       ('copy(data=data + x)', lambda m: m.copy(data=m.data + tuple(bad)))):
            m = mido.Message('sysex', data=(1, 2))
            try:
                r = f(m)
            except Exception:
                if list(m.data) != [1, 2]:
                    out.append(('rejected-but-changed/sysex-data', {'typeprobe': [how, repr(bad)]},
                                '%s with x=%r raised but data is now %r' % (how, bad, m.data)))
                continue
            res = r if r is not None else m
            out.append(('accepts-invalid/sysex-data/' + how.replace(' ', ''), {'typeprobe': [how, repr(bad)]},
                        '%s with x=%r was accepted: %s' % (how, bad, core.srepr(res))))
    for good in ([3], (3, 127), bytearray(b'\x05')):
        m = mido.Message('sysex', data=(1, 2))
        try:
            m.data = m.data + tuple(good)
            m.data += good
            ok = list(m.data) == [1, 2] + list(good) * 2 and type(m.data).__name__ == 'SysexData'
        except Exception as e:
            ok = False
        if not ok:
            out.append(('rejects-valid/sysex-data', {'typeprobe': ['append', repr(good)]},
                        'appending %r to sysex data failed (%s)' % (good, core.srepr(m))))
    # what the read-only views hand out belongs to the caller: changing it must not reach the message
    for mk_ in (lambda: mido.Message('note_on', note=5), lambda: mido.Message('sysex', data=(1, 2)),
                lambda: mido.Message('clock'), lambda: mido.Message('pitchwheel', pitch=-3)):
        m = mk_()
        before = (m.type, dict(vars(m)) if False else {k: (tuple(v) if k == 'data' else v) for k, v in vars(m).items()})
        for view in ('dict', 'bytes', 'bin'):
            try:
                d = getattr(m, view)()
                if view == 'dict':
                    for k in list(d):
                        d[k] = 99999
                    d['zzz'] = 1
                    d.pop('time', None)
                    d.pop('note', None)
                    if isinstance(mk_().dict().get('data'), list):
                        mk_().dict()['data'].append(300)
                else:
                    for i in range(len(d)):
                        d[i] = 255
                    d.append(300) if view == 'bytes' else None
            except Exception:
                pass
            now = (m.type, {k: (tuple(v) if k == 'data' else v) for k, v in vars(m).items()})
            if now != before or not (m == mk_()):
                out.append(('changed-through-view/%s' % view, {'typeprobe': ['view', view]},
                            'changing the result of %s() changed the message to %s' % (view, core.srepr(vars(m)))))
                break
    m = mido.Message('note_on')
    for bt in (0x90, 'note_off', None):
        try:
            m.type = bt
            out.append(('accepts-invalid/setattr/type', {'typeprobe': ['setattr', repr(bt)]},
                        'assigning type=%r was accepted' % (bt,)))
        except Exception:
            pass
    return out


def cfg(types):
    return """SPECIFICATION Spec
CONSTANTS
 Types = {%s}
INVARIANT AllValid
PROPERTY TypeStable
PROPERTY RejectIsNoOp
INVARIANT Emit
CHECK_DEADLOCK FALSE
""" % ', '.join('"%s"' % t for t in types)


def run(ctx):
    thorough = ctx.tier == 'thorough'
    pr = core.ParallelReplay(ctx, worker, batch_size=1000)
    res = core.run_tlc('MsgObj', cfg(TYPES), on_emit=pr.push, raw_ints=True, timeout=3000, heap='16g')
    n = pr.finish()
    ctx.add_tlc(res, 'MsgObj: every transition of every type')
    ctx.note('transitions_replayed', n)
    # histories on one object (simulation of MsgObjHist)
    pr = core.ParallelReplay(ctx, hist_worker, batch_size=200)
    res = core.run_tlc('MsgObjHist', """SPECIFICATION Spec
CONSTANTS
 MaxSteps = 12
INVARIANT AllValid
INVARIANT Emit
CHECK_DEADLOCK FALSE
""", on_emit=pr.push, raw_ints=True, simulate=4000 if thorough else 400, depth=14,
                       seed=ctx.seed + 3, workers=8, timeout=1800)
    pr.finish()
    ctx.add_tlc(res, 'MsgObjHist -simulate depth 12')
    for key, case, msg in check_type_probes():
        ctx.violation('msgobj/' + key, case, msg)
    ctx.replayed += 1
    ctx.exhaustive = True
    ctx.assumptions += [
        'bool values (an int subclass) and generators for sysex data are not probed (the statement does not fix them)',
        'an unknown or ill-typed *type* must be refused by every entry point with any exception (the class of the exception is left to C14 for text)',
        'ill-typed values are represented by 0.5 / 1.0 (float), "1" (str), None, [1] and [1, "a"]',
    ]
