"""C04 - the parser is total and sound on arbitrary byte streams.

G: TokStream: TLC explores every byte string up to MaxLen over the byte-class
   alphabet, checks Total / AllYieldedValid / RealtimeExact / NoInvention on
   the specification and emits (input, control state, expected output) for
   every string; each is replayed through the real parser (parse_all, Parser
   feed / feed_byte / constructor, Tokenizer), also under a class-preserving
   byte substitution chosen by seed.
V: long random streams (all 256 byte values, biased towards status bytes) with
   random chunking are run through the real Parser, logged per call, and
   validated by TLC (TokenizerTrace).
"""
import random

from .. import core
from ..midi import class_map, is_valid_message, parse_tok_row

INVS = """INVARIANT TypeOK
INVARIANT Total
INVARIANT AllYieldedValid
INVARIANT RealtimeExact
INVARIANT NoInvention
INVARIANT FoldAgrees
INVARIANT Resync
INVARIANT EmitState
"""


def cfg(alpha, maxlen):
    return """SPECIFICATION Spec
CONSTANTS
 Alphabet <- %s
 MaxLen = %d
%sCHECK_DEADLOCK FALSE
""" % (alpha, maxlen, INVS)


_MAPS = None


def _init_maps(seed):
    global _MAPS
    rng = random.Random(seed)
    _MAPS = [class_map(rng) for _ in range(64)]


def real_outputs(inp):
    """All the ways of pushing `inp` through the real parser. Yields
    (how, list-of-messages or exception)."""
    import mido
    from mido.tokenizer import Tokenizer
    ways = []
    try:
        ways.append(('parse_all', mido.parse_all(inp)))
    except Exception as e:
        ways.append(('parse_all', e))
    try:
        p = mido.Parser()
        p.feed(inp)
        ways.append(('feed', list(p)))
    except Exception as e:
        ways.append(('feed', e))
    try:
        p = mido.Parser()
        for b in inp:
            p.feed_byte(b)
        ways.append(('feed_byte', list(p)))
    except Exception as e:
        ways.append(('feed_byte', e))
    try:
        p = mido.Parser(bytes(inp))
        ways.append(('ctor-bytes', list(p)))
    except Exception as e:
        ways.append(('ctor-bytes', e))
    try:
        ways.append(('parse_all-generator', mido.parse_all(b for b in inp)))
    except Exception as e:
        ways.append(('parse_all-generator', e))
    try:
        ways.append(('ctor-iterator', list(mido.Parser(iter(inp)))))
    except Exception as e:
        ways.append(('ctor-iterator', e))
    try:
        p = mido.Parser()
        h = len(inp) // 2
        p.feed(bytearray(inp[:h]))
        p.feed(bytes(inp[h:]))
        ways.append(('feed-bytes-halves', list(p)))
    except Exception as e:
        ways.append(('feed-bytes-halves', e))
    import array
    for label, mkc in (('array-H', lambda: array.array('H', inp)), ('array-q', lambda: array.array('q', inp)),
                       ('memoryview-array-i', lambda: memoryview(array.array('i', inp))), ('range-or-tuple', lambda: tuple(inp))):
        try:
            if len(inp) % 2:
                ways.append(('parse_all-' + label, mido.parse_all(mkc())))
            else:
                p = mido.Parser()
                p.feed(mkc())
                ways.append(('feed-' + label, list(p)))
        except Exception as e:
            ways.append(('feed-' + label, e))
    try:
        import copy
        p0 = mido.Parser()
        p = copy.deepcopy(p0)                     # a forked parser is a parser of its own
        p.feed(inp)
        ways.append(('feed-into-deepcopy', list(p)))
        if p0.pending() or list(p0):
            ways.append(('feed-into-deepcopy', ValueError('the original parser received the messages of its copy')))
    except Exception as e:
        ways.append(('feed-into-deepcopy', e))
    try:
        r = mido.parse(inp)
        ways.append(('parse', [] if r is None else [r]))
    except Exception as e:
        ways.append(('parse', e))
    try:
        r = mido.parse(bytes(inp))
        ways.append(('parse-bytes', [] if r is None else [r]))
    except Exception as e:
        ways.append(('parse-bytes', e))
    try:
        tk = Tokenizer()
        for b in inp:
            tk.feed_byte(b)
        toks = list(tk)
        ways.append(('tokenizer', toks))
    except Exception as e:
        ways.append(('tokenizer', e))
    return ways


def compare(inp, out):
    """None or (which, detail)."""
    for how, got in real_outputs(inp):
        if isinstance(got, Exception):
            return 'raises/' + type(got).__name__, '%s raised %r' % (how, got)
        if how == 'tokenizer':
            gb = [list(t) for t in got]
        else:
            for m in got:
                if not is_valid_message(m):
                    return 'invalid-message', '%s yielded %r' % (how, m)
            gb = [list(m.bytes()) for m in got]
            if any(m.time != 0 for m in got):
                return 'stamped-message/' + how, '%s yielded a message that already carries a time: %s' % (how, core.srepr(got))
        if how.startswith('parse') and not how.startswith('parse_all'):
            if gb != out[:1]:            # parse(): the first message, or None
                return 'wrong-output/' + how, '%s gave %r expected %r' % (how, gb, out[:1])
            continue
        if gb != out:
            return 'wrong-output/' + how, '%s gave %r expected %r' % (how, gb, out)
        # the caller owns what it was given: changing it must not show in later results
        for m in got:
            try:
                if how == 'tokenizer':
                    m[:] = [0xf8]
                else:
                    m.time = 77
                    if hasattr(m, 'channel'):
                        m.channel = (m.channel + 1) % 16
                    elif m.type == 'sysex':
                        m.data = (0x55,)
            except Exception:
                pass
    return None


def stream_class(inp):
    s = set()
    for b in inp:
        if b < 128:
            s.add('d')
        elif b < 0xf0:
            s.add('c')
        elif b == 0xf0:
            s.add('X')
        elif b == 0xf7:
            s.add('E')
        elif b < 0xf8:
            s.add('s')
        else:
            s.add('r')
    return ''.join(sorted(s))


def worker(lines):
    res = {'n': 0, 'viol': [], 'samples': [], 'counts': {'nonempty_output': 0, 'substituted': 0}}
    for line in lines:
        inp, status, buf, out = parse_tok_row(core.ints_of(line))
        res['n'] += 1
        if out:
            res['counts']['nonempty_output'] += 1
        r = compare(inp, out)
        sub = None
        if r is None and inp:
            f = _MAPS[(sum(inp) * 31 + len(inp)) % len(_MAPS)]
            sub = [f[b] for b in inp]
            r = compare(sub, [[f[b] for b in t] for t in out])
            res['counts']['substituted'] += 1
        if r and len(res['viol']) < 20:
            case = {'inp': sub if sub and r else inp, 'out': out}
            if sub is not None:
                case = {'inp': sub, 'out': [[f[b] for b in t] for t in out]}
            res['viol'].append(('parser/%s/%s' % (r[0], stream_class(inp)), case, r[1]))
    if lines:
        inp, status, buf, out = parse_tok_row(core.ints_of(lines[-1]))
        res['samples'].append({'inp': inp, 'expected_out': out, 'control': [status] + buf})
    return res


def replay(case):
    if case.get('kind') == 'scale':
        v = check_scale(case['rseed'])
        return v and v[0][2]
    if case.get('kind') == 'trace':
        return replay_trace(case)
    r = compare(case['inp'], case['out'])
    return r and '%s: %s' % r


# ---- V: long random streams ------------------------------------------------

def _data(rng):
    """A data byte; a quarter of them are line ends, blanks and letters (bytes that make a
    chunk look like text)."""
    return rng.choice([0x0a, 0x0a, 0x0d, 0x20, 0x41, 0x3a, 0x00, 0x7f]) if rng.random() < 0.25 else rng.randrange(128)


def random_stream(rng, n):
    out = []
    while len(out) < n:
        k = rng.random()
        if k < 0.35:
            out.append(_data(rng))
        elif k < 0.6:
            out.append(rng.randrange(128, 256))
        elif k < 0.75:
            out.append(rng.choice([0xf0, 0xf7, 0xf8, 0xfe, 0xf4, 0xf9, 0xf6, 0xf1, 0xf2, 0xf3]))
        elif k < 0.9:
            # a well-formed message
            s = rng.choice([0x80, 0x90, 0xa5, 0xb0, 0xc1, 0xd2, 0xe3])
            out.append(s)
            out.extend(_data(rng) for _ in range(1 if 0xc0 <= s < 0xe0 else 2))
        else:
            out.append(0xf0)
            out.extend(_data(rng) for _ in range(rng.randrange(12)))
            if rng.random() < 0.8:
                out.append(0xf7)
    return out[:n]


def record_trace(rng, stream, use_queue=False):
    """Drive a real Parser over `stream` with random chunking and retrieval;
    returns the list of events (see TokenizerTrace.tla)."""
    import mido
    p = mido.Parser()
    ev = []
    pos = 0
    n = len(stream)
    while pos < n:
        k = rng.choice([1, 1, 2, 2, 3, 3, 7, 64, 500])
        chunk = stream[pos:pos + k]
        pos += len(chunk)
        try:
            if len(chunk) == 1 and rng.random() < 0.7:
                p.feed_byte(chunk[0])
            else:
                how = rng.randrange(3)
                p.feed(chunk if how == 0 else bytes(chunk) if how == 1 else iter(chunk))
            ev.append({'a': 'feed', 'b': chunk, 'p': p.pending()})
        except Exception as e:
            ev.append({'a': 'feed', 'b': chunk, 'p': -1, 'exc': type(e).__name__})
            break
        r = rng.random()
        if r < 0.25:
            m = p.get_message()
            ev.append({'a': 'get', 'k': 0 if m is None else 1,
                       'r': [] if m is None else [int(x) for x in m.bytes()]})
        elif r < 0.35:
            ev.append({'a': 'pending', 'r': len(p)})
        elif r < 0.45:
            ev.append({'a': 'iter', 'r': [[int(x) for x in m.bytes()] for m in p]})
    ev.append({'a': 'iter', 'r': [[int(x) for x in m.bytes()] for m in p]})
    return ev


def replay_trace(case):
    rng = random.Random(case['rseed'])
    stream = case['stream']
    if len(stream) > 1000 and stream[0] == 0xfa and stream[-1] == 0xfc:
        import mido
        p = mido.Parser()
        p.feed(stream)
        ev = [{'a': 'feed', 'b': stream, 'p': p.pending()},
              {'a': 'get', 'k': 1, 'r': [int(x) for x in (p.get_message() or mido.Message('stop')).bytes()]},
              {'a': 'iter', 'r': [[int(x) for x in m.bytes()] for m in p]}]
    else:
        ev = record_trace(rng, stream)
    work_ctx = core.Ctx('C04', 'quick', 0)
    rej = core.validate_batch(work_ctx, 'TokenizerTrace', [ev])
    if rej:
        return 'trace rejected by TokenizerTrace at line %d: %r' % (rej[0][1], ev[max(0, rej[0][1] - 1)])
    return None


def run_traces(ctx, n_traces, length, label='TokenizerTrace'):
    rng = random.Random(ctx.seed * 104729 + 4)
    traces = []
    meta = []
    for i in range(n_traces):
        rseed = rng.randrange(1 << 30)
        stream = random_stream(rng, length)
        traces.append(record_trace(random.Random(rseed), stream))
        meta.append((rseed, stream))
    # bursts: very many complete messages fed before anything is retrieved
    import mido
    for nmsg in ((1500,) if n_traces < 50 else (1500, 3000)):   # (TLC cost grows quadratically; 20 000 is covered by check_scale)
        rseed = rng.randrange(1 << 30)
        stream = [0xfa] + [rng.choice([0xf8, 0xf8, 0xfe, 0xf6]) for _ in range(nmsg)] + [0x90, 1, 2, 0xfc]
        p = mido.Parser()
        p.feed(stream)
        ev = [{'a': 'feed', 'b': stream, 'p': p.pending()},
              {'a': 'get', 'k': 1, 'r': [int(x) for x in (p.get_message() or mido.Message('stop')).bytes()]},
              {'a': 'iter', 'r': [[int(x) for x in m.bytes()] for m in p]}]
        traces.append(ev)
        meta.append((rseed, stream))
    for idx, furthest in core.validate_batch(ctx, 'TokenizerTrace', traces, label):
        rseed, stream = meta[idx]
        line = traces[idx][max(0, furthest - 1)]
        ctx.violation('parser/trace-rejected/%s' % line.get('a'),
                      {'kind': 'trace', 'rseed': rseed, 'stream': stream},
                      'real parser trace rejected at event %d: %r' % (furthest, str(line)[:300]))
    ctx.note('trace_bytes', n_traces * length)
    ctx.sample({'trace_events': traces[0][:4]})


def check_scale(rseed, sizes=(0xfffe, 0xffff, 0x10000, 70000, (1 << 17) + 3), nconcat=3000):
    """Lengths just past the powers of two: very long sysex messages (terminated,
    or abandoned for another message) and long concatenations of messages, through
    every way of feeding.  The expected output of these shapes is immediate."""
    import mido
    rng = random.Random(rseed)
    out = []

    def ways(stream):
        yield 'parse_all', lambda: mido.parse_all(stream)
        yield 'parse_all-bytes', lambda: mido.parse_all(bytes(stream))

        def chunked():
            p = mido.Parser()
            for i in range(0, len(stream), 4093):
                p.feed(stream[i:i + 4093])
            return list(p)
        yield 'feed-chunks', chunked

        def bytewise():
            p = mido.Parser()
            for b in stream:
                p.feed_byte(b)
            return list(p)
        yield 'feed_byte', bytewise

        def polled():
            p = mido.Parser()
            got = []
            for i in range(0, len(stream), 997):
                p.feed(stream[i:i + 997])
                while p.pending():
                    got.append(p.get_message())
            return got
        yield 'feed-and-poll', polled

    def judge(label, stream, exp):
        for how, f in ways(stream):
            try:
                got = [list(m.bytes()) for m in f()]
            except Exception as e:
                out.append(('raises/%s/scale' % type(e).__name__, {'kind': 'scale', 'rseed': rseed},
                            '%s: %s raised %r' % (label, how, e)))
                return
            if got != exp:
                first = next((i for i, (a, b) in enumerate(zip(got, exp)) if a != b), min(len(got), len(exp)))
                out.append(('wrong-output/%s/scale' % how, {'kind': 'scale', 'rseed': rseed},
                            '%s: %s gave %d messages, expected %d (first difference at message %d)' % (
                                label, how, len(got), len(exp), first)))
                return
    for n in sizes:
        payload = [rng.randrange(128) for _ in range(n)]
        note = [0x93, 1, 2]
        judge('sysex with %d data bytes' % n, [0xf0] + payload + [0xf7] + note, [[0xf0] + payload + [0xf7], note])
        judge('abandoned sysex with %d data bytes' % n, [0xf0] + payload + note + [0xf8], [note, [0xf8]])
        judge('sysex with %d data bytes and a clock inside' % n,
              [0xf0] + payload[:n // 2] + [0xf8] + payload[n // 2:] + [0xf7], [[0xf8], [0xf0] + payload + [0xf7]])
    msgs = []
    for _ in range(nconcat):
        k = rng.random()
        if k < 0.5:
            msgs.append([rng.choice([0x80, 0x90, 0xa0, 0xb0, 0xe0]) + rng.randrange(16), rng.randrange(128),
                         rng.randrange(128)])
        elif k < 0.7:
            msgs.append([rng.choice([0xc0, 0xd0]) + rng.randrange(16), rng.randrange(128)])
        elif k < 0.8:
            msgs.append([rng.choice([0xf8, 0xfa, 0xfb, 0xfc, 0xfe, 0xff, 0xf6])])
        elif k < 0.9:
            msgs.append([0xf0] + [rng.randrange(128) for _ in range(rng.randrange(6))] + [0xf7])
        else:
            msgs.append([rng.choice([0xf2]), rng.randrange(128), rng.randrange(128)])
    judge('concatenation of %d messages' % len(msgs), [b for m in msgs for b in m], msgs)
    return out[:4]


def run(ctx):
    thorough = ctx.tier == 'thorough'
    for key, case, msg in check_scale(ctx.seed + 404, nconcat=20000 if thorough else 3000):
        ctx.violation('parser/' + key, case, msg)
    ctx.replayed += 16
    runs = [('ClassAlphabet', 4), ('SmallAlphabet', 5)] if not thorough else [('ClassAlphabet', 6)]
    for alpha, maxlen in runs:
        pr = core.ParallelReplay(ctx, worker, batch_size=5000, initializer=_init_maps,
                                 initargs=(ctx.seed,))
        res = core.run_tlc('TokStream', cfg(alpha, maxlen), on_emit=pr.push, raw_ints=True,
                           timeout=7200, heap='16g')
        n = pr.finish()
        ctx.add_tlc(res, 'TokStream %s <= %d' % (alpha, maxlen))
        if n != res.distinct:
            raise core.Machinery('replayed %d rows, TLC found %d states' % (n, res.distinct))
    ctx.constants = {'runs': runs}
    ctx.exhaustive = True
    if thorough:
        run_traces(ctx, 60, 10000)
    else:
        run_traces(ctx, 30, 3000)
    ctx.assumptions += [
        'bytes within one class are interchangeable for the tokenizer (checked by replaying every row also under a random class-preserving substitution)',
        'validity of yielded messages is judged by an independent range table plus msg.bytes() == expected token',
    ]
