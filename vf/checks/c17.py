"""C17 - text encoding follows the file charset and never leaks out of a call.

Spec : CharsetScope: the process-wide charset, the entry / per-event / failure
       / exit steps of a load or save call.  Invariants ScopedCharset (outside
       a call the default is in force) and InForceDuringCall.  With
       Scoped = FALSE (context manager without try/finally) TLC finds the
       leaking behaviour; with Scoped = TRUE the invariants hold.
G    : every behaviour of MaxCalls calls - {load, save} x 5 charsets x fault
       kind x fault position (every event; truncation additionally at every
       byte offset of that event) - is concretised and executed on the real
       MidiFile; after every call, whether it succeeded or raised, meta text
       is encoded and decoded "elsewhere" and must use latin1.  Successful
       calls must carry the text in the file's charset.
"""
import io
import json

from .. import core, tlaval

TEXTS = {'latin1': 'S\xc3\xa3o \xc2\xa9 \xc3\xa9',     # (latin1 text whose bytes happen to be well-formed UTF-8)
         'utf-8': 'caf\xe9 cafe\u0301 \u2126 日本',   # composed, decomposed, compatibility
         'cp1252': '€ caf\xe9',
         'shift_jis': '日本語 \u301c\u2212\xa2\xa3\xac\u2016', 'utf-16': '\xe9 日',
         # characters on which a national charset and its vendor superset (cp932, gbk, cp949) disagree
         'gb2312': '中文 \u2015\u30fb', 'euc_kr': '한글 똠',
         # encodings whose bytes can all be below 0x80 without being ASCII text
         'utf-16-le': 'Piano 1', 'iso2022_jp': '日本語 abc'}
UNDECODABLE = {'utf-8': b'\xff\xfe\xfa', 'shift_jis': b'\x81', 'utf-16': b'\x00\xd8\x00',
               'cp1252': b'\x81', 'utf-16-le': b'\x00\xd8\x00', 'iso2022_jp': b'\xff',
               'gb2312': b'\xff', 'euc_kr': b'\xff'}
UNENCODABLE = {'latin1': '日', 'cp1252': '日', 'shift_jis': '\xe9', 'iso2022_jp': '\xe9', 'euc_kr': '\xe9',
               'gb2312': '\u20ac'}


def vlq(n):
    out = [n & 0x7f]
    n >>= 7
    while n:
        out.insert(0, (n & 0x7f) | 0x80)
        n >>= 7
    return bytes(out)


def elsewhere():
    """Meta text handled outside any load/save call must use latin1."""
    import mido
    try:
        b = mido.MetaMessage('text', text='\xe9').bytes()
    except Exception as e:
        return 'encoding elsewhere raised %r' % (e,)
    if list(b) != [0xff, 0x01, 0x01, 0xe9]:
        return 'text encoded elsewhere gives %r (not latin1)' % (list(b),)
    try:
        m = mido.MetaMessage.from_bytes([0xff, 0x03, 0x01, 0xe9])
    except Exception as e:
        return 'decoding elsewhere raised %r' % (e,)
    if m.name != '\xe9':
        return 'text decoded elsewhere gives %r (not latin1)' % (m.name,)
    return None


def in_force(expect):
    """Meta text handled right now must use charset `expect` (the default outside
    every call; the outer file's charset between two events of an outer call)."""
    import mido
    if expect == 'latin1':
        return elsewhere()
    text = TEXTS[expect]
    try:
        b = bytes(mido.MetaMessage('text', text=text).bytes())
    except Exception as e:
        return 'encoding inside the outer call (charset %s) raised %r' % (expect, e)
    enc = text.encode(expect)
    if b != b'\xff\x01' + vlq(len(enc)) + enc:
        return 'text encoded inside the outer call gives %r (not %s)' % (list(b), expect)
    try:
        m = mido.MetaMessage.from_bytes(list(b'\xff\x03' + vlq(len(enc)) + enc))
    except Exception as e:
        return 'decoding inside the outer call (charset %s) raised %r' % (expect, e)
    if m.name != text:
        return 'text decoded inside the outer call gives %r (not %s)' % (m.name, expect)
    return None


class HookFile(io.BytesIO):
    """A file object that runs `hooks[offset]()` when the reader arrives at offset."""

    def __init__(self, data, hooks):
        io.BytesIO.__init__(self, data)
        self.hooks = dict(hooks)

    def read(self, n=-1):
        pos = self.tell()
        end = len(self.getbuffer()) if n is None or n < 0 else pos + n
        for off in sorted(self.hooks):
            # the reader arrives at (or, reading a whole block, passes) the offset
            if off <= pos or off < end:
                self.hooks.pop(off)()
        return io.BytesIO.read(self, n)


class _Interrupt(BaseException):
    """What Ctrl-C, SystemExit or a cancelled task look like to a load or save in progress."""


def _interrupt():
    raise _Interrupt()


class _RaisingWriter:
    def write(self, b):
        raise _Interrupt()


class _Label(str):
    def __str__(self):
        return 'Label.' + str.upper(self)

    __repr__ = __str__


def texts_of(track):
    """The texts of the text and track_name events of a track."""
    return [m.text if m.type == 'text' else m.name for m in track if m.type in ('text', 'track_name')]


def build_load(cs, fault, at, n=3):
    """-> (list of byte strings to try, realised?)"""
    text = TEXTS[cs].encode(cs)
    events = []
    realised = fault in ('none', 'truncate', 'unknown_charset', 'interrupt')
    for i in range(1, n + 1):
        ev = (b'\x00\xff\x03' if i == 2 else b'\x00\xff\x01') + vlq(len(text)) + text
        if fault == 'bad_data_byte' and at == i:
            ev = b'\x00\x90\x3c\xc8'
            realised = True
        if fault == 'undecodable_text' and at == i and cs in UNDECODABLE:
            ev = b'\x00\xff\x01' + vlq(len(UNDECODABLE[cs])) + UNDECODABLE[cs]
            realised = True
        events.append(ev)
    events.append(b'\x00\xff\x2f\x00')
    body = b''.join(events)
    hdr = b'MThd' + (6).to_bytes(4, 'big') + b'\x00\x01\x00\x01\x01\xe0'
    data = hdr + b'MTrk' + len(body).to_bytes(4, 'big') + body
    build_load.offsets = [len(hdr) + 8 + sum(len(e) for e in events[:k]) for k in range(len(events))]
    if fault == 'bad_data_byte' and at == 0:
        # a fault in the header: not a MIDI file
        return [b'MThx' + data[4:]], True
    if fault == 'truncate':
        if at == 0:
            lo, hi = 0, len(hdr) + 8
        else:
            start = len(hdr) + 8 + sum(len(e) for e in events[:at - 1])
            lo, hi = start, start + len(events[at - 1])
        return [data[:k] for k in range(lo, hi)], True
    return [data], realised


def run_call(kind, cs, fault, at, children=(), outer='latin1'):
    """Execute one concretised call; children = [(pc, call)] are calls nested
    inside it, begun after the call has processed pc events.  `outer' is the
    charset in force around this call.  Returns list of problems (key, detail)."""
    import mido
    probs = []
    use_cs = 'no-such-charset' if fault == 'unknown_charset' else cs

    def nested(pc):
        for cpc, ch in children:
            if cpc == pc:
                probs.extend(run_call(ch['kind'], ch['cs'], ch['fault'], ch['at'], ch['children'], outer=cs))

    def elsewhere():
        return in_force(outer)
    if kind == 'load':
        datas, realised = build_load(cs, fault, at)
        offsets = build_load.offsets
        for data in datas:
            ok = True
            inside = None
            try:
                hooks = {offsets[pc]: (lambda pc=pc: nested(pc)) for pc, _ in children}
                if fault == 'interrupt':
                    # the reader is interrupted when it arrives at event `at` (0: at its first read)
                    hooks[0 if at == 0 else offsets[at - 1]] = _interrupt
                f = HookFile(data, hooks) if hooks else io.BytesIO(data)
                mid = mido.MidiFile(file=f, charset=use_cs)
            except (Exception, _Interrupt) as exc:
                ok = False
                inside = elsewhere()       # while the exception (and its traceback) is alive
                del exc
            if inside:
                probs.append(('charset-leak/load/in-handler',
                              'inside the except handler after load(charset=%r, fault %s at %d): %s' % (
                                  use_cs, fault, at, inside)))
                break
            if ok and fault in ('none',) or (ok and not realised):
                texts = texts_of(mid.tracks[0])
                if texts != [TEXTS[cs]] * 3:
                    probs.append(('load-text/' + cs, 'loaded texts %r expected %r' % (texts, TEXTS[cs])))
                # clip concerns MIDI data bytes, not the 8-bit payload of meta events
                try:
                    mc = mido.MidiFile(file=io.BytesIO(data), charset=use_cs, clip=True)
                    tc = texts_of(mc.tracks[0])
                except Exception as e:
                    tc = repr(e)
                if tc != [TEXTS[cs]] * 3:
                    probs.append(('load-text-clip/' + cs, 'with clip=True loaded texts %r expected %r' % (tc, TEXTS[cs])))
            if ok and realised and fault not in ('none', 'truncate'):
                probs.append(('fault-not-raised/%s' % fault, 'load with %s at %d succeeded' % (fault, at)))
            e = elsewhere()
            if e:
                probs.append(('charset-leak/load/%s' % ('raised' if not ok else 'ok'),
                              'after load(charset=%r, fault %s at %d -> %s): %s' % (
                                  use_cs, fault, at, 'raised' if not ok else 'ok', e)))
                break
    else:
        # the charset is an ordinary attribute of the file: given to the constructor, or
        # assigned later; the file may also have been duplicated (copy / deepcopy / pickle)
        variant = (len(cs) + at + len(fault)) % 4
        try:
            if variant == 1:
                mid = mido.MidiFile()
                mid.charset = use_cs
            elif variant == 3:
                mid = mido.MidiFile(charset='cp437')
                mid.charset = use_cs
            else:
                mid = mido.MidiFile(charset=use_cs)
        except LookupError:
            if fault != 'unknown_charset':
                raise
            # refusing an unknown charset early is as good as refusing it in save()
            e = elsewhere()
            return [('charset-leak/constructor', e)] if e else probs
        tr = mido.MidiTrack()
        realised = fault in ('none', 'unknown_charset', 'interrupt')
        for i in range(1, 4):
            # (the third text is a str subclass with its own __str__, e.g. a str-valued Enum member:
            # its characters are the text)
            m = mido.MetaMessage('text', text=TEXTS[cs] if i != 3 else _Label(TEXTS[cs]), time=1) if i != 2 else \
                mido.MetaMessage('track_name', name=TEXTS[cs], time=1)
            if fault == 'non_integer_time' and at == i:
                m = mido.MetaMessage('text', text=TEXTS[cs], time=0.5)
                realised = True
            if fault == 'unencodable_text' and at == i and cs in UNENCODABLE:
                m = mido.MetaMessage('text', text=UNENCODABLE[cs], time=1)
                realised = True
            if fault == 'realtime_message' and at == i:
                m = mido.Message('clock', time=1)
                realised = True
            tr.append(m)
        # an empty text is a text too: its encoding in the file's charset (a byte order mark in
        # utf-16) is what the file holds
        tr.append(mido.MetaMessage('marker', text='', time=0))
        if fault == 'none' and not children and len(cs) % 3 != 1:
            # the track comes out of a file that was read with ANOTHER charset (tracks are moved
            # between files when merging or converting): messages carry text, not bytes
            other = 'utf-8' if cs != 'utf-8' else 'utf-16'
            try:
                src = mido.MidiFile(charset=other)
                src.tracks.append(tr)
                buf0 = io.BytesIO()
                src.save(file=buf0)
                tr = mido.MidiFile(file=io.BytesIO(buf0.getvalue()), charset=other).tracks[0]
                del tr[-1]                     # (its end_of_track)
            except Exception as e:
                probs.append(('migrate-raises/' + cs, repr(e)))
        if children or (fault == 'interrupt' and at > 0):
            def gen(msgs=list(tr)):
                for k, m in enumerate(msgs):
                    nested(k)
                    if fault == 'interrupt' and at == k + 1:
                        raise _Interrupt()      # the track is produced lazily and its producer is interrupted
                    yield m
                nested(len(msgs))
            mid.tracks.append(gen())
        else:
            mid.tracks.append(tr)
        if fault in ('non_integer_time', 'realtime_message') and at == 0:
            mid.type = 0
            mid.tracks.append(mido.MidiTrack())       # fails before any event is written
            realised = True
        if variant == 2 and not children and fault != 'interrupt':
            import copy
            import pickle
            k = (at + len(cs)) % 3
            try:
                mid = copy.copy(mid) if k == 0 else copy.deepcopy(mid) if k == 1 else pickle.loads(pickle.dumps(mid))
            except Exception as e:
                probs.append(('duplicate-raises/%s' % type(e).__name__, 'copy/deepcopy/pickle of a MidiFile raised %r' % (e,)))
        buf = io.BytesIO() if not (fault == 'interrupt' and at == 0) else _RaisingWriter()
        ok = True
        inside = None
        try:
            if variant == 1 and not children and fault != 'interrupt':
                # a MidiFile is a context manager (it closes nothing and changes nothing on entry)
                with mid as same:
                    inside_with = elsewhere() if same is mid else 'with-statement yields another object'
                    mid.save(file=buf)
                    inside_with = inside_with or elsewhere()
                if inside_with:
                    probs.append(('charset-leak/with-block', 'inside `with MidiFile(charset=%r)`: %s' % (use_cs, inside_with)))
            else:
                mid.save(file=buf)
        except (Exception, _Interrupt) as exc:
            ok = False
            inside = elsewhere()           # while the exception (and its traceback) is alive
            del exc
        if inside:
            probs.append(('charset-leak/save/in-handler',
                          'inside the except handler after save(charset=%r, fault %s at %d): %s' % (
                              use_cs, fault, at, inside)))
        if ok and realised and fault != 'none':
            probs.append(('fault-not-raised/%s' % fault, 'save with %s at %d succeeded' % (fault, at)))
        if ok and (fault == 'none' or not realised):
            data = buf.getvalue()
            if data.count(TEXTS[cs].encode(cs)) != 3:
                probs.append(('save-bytes/' + cs, 'saved bytes do not contain the text encoded in %s' % cs))
            empty = ''.encode(cs)
            if (b'\xff\x06' + vlq(len(empty)) + empty + b'\x00\xff\x2f') not in data:
                probs.append(('save-bytes-empty-text/' + cs, "an empty marker is not written as ''.encode(%r) = %r" % (cs, empty)))
            try:
                back = mido.MidiFile(file=io.BytesIO(data), charset=cs)
                texts = texts_of(back.tracks[0])
                if texts != [TEXTS[cs]] * 3:
                    probs.append(('reload-text/' + cs, 'reloaded texts %r' % (texts,)))
            except Exception as e:
                probs.append(('reload-raises/' + cs, repr(e)))
        e = elsewhere()
        if e:
            probs.append(('charset-leak/save/%s' % ('raised' if not ok else 'ok'),
                          'after save(charset=%r, fault %s at %d -> %s): %s' % (
                              use_cs, fault, at, 'raised' if not ok else 'ok', e)))
    return probs


def check_custom_text_spec():
    """A text meta type registered through the documented extension point, written with the
    helpers the built-in text types use (encode_string / decode_string): it follows the file's
    charset like they do."""
    import mido
    import mido.midifiles.meta as meta
    out = []

    class MetaSpec_vf_program_name(meta.MetaSpec):
        type_byte = 0x08
        attributes = ['name']
        defaults = ['']

        def decode(self, message, data):
            message.name = meta.decode_string(data)

        def encode(self, message):
            return meta.encode_string(message.name)

        def check(self, name, value):
            meta.check_str(value)
    try:
        meta.add_meta_spec(MetaSpec_vf_program_name)
        for cs in ('utf-8', 'shift_jis', 'cp1252', 'utf-16', 'latin1'):
            text = TEXTS[cs]
            mid = mido.MidiFile(charset=cs)
            mid.tracks.append(mido.MidiTrack([mido.MetaMessage('vf_program_name', name=text, time=1),
                                              mido.MetaMessage('text', text=text, time=1)]))
            buf = io.BytesIO()
            mid.save(file=buf)
            data = buf.getvalue()
            if data.count(text.encode(cs)) != 2:
                out.append(('custom-text-spec/save-bytes/' + cs, 'the registered text type is not written in the charset of the file (%s)' % cs))
                continue
            back = mido.MidiFile(file=io.BytesIO(data), charset=cs).tracks[0]
            if [getattr(m, 'name', getattr(m, 'text', None)) for m in back][:2] != [text, text] or back[0].type != 'vf_program_name':
                out.append(('custom-text-spec/load-text/' + cs, 'loaded %s' % core.srepr(list(back))))
            e = elsewhere()
            if e:
                out.append(('custom-text-spec/leak/' + cs, e))
    except Exception as e:
        out.append(('custom-text-spec/raises/%s' % type(e).__name__, repr(e)))
    return out[:3]


def reset_global():
    import mido.midifiles.meta as meta
    meta._charset = 'latin1'


def parse_calls(hist):
    """The event history of CharsetScope -> list of top-level calls, each
    {'kind','cs','fault','at','children': [(pc, call)]}."""
    top, stack = [], []
    for op, kind, cs, fault, at in hist:
        if op == 'begin':
            node = {'kind': kind, 'cs': cs, 'fault': fault, 'at': at, 'children': [], 'pc': 0}
            if stack:
                stack[-1]['children'].append((stack[-1]['pc'], node))
            else:
                top.append(node)
            stack.append(node)
        elif op == 'item':
            stack[-1]['pc'] += 1
        else:
            stack.pop()
    return top


def run_behaviour(hist):
    reset_global()
    try:
        for c in parse_calls(hist):
            probs = run_call(c['kind'], c['cs'], c['fault'], c['at'], c['children'])
            if probs:
                return probs[0]
        return None
    finally:
        reset_global()


def worker(lines):
    res = {'n': 0, 'viol': [], 'samples': [], 'counts': {'calls': 0, 'failing_calls': 0}}
    for line in lines:
        calls = tlaval.parse(json.loads(line))[1]
        res['n'] += 1
        res['counts']['calls'] += sum(1 for c in calls if c[0] == 'begin')
        res['counts']['failing_calls'] += sum(1 for c in calls if c[0] == 'raise')
        if any(c['children'] for c in parse_calls(calls)):
            res['counts']['nested_behaviours'] = res['counts'].get('nested_behaviours', 0) + 1
        r = run_behaviour(calls)
        if r and len(res['viol']) < 10:
            res['viol'].append(('charset/' + r[0], {'calls': calls}, r[1]))
    if lines:
        res['samples'].append({'calls': calls})
    return res


def replay(case):
    if case.get('kind') == 'custom_text_spec':
        v = check_custom_text_spec()
        return v and '%s: %s' % v[0]
    r = run_behaviour([tuple(c) for c in case['calls']])
    return r and '%s: %s' % r


def cfg(scoped, nitems, maxcalls, emit=True, depth=1, few=False):
    return """SPECIFICATION Spec
CONSTANTS
 Scoped = %s
 NItems = %d
 MaxCalls = %d
 MaxDepth = %d
 Charsets <- %s
INVARIANT ScopedCharset
INVARIANT InForceDuringCall
%s%sCHECK_DEADLOCK FALSE
""" % ('TRUE' if scoped else 'FALSE', nitems, maxcalls, depth, 'FewCharsets' if few else 'AllCharsets',
       'INVARIANT SavedChain\n' if scoped else '', 'INVARIANT Emit\n' if emit else '')


def run(ctx):
    thorough = ctx.tier == 'thorough'
    res = core.run_tlc('CharsetScope', cfg(False, 3, 1, emit=False), expect_error=True, timeout=600)
    ctx.add_tlc(res, 'CharsetScope Scoped=FALSE (expected to violate ScopedCharset)')
    if res.ok or 'ScopedCharset' not in (res.error or ''):
        raise core.Machinery('the unscoped design should violate ScopedCharset: %r' % res.error)
    pr = core.ParallelReplay(ctx, worker, batch_size=100)
    res = core.run_tlc('CharsetScope', cfg(True, 3, 1), on_emit=pr.push, raw_ints=True, timeout=1200)
    ctx.add_tlc(res, 'CharsetScope Scoped=TRUE, single calls')
    # two calls, consecutive or one nested inside the other (a generator track that loads
    # or saves another file; a file object whose read() does)
    res = core.run_tlc('CharsetScope', cfg(True, 3, 2, depth=2, few=not thorough), on_emit=pr.push, raw_ints=True,
                       timeout=3000, heap='16g')
    ctx.add_tlc(res, 'CharsetScope Scoped=TRUE, two calls, consecutive or nested%s' % (
        '' if thorough else ' (3 charsets)'))
    pr.finish()
    for key, msg in check_custom_text_spec():
        ctx.violation('charset/' + key, {'kind': 'custom_text_spec'}, msg)
    ctx.replayed += 5
    ctx.exhaustive = True
    ctx.constants = {'charsets': sorted(TEXTS), 'items_per_call': 3}
    ctx.assumptions += [
        "the codec tables are not modelled: Python's str.encode / bytes.decode instantiate the encoding function",
        'a fault that cannot be realised for a charset (e.g. undecodable bytes in latin1) degenerates to a successful call',
        'truncation is applied at every byte offset of the event the behaviour names',
    ]
