"""C10 - ports deliver each message exactly once and in order under
concurrent use.

Spec level : PortImpl (implementation-shaped: one action per shared access)
             is model-checked by TLC for every scenario with a bounded number
             of preemptions: NoRaise, AtMostOnce, ExactlyOnce, PerSenderFifo,
             MutualExclusion.
G          : every complete schedule TLC explored is replayed on real
             threads over the real EchoPort / device double / IOPort under the
             deterministic scheduler; the access each real thread announces is
             compared with the specification's pc label (divergences are
             counted, not alarms).
V          : the Call/Return history of every run (and of seeded random /
             priority schedules of larger programs, MultiPort included) is
             validated by TLC against the property-level PortCore
             (linearizability to an atomic FIFO queue; TLC infers the
             linearization points).  Verdicts come from this level only.
"""
import json
import random

from .. import core, tlaval
from .. import portrun

SCENARIOS_QUICK = [('echo_2s2p', 3), ('echo_s2_r2', 3), ('echo_s2_iter_p', 3), ('echo_pre2_3p', 3),
                   ('dev_2s_r2', 3), ('dev_s2_2p', 3), ('io_pre1_2p', 4), ('io_s_2p', 2),
                   ('io_s2_r_p', 1)]
SCENARIOS_THOROUGH = [('echo_2s2p', 5), ('echo_s2_r2', 5), ('echo_s2_iter_p', 5), ('echo_pre2_3p', 5),
                      ('dev_2s_r2', 4), ('dev_s2_2p', 4), ('io_pre1_2p', 6), ('io_s_2p', 4),
                      ('io_s2_r_p', 3)]


def cfg(scenario, k, atomic=True, check=True):
    return """SPECIFICATION Spec
CONSTANTS
 Scenario = "%s"
 MaxPreempt = %d
 MaxSteps = 60
 Locking = TRUE
 AtomicPop = %s
%sINVARIANT Emit
CHECK_DEADLOCK FALSE
""" % (scenario, k, 'TRUE' if atomic else 'FALSE',
       ("INVARIANT NoRaise\nINVARIANT AtMostOnce\nINVARIANT ExactlyOnce\n"
        "INVARIANT PerSenderFifo\nINVARIANT MutualExclusion\n") if check else '')


def conv_prog(prog):
    return [[{'op': o['op'], 'm': o['m'], 'lane': 1} for o in ops] for ops in prog]


def history_key(events):
    return json.dumps(events, sort_keys=True, separators=(',', ':'))


def worker(lines):
    res = {'n': 0, 'viol': [], 'samples': [], 'counts': {'impl_divergences': 0, 'result_mismatch': 0},
           'hist': {}}
    for line in lines:
        scen, kind, initq, prog, atomic, sched, exp, q = tlaval.parse(json.loads(line))[1:]
        schedule = [x[0] for x in sched]
        labels = [x[1] for x in sched]
        run = portrun.run_program(kind, initq, conv_prog(prog), schedule=schedule,
                                  labels=labels if atomic else None)
        res['n'] += 1
        if atomic:
            # the specification variant that models the current code
            res['counts']['impl_divergences'] += run['divergences']
            got = [run['results'].get(t + 1) for t in range(len(prog))]
            if got != exp or run['final_q'] != q:
                res['counts']['result_mismatch'] += 1
                if len(res.setdefault('obs', [])) < 3:
                    res['obs'].append({'scenario': scen, 'schedule': schedule, 'expected': exp, 'got': got})
        case = {'kind': kind, 'initq': initq, 'prog': conv_prog(prog), 'schedule': schedule,
                'scenario': scen}
        dv = portrun.direct_verdict(run)
        if dv and len(res['viol']) < 10:
            res['viol'].append(('ports/%s/%s' % (dv[0], kind), case, dv[1] + ' (scenario %s)' % scen))
        hk = history_key(run['events'])
        if hk not in res['hist']:
            res['hist'][hk] = case
    if lines:
        res['samples'].append({'scenario': scen, 'schedule': schedule[:30], 'expected': exp})
    return res


# ---- random / priority schedules of larger programs --------------------------

def random_program(rng, kind):
    ns = rng.choice([1, 2, 3])
    nr = rng.choice([1, 2])
    prog = []
    mid = 1
    total = 0
    for s in range(ns):
        ops = []
        for _ in range(rng.choice([1, 2, 3])):
            lane = rng.choice([1, 2]) if kind == 'multi' else 1
            if rng.random() < 0.2:
                ops.append({'op': 'send', 'm': portrun.RT_ID, 'lane': lane})      # a real-time message
            else:
                ops.append({'op': 'send', 'm': mid, 'lane': lane})
                mid += 1
            total += 1
        prog.append(ops)
    # receivers either only poll (may find nothing) or only block - and then
    # never ask for more messages than are sent, so every receive() can return
    blocking = rng.random() < 0.4 and kind != 'pqueue'      # ParserQueue.get() blocks the OS thread
    budget = total
    for r in range(nr):
        ops = []
        for _ in range(rng.choice([1, 2, 3])):
            if blocking:
                if budget <= 0:
                    break
                budget -= 1
                o = 'recv'
            else:
                o = rng.choice(['poll', 'poll', 'iterp'])
            ops.append({'op': o, 'm': 0, 'lane': 0})
        prog.append(ops)
    return prog


def random_worker(jobs):
    res = {'n': 0, 'viol': [], 'samples': [], 'counts': {}, 'hist': {}}
    for job in jobs:
        kind, rseed, policy = job[:3]
        line_level = len(job) > 3 and job[3]
        rng = random.Random(rseed)
        prog = random_program(rng, kind)
        run = portrun.run_program(kind, [], prog, rng=rng, policy=policy, line_level=line_level)
        res['n'] += 1
        res['counts']['random_' + kind] = res['counts'].get('random_' + kind, 0) + 1
        case = {'kind': kind, 'rseed': rseed, 'policy': policy, 'random': True, 'line_level': line_level}
        if line_level:
            res['counts']['line_level_runs'] = res['counts'].get('line_level_runs', 0) + 1
        dv = portrun.direct_verdict(run)
        if dv and len(res['viol']) < 10:
            res['viol'].append(('ports/%s/%s' % (dv[0], kind), case, dv[1] + ' (seeded %s schedule%s)' % (
                policy, ', statement granularity' if line_level else '')))
        hk = history_key(run['events'])
        if hk not in res['hist']:
            res['hist'][hk] = case
    return res


# ---- systematic exploration of the real code (bounded preemptions) -----------

def _S(m, lane=1):
    return {'op': 'send', 'm': m, 'lane': lane}


_P = {'op': 'poll', 'm': 0, 'lane': 0}
_R = {'op': 'recv', 'm': 0, 'lane': 0}
_I = {'op': 'iterp', 'm': 0, 'lane': 0}
EXPLORE = {
    # three messages from one sender through a MultiPort, two receivers
    'multi3': ('multi', [[_S(1), _S(2), _S(3)], [_P], [_P, _P]]),
    'multi2l': ('multi', [[_S(1), _S(2)], [_S(3, 2)], [_I], [_P]]),
    'multirecv': ('multi', [[_S(1), _S(2)], [_R], [_R]]),
    'ioport2': ('ioport', [[_S(1), _S(2)], [_P, _P], [_P]]),
    'pqueue2': ('pqueue', [[_S(1), _S(2)], [_P], [_P, _P]]),
    'device2': ('device', [[_S(1), _S(2)], [_S(3)], [_P, _P], [_I]]),
    'userloop2': ('userloop', [[_S(1), _S(2)], [_P], [_R]]),
    'echorecv': ('echo', [[_S(1)], [_R]]),
    'sharedbuf2': ('sharedbuf', [[_S(1), _S(2)], [_P, _P], [_S(3)]]),
    'iorecv': ('ioport', [[_S(1)], [_R]]),
}
NSHARD = 16


def explore_worker(jobs):
    res = {'n': 0, 'viol': [], 'samples': [], 'counts': {}, 'hist': {}}
    for name, k, shard, limit in jobs:
        kind, prog = EXPLORE[name]

        def judge(run, sched):
            case = {'kind': kind, 'initq': [], 'prog': prog, 'schedule': sched, 'scenario': name,
                    'explored': True}
            dv = portrun.direct_verdict(run)
            if dv and len(res['viol']) < 10:
                res['viol'].append(('ports/%s/%s' % (dv[0], kind), case,
                                    dv[1] + ' (explored schedule of %s)' % name))
            hk = history_key(run['events'])
            if hk not in res['hist']:
                res['hist'][hk] = case
        n, complete = portrun.explore(kind, [], prog, k, limit=limit, judge=judge, shard=(shard, NSHARD))
        res['n'] += n
        res['counts']['explored_' + name] = n
        if not complete:
            res['counts']['explorations_cut_at_limit'] = 1
    return res


class Collect(core.ParallelReplay):
    def __init__(self, *a, **k):
        core.ParallelReplay.__init__(self, *a, **k)
        self.hist = {}

    def _collect(self, ar):
        r = ar.get(timeout=3600)
        self.hist.update(r.pop('hist', {}))
        self.n += r.get('n', 0)
        self.ctx.replayed += r.get('n', 0)
        for key, case, msg in r.get('viol', []):
            self.ctx.violation(key, case, msg)
        for k, v in r.get('counts', {}).items():
            self.ctx.count(k, v)
        for s in r.get('samples', []):
            self.ctx.sample(s)
        for o in r.get('obs', []):
            if len(self.ctx.observations) < 10:
                self.ctx.observations.append(o)


def validate_histories(ctx, hist, label):
    keys = list(hist)
    ctx.note('distinct_histories', ctx.notes.get('distinct_histories', 0) + len(keys))
    for part in core.chunks(keys, 3000):
        traces = [json.loads(k) for k in part]
        strong = core.validate_batch(ctx, 'PortTrace', traces, label + ' (atomic-queue reading)', timeout=1800,
                                     extra_cfg='CONSTANT WeakPoll = FALSE\n')
        if strong:
            # a poll() answered None although a message had been sent: allowed by the
            # property, recorded as an observation
            ctx.count('histories_only_explained_with_weak_poll', len(strong))
            if len(ctx.observations) < 5:
                ctx.observations.append({'weak_poll_history': traces[strong[0][0]][:12]})
            traces = [traces[i] for i, _ in strong]
            part = [part[i] for i, _ in strong]
        else:
            continue
        for idx, furthest in core.validate_batch(ctx, 'PortTrace', traces, label + ' (weak poll)', timeout=1800,
                                                 extra_cfg='CONSTANT WeakPoll = TRUE\n'):
            case = hist[part[idx]]
            ev = traces[idx]
            ctx.violation('ports/not-linearizable/%s' % case['kind'], case,
                          'history not explained by an atomic FIFO port (stuck at event %d: %r)' % (
                              furthest, ev[min(furthest, len(ev)) - 1]))


def replay(case):
    if case.get('random'):
        rng = random.Random(case['rseed'])
        prog = random_program(rng, case['kind'])
        run = portrun.run_program(case['kind'], [], prog, rng=rng, policy=case['policy'],
                                  line_level=case.get('line_level', False))
    elif case.get('explored'):
        run = portrun.run_program(case['kind'], case['initq'], case['prog'], schedule=case['schedule'],
                                  rng=random.Random(0), policy='stay', record=True)
    else:
        run = portrun.run_program(case['kind'], case['initq'], case['prog'], schedule=case['schedule'])
    dv = portrun.direct_verdict(run)
    if dv:
        return '%s: %s' % dv
    ctx = core.Ctx('C10', 'quick', 0)
    rej = core.validate_batch(ctx, 'PortTrace', [run['events']], extra_cfg='CONSTANT WeakPoll = TRUE\n')
    if rej:
        return 'history not linearizable (event %d): %r' % (rej[0][1], run['events'])
    return None


def run(ctx):
    thorough = ctx.tier == 'thorough'
    scen = SCENARIOS_THOROUGH if thorough else SCENARIOS_QUICK
    col = Collect(ctx, worker, batch_size=150)
    import threading
    from concurrent.futures import ThreadPoolExecutor
    plock = threading.Lock()

    def push(line):
        with plock:
            col.push(line)
    jobs = [(name, k, True) for name, k in scen]
    # schedules of the original (test-then-pop) granularity as extra drivers
    jobs += [(name, min(k, 3), False) for name, k in scen[:8]]

    def one(job):
        name, k, atomic = job
        return job, core.run_tlc('PortImpl', cfg(name, k, atomic=atomic, check=atomic), on_emit=push,
                                 raw_ints=True, timeout=3000, heap='8g',
                                 workers=4 if thorough else 2)
    with ThreadPoolExecutor(4 if thorough else 8) as ex:
        for (name, k, atomic), res in ex.map(one, jobs):
            ctx.add_tlc(res, 'PortImpl %s K=%d%s' % (name, k, '' if atomic else ' (test-then-pop schedules)'))
    col.finish()
    ctx.note('schedules_replayed', col.n)
    validate_histories(ctx, col.hist, 'PortTrace: histories of replayed schedules')
    # seeded random / PCT schedules, larger programs, all kinds incl. MultiPort
    rng = random.Random(ctx.seed * 31 + 10)
    n = 6000 if thorough else 500
    jobs = [(rng.choice(['echo', 'device', 'ioport', 'multi', 'pqueue', 'userloop', 'sharedbuf']), rng.randrange(1 << 30),
             rng.choice(['random', 'pct'])) for _ in range(n)]
    # the same kind of programs with a thread switch possible at EVERY statement of
    # ports.py / parser.py / tokenizer.py / _parser_queue.py (sys.settrace)
    nl = 2500 if thorough else 160
    jobs += [(rng.choice(['echo', 'device', 'ioport', 'multi', 'pqueue', 'userloop', 'sharedbuf']), rng.randrange(1 << 30),
              rng.choice(['random', 'pct']), True) for _ in range(nl)]
    col2 = Collect(ctx, random_worker, batch_size=1)
    col2.map(list(core.chunks(jobs, 50)))
    validate_histories(ctx, col2.hist, 'PortTrace: histories of seeded random/PCT schedules')
    # every schedule with at most K preemptions of a few programs on the real ports,
    # explored by re-execution (the implementation itself is the transition system)
    plan = ([('multi3', 3), ('multi2l', 2), ('multirecv', 2), ('ioport2', 3), ('pqueue2', 3), ('device2', 2), ('userloop2', 3), ('echorecv', 4), ('iorecv', 3), ('sharedbuf2', 3)]
            if thorough else
            [('multi3', 2), ('multi2l', 1), ('multirecv', 1), ('ioport2', 2), ('pqueue2', 2), ('device2', 1), ('userloop2', 2), ('echorecv', 3), ('iorecv', 2), ('sharedbuf2', 2)])
    col3 = Collect(ctx, explore_worker, batch_size=1)
    col3.map([[(name, k, sh, 60000 if thorough else 3000)] for name, k in plan for sh in range(NSHARD)])
    ctx.note('explored_schedules', col3.n)
    validate_histories(ctx, col3.hist, 'PortTrace: histories of explored schedules (bounded preemptions)')
    ctx.constants = {'scenarios': scen, 'random_programs': n, 'statement_granularity_programs': nl,
                     'explored': plan}
    ctx.exhaustive = True
    ctx.assumptions += [
        'the TLC-enumerated schedules switch threads at shared-state accesses (lock, deque, wire, sleep); statement-granularity switching (sys.settrace) is sampled with seeded schedules, not enumerated',
        'the lock-protected device port is a double written as docs/ports/custom.rst describes (byte-wise loopback wire)',
        'verdicts are taken at property level (PortCore); divergence from PortImpl is only counted',
    ]
