"""C02 - from_bytes accepts exactly the well-formed single-message encodings.

G: TLC enumerates every string up to a length over the byte-class alphabet
   (plus the non-byte items -1, 256, 1000="not an integer"), checks
   DecodeSound (accepted strings are exactly images of Encode; the converse
   direction is RoundTrip of C01) and emits (verdict, string, message) rows;
   each is fed to Message.from_bytes / from_hex.
Thorough: the complete 256-ary space of lengths 0..3 (16.8 M strings) is
   enumerated against the accepted set {Encode(m)} emitted by TLC for the full
   C01 domain.
"""
import random

from .. import core
from ..midi import TYPES, attrs_of

NONINT = [1.5, '1', None, [1], 1 + 0j, b'\x01']

ALPHA = 'ClassAlphabet'
ALPHA7 = 'LongAlphabet'


def cfg(alpha, lo, hi):
    return """SPECIFICATION Spec
CONSTANTS
 Alphabet <- %s
 MinLen = %d
 MaxLen = %d
INVARIANT SoundInv
INVARIANT EmitInv
CHECK_DEADLOCK FALSE
""" % (alpha, lo, hi)


def concretize(bs, salt):
    """Model items -> concrete Python items. 1000 -> a non-integer object,
    -2 in the model stands for a negative item (cfg files cannot hold -1)."""
    out = []
    nonint = False
    for i, b in enumerate(bs):
        if b == 1000:
            out.append(NONINT[(salt + i) % len(NONINT)])
            nonint = True
        else:
            out.append(b)
    return out, nonint


def judge(items, accept, exp_type, exp_v, nonint, also_hex=True):
    """Feed one input to the real from_bytes. Returns None or (which, detail)."""
    import mido
    Message = mido.Message
    variants = [('list', list(items), None)]
    allbytes = all(type(x) is int and 0 <= x <= 255 for x in items)
    if allbytes:
        variants.append(('bytes', bytes(items), None))
        variants.append(('tuple', tuple(items), None))
    # a time passed along (by position or keyword, also 1 and True) never changes the verdict
    variants.append(('list+time', list(items), [1, True, 1.0, 0, 2][len(items) % 5]))
    for how, arg, tpos in variants:
        try:
            if tpos is None:
                m = Message.from_bytes(arg)
            elif len(items) % 2:
                m = Message.from_bytes(arg, tpos)
            else:
                m = Message.from_bytes(arg, time=tpos)
        except ValueError:
            if accept:
                return 'rejects-valid/' + how, 'ValueError for a well-formed encoding'
            continue
        except TypeError as e:
            if accept or not nonint:
                return 'typeerror/' + how, 'TypeError %s' % e
            continue
        except Exception as e:
            return 'wrong-exception/%s' % type(e).__name__, '%r from from_bytes(%r)' % (e, arg)
        if not accept:
            return 'accepts-invalid', 'returned %s for input %r' % (core.srepr(m), arg)
        try:
            back = list(m.bytes())
        except Exception as e:
            return 'bytes-raises', repr(e)
        if back != list(items):
            return 'not-reproduced', 'bytes()=%r input=%r' % (back, items)
        exp = attrs_of(exp_type, exp_v)
        got = {k: (tuple(v) if k == 'data' else v) for k, v in vars(m).items()
               if k not in ('type', 'time')}
        if m.type != exp_type or got != exp or m.time != (tpos or 0) or (tpos is not None and m.time is not tpos):
            return 'wrong-message', 'decoded %s expected %s %r (time given: %r)' % (core.srepr(m), exp_type, exp, tpos)
    if allbytes and also_hex:
        hx = ' '.join('%02x' % x for x in items)
        try:
            m = Message.from_hex(hx)
        except ValueError:
            if accept:
                return 'rejects-valid/hex', 'from_hex ValueError'
        except Exception as e:
            return 'wrong-exception/hex/%s' % type(e).__name__, repr(e)
        else:
            if not accept:
                return 'accepts-invalid/hex', 'from_hex returned %s' % (core.srepr(m),)
            if list(m.bytes()) != list(items):
                return 'not-reproduced/hex', core.srepr(m)
    return None


_RT = None


def rtmidi_input():
    """An Input port of mido.backends.rtmidi on top of a stand-in rtmidi module
    (one per process)."""
    global _RT
    if _RT is None:
        from .. import fakertmidi
        backend, saved = fakertmidi.install()
        _RT = backend.Input('Fake Port 0')
    return _RT


def judge_device(items, accept, exp_type, exp_v):
    """The same verdict at the device entry point: bytes delivered by the
    rtmidi callback become exactly one message, or are dropped silently."""
    inp = rtmidi_input()
    try:
        inp._rt.deliver(items)
    except Exception as e:
        return 'device-callback-raises/%s' % type(e).__name__, 'callback raised %r for %r' % (e, items)
    got = list(inp.iter_pending())
    if not accept:
        if got:
            return 'device-accepts-invalid', 'device data %r was delivered as %s' % (items, core.srepr(got))
        return None
    exp = attrs_of(exp_type, exp_v)
    if len(got) != 1 or got[0].type != exp_type or list(got[0].bytes()) != list(items):
        return 'device-rejects-valid', 'device data %r was delivered as %s' % (items, core.srepr(got))
    return None


def check_buffer_carriers():
    """The items of the sequence are what counts, whatever container carries them: arrays of
    signed or wide integers are sequences of integers like any list."""
    import array
    import mido
    out = []
    cases = [(array.array('b', [-112, 60, 64]), None), (array.array('b', [-8]), None),
             (memoryview(array.array('b', [-80, 7, 100])), None), (array.array('H', [0x3cc0]), None),
             (array.array('h', [-2064]), None), (array.array('i', [0x90, 60, 300]), None),
             (array.array('q', [0xf0, 1, 2, 0xf7 + 256]), None), (array.array('H', [0x90, 60]), None),
             (array.array('H', [0x90, 60, 64]), [0x90, 60, 64]), (array.array('B', [0xc1, 5]), [0xc1, 5]),
             (array.array('i', [0xf8]), [0xf8]), (array.array('q', [0xf0, 1, 2, 0xf7]), [0xf0, 1, 2, 0xf7]),
             (array.array('l', [0xe3, 0, 64]), [0xe3, 0, 64]), (range(0xf8, 0xf9), [0xf8]),
             (range(0x90, 0x93), None)]
    for carrier, exp in cases:
        label = '%s%s' % (type(carrier).__name__, (' ' + carrier.typecode) if hasattr(carrier, 'typecode') else '')
        items = list(carrier.tolist() if hasattr(carrier, 'tolist') else []) or exp
        try:
            m = mido.Message.from_bytes(carrier)
        except (ValueError, TypeError) as e:
            if exp is not None:
                out.append(('rejects-valid/carrier', {'kind': 'carriers'}, 'from_bytes(%s of %r) raised %r' % (label, items, e)))
            continue
        except Exception as e:
            out.append(('wrong-exception/%s/carrier' % type(e).__name__, {'kind': 'carriers'},
                        'from_bytes(%s of %r) raised %r' % (label, items, e)))
            continue
        if exp is None or list(m.bytes()) != exp:
            out.append(('accepts-invalid/carrier', {'kind': 'carriers'},
                        'from_bytes(%s holding the integers %r) returned %s' % (label, items, core.srepr(m))))
    return out[:3]


def check_hex_texts():
    """from_hex reads pairs of hex digits (optionally separated by white space or the given
    separator): the reverse of hex(), nothing more lenient and nothing stricter."""
    import mido
    out = []
    good = [('904060', [0x90, 0x40, 0x60]), ('90 40 60', [0x90, 0x40, 0x60]), ('9040 60', [0x90, 0x40, 0x60]),
            ('f8', [0xf8]), ('F0\t01\n02 f7', [0xf0, 1, 2, 0xf7]), (' c1 05 ', [0xc1, 5]), ('C105', [0xc1, 5]),
            ('F0F7', [0xf0, 0xf7])]
    bad = ['90 4 6', '090 040 060', '0x90 0x40 0x60', '9_0 40 60', '+90 40 60', '90 40 6', '9 04060', '90 40 60 7',
           '\uff19\uff10 40 60', '90 40 -1', '90 4g 60', '', '  ', '0x90', '90 40 60h', '1 90 40 60']
    for text, exp in good:
        try:
            m = mido.Message.from_hex(text)
        except Exception as e:
            out.append(('rejects-valid/hex-text', {'kind': 'hextexts'}, 'from_hex(%r) raised %r' % (text, e)))
            continue
        if list(m.bytes()) != exp:
            out.append(('wrong-message/hex-text', {'kind': 'hextexts'}, 'from_hex(%r) = %s' % (text, core.srepr(m))))
    for text in bad:
        try:
            m = mido.Message.from_hex(text)
        except ValueError:
            continue
        except Exception as e:
            out.append(('wrong-exception/%s/hex-text' % type(e).__name__, {'kind': 'hextexts'}, 'from_hex(%r) raised %r' % (text, e)))
            continue
        out.append(('accepts-invalid/hex-text', {'kind': 'hextexts'}, 'from_hex(%r) returned %s' % (text, core.srepr(m))))
    for sep in (':', '', ' - ', '.', '|', '+', '(', 'x'):
        for bs in ([0x90, 0x40, 0x60], [0xf8], [0xf0, 1, 0xf7]):
            text = sep.join('%02X' % b for b in bs)
            try:
                m = mido.Message.from_hex(text, sep=sep or None)
                if list(m.bytes()) != bs:
                    out.append(('wrong-message/hex-sep', {'kind': 'hextexts'}, 'from_hex(%r, sep=%r) = %s' % (text, sep, core.srepr(m))))
            except Exception as e:
                out.append(('rejects-valid/hex-sep', {'kind': 'hextexts'}, 'from_hex(%r, sep=%r) raised %r' % (text, sep, e)))
    return out[:3]


def check_device_sequences():
    """Each delivery of the device is judged on its own: what an earlier delivery
    left unfinished must not turn a later malformed one into a message."""
    import mido
    inp = rtmidi_input()
    out = []
    opens = [[0xf0], [0xf0, 1, 2], [0x90, 1], [0xf2, 5], [0xf0, 1, 0xf8]]
    conts = [[0xf7], [3, 0xf7], [5], [0x41, 0x42], [2, 0xf7, 0x90], [1]]
    valid = [[0xf8], [0x90, 1, 2], [0xf0, 7, 0xf7]]
    for a in opens:
        for mid_ in ([], [0xf8]):
            for b in conts:
                seq = [a] + ([mid_] if mid_ else []) + [b] + [valid[(len(a) + len(b)) % 3]]
                got = []
                for items in seq:
                    try:
                        inp._rt.deliver(items)
                    except Exception as e:
                        out.append(('device-callback-raises/%s' % type(e).__name__, {'kind': 'devseq'},
                                    'callback raised %r for %r in %r' % (e, items, seq)))
                        break
                    got.append([list(m.bytes()) for m in inp.iter_pending()])
                else:
                    exp = []
                    for items in seq:
                        try:
                            exp.append([list(mido.Message.from_bytes(items).bytes())])
                        except ValueError:
                            exp.append([])
                    if got != exp:
                        out.append(('device-sequence', {'kind': 'devseq'},
                                    'deliveries %r produced %r, each judged on its own gives %r' % (seq, got, exp)))
    return out[:3]


def classify(bs):
    if not bs:
        return 'empty'
    s = bs[0]
    if not (isinstance(s, int) and 0 <= s <= 255):
        return 'nonbyte-status'
    if s < 0x80:
        return 'data-first'
    if s < 0xf0:
        return 'st%X0' % (s >> 4)
    return 'st%02X' % s


def worker(lines):
    out = {'n': 0, 'viol': [], 'samples': [], 'counts': {}}
    for line in lines:
        ints = core.ints_of(line)
        accept, n = ints[0], ints[1]
        bs = ints[2:2 + n]
        exp_type = exp_v = None
        if accept:
            tidx, nv = ints[2 + n], ints[3 + n]
            exp_type, exp_v = TYPES[tidx - 1], ints[4 + n:4 + n + nv]
        items, nonint = concretize(bs, sum(bs))
        r = judge(items, bool(accept), exp_type, exp_v, nonint)
        if r is None and all(type(x) is int and 0 <= x <= 255 for x in items):
            r = judge_device(items, bool(accept), exp_type, exp_v)
        out['n'] += 1
        out['counts']['accepted' if accept else 'rejected'] = \
            out['counts'].get('accepted' if accept else 'rejected', 0) + 1
        if r and len(out['viol']) < 30:
            key = 'from_bytes/%s/%s/len%d' % (r[0], classify(bs), len(bs))
            out['viol'].append((key, {'bs': bs, 'accept': accept, 'type': exp_type, 'v': exp_v}, r[1]))
    if lines:
        out['samples'].append({'row': core.ints_of(lines[len(lines) // 2])})
    return out


def replay(case):
    if case.get('kind') == 'hextexts':
        v = check_hex_texts()
        return v and v[0][2]
    if case.get('kind') == 'carriers':
        v = check_buffer_carriers()
        return v and v[0][2]
    if case.get('kind') == 'devseq':
        v = check_device_sequences()
        return v and v[0][2]
    if case.get('kind') == 'full256':
        items = case['bs']
        import mido
        try:
            m = mido.Message.from_bytes(items)
            ok = True
        except ValueError:
            ok = False
        except Exception as e:
            return 'wrong exception %r' % (e,)
        if ok != case['accept']:
            return 'from_bytes(%r) %s but specification says %s' % (
                items, 'accepted' if ok else 'rejected', 'accept' if case['accept'] else 'reject')
        return None
    items, nonint = concretize(case['bs'], sum(case['bs']))
    r = judge(items, bool(case['accept']), case['type'], case['v'], nonint)
    return r and '%s: %s' % r


# ---- thorough: complete 256-ary space, lengths 0..3 -------------------------

_BITMAP = None


def _idx(bs):
    n = len(bs)
    if n == 1:
        return bs[0]
    if n == 2:
        return 256 + bs[0] * 256 + bs[1]
    return 256 + 65536 + (bs[0] << 16) + (bs[1] << 8) + bs[2]


def full_worker(first):
    """All strings of length 1..3 starting with byte `first`."""
    import mido
    fb = mido.Message.from_bytes
    bm = _BITMAP
    out = {'n': 0, 'viol': [], 'counts': {'accepted': 0, 'rejected': 0}, 'samples': []}

    def one(bs):
        exp = bm[_idx(bs)]
        try:
            m = fb(bs)
            got = 1
        except ValueError:
            got = 0
        except Exception as e:
            got = 2
            err = e
        out['n'] += 1
        if got == 1 and exp and list(m.bytes()) != list(bs):
            got = 3
        if got != exp:
            if len(out['viol']) < 10:
                what = {0: 'rejects-valid', 1: 'accepts-invalid', 2: 'wrong-exception', 3: 'not-reproduced'}[got]
                if got == 2:
                    what += '/' + type(err).__name__
                out['viol'].append(('from_bytes/%s/%s/len%d' % (what, classify(list(bs)), len(bs)),
                                    {'kind': 'full256', 'bs': list(bs), 'accept': bool(exp)},
                                    'from_bytes(%r): %s' % (list(bs), what)))
        elif exp:
            out['counts']['accepted'] += 1
        else:
            out['counts']['rejected'] += 1
    one(bytes([first]))
    for b in range(256):
        one(bytes([first, b]))
        for c in range(256):
            one(bytes([first, b, c]))
    return out


def run(ctx):
    thorough = ctx.tier == 'thorough'
    pr = core.ParallelReplay(ctx, worker, batch_size=4000)
    res = core.run_tlc('WireStrings', cfg(ALPHA, 0, 4 if thorough else 3),
                       on_emit=pr.push, raw_ints=True, timeout=3000)
    n1 = pr.finish()
    ctx.add_tlc(res, 'WireStrings 25-symbol alphabet')
    if n1 != res.distinct:
        raise core.Machinery('replayed %d rows, TLC found %d states' % (n1, res.distinct))
    # longer strings over the 7-symbol alphabet
    pr = core.ParallelReplay(ctx, worker, batch_size=4000)
    res = core.run_tlc('WireStrings', cfg(ALPHA7, 5, 6 if thorough else 5),
                       on_emit=pr.push, raw_ints=True, timeout=3000)
    pr.finish()
    ctx.add_tlc(res, 'WireStrings 7-symbol alphabet, long')
    ctx.constants = {'alphabet': ALPHA, 'maxlen': 4 if thorough else 3, 'alphabet7': ALPHA7,
                     'len7': [5, 6 if thorough else 5]}
    # negative items, very large items, bool-like, sysex with one offending byte
    rng = random.Random(ctx.seed + 2)
    extra = 0
    for ln in list(range(0, 66)):
        payload = [rng.randrange(128) for _ in range(ln)]
        good = [0xf0] + payload + [0xf7]
        cases = [(good, True)]
        for pos in range(1, len(good) - 1):
            for bad in (0x80, 0xf7, 0xff, 0xf0, 200):
                b = list(good)
                b[pos] = bad
                cases.append((b, False))
        cases.append((good[:-1], False))
        cases.append((good + [0], False))
        cases.append((good + [0xf7], False))
        for items, acc in cases:
            r = judge(items, acc, 'sysex', payload, False, also_hex=(ln < 8))
            extra += 1
            if r:
                ctx.violation('from_bytes/%s/sysex-offending' % r[0],
                              {'bs': items, 'accept': int(acc), 'type': 'sysex', 'v': payload}, r[1])
    for items in ([-1], [0x90, -1, 0], [0x90, 0, -1], [-0x70, 0, 0], [0x90, 1 << 40, 0],
                  [0xf0, -1, 0xf7], [0xf0, 1, -9], [-1, -1, -1], [0x190, 0, 0], [0x90, 0x180, 0]):
        r = judge(items, False, None, None, False)
        extra += 1
        if r:
            ctx.violation('from_bytes/%s/negative-or-huge' % r[0],
                          {'bs': items, 'accept': 0, 'type': None, 'v': None}, r[1])
    ctx.replayed += extra
    ctx.note('driver_extra_cases', extra)

    if thorough:
        # accepted set from the specification (full C01 domain), as a bitmap
        global _BITMAP
        bm = bytearray(256 + 65536 + (1 << 24))
        from . import c01

        def on_emit(line):
            type_, v, bs = c01.parse_row(core.ints_of(line))
            if len(bs) <= 3:
                bm[_idx(bs)] = 1
        nocfg = c01.THOROUGH_CFG.replace('SysexMaxLen = 4', 'SysexMaxLen = 1').replace(
            'SysexAlpha = {0,1,127}', 'SysexAlpha <- FullData')
        res = core.run_tlc('WireMsgs', nocfg, on_emit=on_emit, raw_ints=True, timeout=3000)
        ctx.add_tlc(res, 'WireMsgs accepted set {Encode(m)}')
        _BITMAP = bm
        ctx.note('accepted_set_size_len<=3', sum(bm))
        pr = core.ParallelReplay(ctx, full_worker, batch_size=1)
        n = pr.map(list(range(256)))
        # the empty string
        r = judge([], False, None, None, False)
        if r:
            ctx.violation('from_bytes/%s/empty' % r[0], {'bs': [], 'accept': 0, 'type': None, 'v': None}, r[1])
        ctx.note('full_256ary_strings', n + 1)
        ctx.exhaustive = True
    ctx.assumptions += [
        'converse direction (every Encode(m) is accepted) rests on RoundTrip checked in C01',
        'non-integer items are represented by the objects %r' % (NONINT,),
    ]
    for key, case, msg in check_hex_texts():
        ctx.violation('from_bytes/' + key, case, msg)
    ctx.replayed += 48
    for key, case, msg in check_buffer_carriers():
        ctx.violation('from_bytes/' + key, case, msg)
    ctx.replayed += 16
    for key, case, msg in check_device_sequences():
        ctx.violation('from_bytes/' + key, case, msg)
    ctx.replayed += 60
    # re-entrancy: two threads inside these functions at once, a switch possible before every statement
    from .. import conc
    conc.run_scenarios(ctx, 'C02', 2 if ctx.tier == 'thorough' else 1)
    conc.first_use(ctx, 'C02', 120 if ctx.tier == 'thorough' else 40)
