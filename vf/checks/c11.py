"""C11 - port lifecycle: idempotent close, drain then stop, blocking calls
terminate.

G: PortLife / PortLifeMulti: TLC enumerates every device script up to
   MaxScript items x every sequence of MaxCalls public calls for each port
   kind, checks CloseOnce, SendAfterCloseRaises, DrainBeforeStop,
   IterEndsCleanly, NonBlockingNeverWaits, ReturnsWhenDeliverable on the
   specification and emits each history with the expected result, number of
   sleep() calls and device polls of every call.  Each history is replayed on
   the real port classes (device doubles subclassing BaseInput / BaseOutput /
   BaseIOPort, EchoPort, IOPort, MultiPort) with mido.ports.sleep replaced by
   a counting hook with a budget (a call that never returns is observed as a
   Hang instead of blocking the check).
"""
import json

from .. import core, tlaval

RESET_CC = [(ch, cc) for ch in range(16) for cc in (123, 121)]
PANIC_CC = [(ch, 120) for ch in range(16)]


class Hang(Exception):
    pass


def cfg(kind, autoreset, maxscript, maxcalls, module='PortLife'):
    return """SPECIFICATION Spec
CONSTANTS
 Kind = "%s"
 Autoreset = %s
 MaxScript = %d
 MaxCalls = %d
INVARIANT CloseOnce
INVARIANT SendAfterCloseRaises
INVARIANT DrainBeforeStop
INVARIANT IterEndsCleanly
INVARIANT NonBlockingNeverWaits
INVARIANT FailedWriteIsNoOp
INVARIANT ReturnsWhenDeliverable
INVARIANT NoTrafficAfterClose
INVARIANT Emit
CHECK_DEADLOCK FALSE
""" % (kind, 'TRUE' if autoreset else 'FALSE', maxscript, maxcalls)


def arrival(mid):
    import mido
    return mido.Message('note_on', note=mid % 128, velocity=1 + (mid // 128))


def arrival_id(msg):
    if msg.type != 'note_on':
        return 9000
    return msg.note + 128 * (msg.velocity - 1)


def user_msg(m):
    import mido
    return mido.Message('control_change', channel=m % 16, control=7, value=m % 128)


class World:
    """Shared recording state of the doubles of one replay."""

    def __init__(self, script):
        self.script = list(script)
        self.log = []          # (who, what, payload)
        self.polls = 0
        self.sleeps = 0
        self.nextid = 1


def make_doubles():
    from mido.ports import BaseInput, BaseIOPort, BaseOutput

    class Mixin:
        def _open(self, world=None, who='dev', **kw):
            self.world = world
            self.who = who

        def _receive(self, block=True):
            w = self.world
            w.polls += 1
            item = w.script.pop(0) if w.script else 'nothing'
            for _ in range({'arrive': 1, 'arrive_close': 1, 'arrive3': 3, 'arrive3_close': 3}.get(item, 0)):
                self._parser.feed(arrival(w.nextid).bytes())
                w.nextid += 1
            if item in ('close', 'arrive_close', 'arrive3_close'):
                self.close()

        def _send(self, msg):
            if getattr(self.world, 'fail_send', False):
                self.world.fail_send = False
                raise OSError('device write failed')
            self.world.log.append((self.who, 'send', msg))

        def _close(self):
            self.world.log.append((self.who, 'close', None))

    class InD(Mixin, BaseInput):
        pass

    class OutD(Mixin, BaseOutput):
        pass

    class IOD(Mixin, BaseIOPort):
        pass

    class OutSendD(Mixin, BaseOutput):
        # overrides send() instead of _send(), like mido.backends.rtmidi.Output
        _locking = False

        def send(self, msg):
            import mido
            if not isinstance(msg, mido.Message):
                raise TypeError('argument to send() must be a Message')
            if self.closed:
                raise ValueError('send() called on closed port')
            self.world.log.append((self.who, 'send', msg.copy()))

        def _send(self, msg):
            pass                    # the inherited no-op: this class does its work in send()

    make_doubles.OutSendD = OutSendD
    return InD, OutD, IOD


def abstract_log(world, kind, sent_objs):
    """Real device log -> the abstract tokens of PortLife.log.
    Returns (tokens, problem-or-None)."""
    out = []
    i = 0
    log = world.log
    sent = list(sent_objs)
    while i < len(log):
        who, what, msg = log[i]
        pre = {'in': 'in_', 'out': 'out_'}.get(who, '') if kind == 'ioport' else ''
        if what == 'close':
            out.append(pre + 'close')
            i += 1
            continue
        # a run of 32 reset messages?
        run = log[i:i + 32]
        if (len(run) == 32 and all(x[1] == 'send' for x in run) and
                [(x[2].channel, x[2].control) if x[2].type == 'control_change' else None
                 for x in run] == RESET_CC and
                all(x[2].value == 0 for x in run) and
                not (sent and run[0][2] == sent[0][1])):
            out.append(pre + 'reset')
            i += 32
            continue
        run = log[i:i + 16]
        if (len(run) == 16 and all(x[1] == 'send' for x in run) and
                [(x[2].channel, x[2].control) if x[2].type == 'control_change' else None
                 for x in run] == PANIC_CC and all(x[2].value == 0 for x in run)):
            out.append(pre + 'panic')
            i += 16
            continue
        if not sent:
            return out, 'device saw an unexpected message %r' % (msg,)
        m, orig = sent.pop(0)
        if msg != orig:
            return out, 'device saw %r, sent %r' % (msg, orig)
        if msg is orig:
            return out, 'device received the very object passed to send(), not a copy'
        out.append('send')
        i += 1
    if sent:
        return out, 'sent messages never reached the device'
    return out, None


def replay_history(kind, autoreset, script, hist, fclosed, fq, flog):
    """None or (which, detail)."""
    import mido.ports as mp
    world = World(script)
    saved_sleep = mp.sleep

    def sleep_hook():
        world.sleeps += 1
        if world.sleeps > 60:
            raise Hang()
    mp.sleep = sleep_hook
    try:
        InD, OutD, IOD = make_doubles()
        keep = []
        if kind == 'io':
            port = IOD('dev', world=world, who='dev', autoreset=autoreset)
        elif kind == 'in':
            port = InD('dev', world=world, who='dev')
        elif kind == 'out':
            port = OutD('dev', world=world, who='dev', autoreset=autoreset)
        elif kind == 'outs':
            port = make_doubles.OutSendD('dev', world=world, who='dev', autoreset=autoreset)
        elif kind == 'echo':
            port = mp.EchoPort()
        elif kind == 'ioport':
            i = InD('i', world=world, who='in')
            o = OutD('o', world=world, who='out', autoreset=autoreset)
            keep += [i, o]
            port = mp.IOPort(i, o)
        sent = []
        for n, h in enumerate(hist):
            op = h['op']
            exp = h['r']
            s0, p0 = world.sleeps, world.polls
            got_k, got_v = None, []
            try:
                if op == 'send':
                    m = exp['v'][0] if exp['v'] else 100 + n
                    msg = user_msg(m)
                    port.send(msg)
                    got_k, got_v = 'ok', [m]
                    if kind != 'echo':
                        sent.append((m, user_msg(m)))
                    msg.value = (msg.value + 1) % 128      # caller modifies it afterwards
                elif op == 'send_fail':
                    world.fail_send = True
                    try:
                        port.send(user_msg(100 + n))
                        got_k = 'ok'
                    finally:
                        world.fail_send = False
                elif op == 'receive':
                    r = port.receive()
                    got_k, got_v = ('none', []) if r is None else ('msg', [ident(r, kind)])
                elif op == 'poll':
                    r = port.poll()
                    got_k, got_v = ('none', []) if r is None else ('msg', [ident(r, kind)])
                elif op == 'iterate':
                    got_k, got_v = 'list', [ident(r, kind) for r in port]
                elif op == 'iter_pending':
                    got_k, got_v = 'list', [ident(r, kind) for r in port.iter_pending()]
                elif op == 'iter_take':
                    got_k, got_v = 'list', []
                    for r in port:
                        got_v.append(ident(r, kind))
                        if len(got_v) == 2:
                            break              # the consumer leaves the loop
                elif op == 'close':
                    port.close()
                    got_k = 'ok'
                elif op == 'reset':
                    port.reset()
                    got_k = 'ok'
                elif op == 'panic':
                    port.panic()
                    got_k = 'ok'
                elif op == 'exit':
                    with port as p:
                        if p is not port:
                            return 'enter', 'step %d: __enter__ returned another object' % n
                    got_k = 'ok'
            except Hang:
                return 'hang/' + op, 'step %d: %s did not return within 60 sleeps (expected %r)' % (n, op, exp)
            except Exception as e:
                got_k, got_v = type(e).__name__, []
            ds, dp = world.sleeps - s0, world.polls - p0
            ek = exp['k']
            if ek == 'raise':
                ok = got_k in ('ValueError', 'OSError')
            else:
                ok = (got_k == ek and (got_v == exp['v'] or (op == 'send' and ek == 'ok')))
            if not ok:
                return ('result/%s/%s-instead-of-%s' % (op, got_k, ek),
                        'step %d: %s gave %s %r, expected %s %r' % (n, op, got_k, got_v, ek, exp['v']))
            if ds != h['sleeps']:
                return ('sleeps/%s' % op,
                        'step %d: %s slept %d times, expected %d' % (n, op, ds, h['sleeps']))
            if kind != 'echo' and dp != h['polls']:
                return ('polls/%s' % op,
                        'step %d: %s polled the device %d times, expected %d' % (n, op, dp, h['polls']))
        if bool(port.closed) != fclosed:
            return 'closed-flag', 'closed=%r expected %r' % (port.closed, fclosed)
        rq = [ident(m, kind) for m in list(port._messages)] if kind not in ('out', 'outs') else []
        if rq != fq:
            return 'final-queue', 'queue %r expected %r' % (rq, fq)
        if kind != 'echo':
            toks, prob = abstract_log(world, kind, sent)
            if prob:
                return 'device-log', prob
            if toks != flog:
                return 'device-log', 'device saw %r expected %r' % (toks, flog)
        return None
    finally:
        mp.sleep = saved_sleep


def ident(msg, kind):
    if kind == 'echo':
        # echo ports hand back the user messages
        if msg.type == 'control_change' and msg.control == 7:
            # recover m from (channel, value): m in 100.. small range
            for m in range(100, 100 + 64):
                if user_msg(m) == msg:
                    return m
        return 9001
    return arrival_id(msg)


def worker(lines):
    res = {'n': 0, 'viol': [], 'samples': [], 'counts': {}}
    for line in lines:
        row = tlaval.parse(json.loads(line))[1:]
        if row[0] == 'multi':
            from . import c11multi
            r = c11multi.replay_row(row)
            kind = 'multi'
            case = {'row': row}
        else:
            kind, autoreset, script, hist, fclosed, fq, flog = row
            r = replay_history(kind, autoreset, script, hist, fclosed, fq, flog)
            case = {'row': row}
        res['n'] += 1
        res['counts'][kind] = res['counts'].get(kind, 0) + 1
        if r and len(res['viol']) < 10:
            res['viol'].append(('lifecycle/%s/%s' % (r[0], kind), case,
                                '%s (calls %s, script %r)' % (r[1], [h['op'] for h in row[3]], row[2])))
    if lines:
        res['samples'].append({'kind': row[0], 'script': row[2],
                               'calls': [[h['op'], h['r']['k'], h['r']['v'], h['sleeps']] for h in row[3]]})
    return res


def replay(case):
    row = case['row']
    if row[0] == 'server_close':
        r, _ = check_server_close_while_receiving()
        return r and '%s: %s' % r
    if row[0] == 'close_unblocks':
        r = check_close_unblocks(*row[1:])
        return r and '%s: %s' % r
    if row[0] == 'close_explore':
        import random as _r
        from .. import portrun
        kind, name, sched = row[1:4]
        run = portrun.run_program(kind, [], CLOSE_PROGRAMS[name], schedule=sched, rng=_r.Random(0), policy='stay',
                                  record=True, budget=300, line_level=len(row) > 4 and row[4])
        r = judge_close(kind, CLOSE_PROGRAMS[name], run)
        return r and '%s: %s' % r
    if row[0] == 'ioport_half':
        v = check_ioport_half_closed()
        return v and '%s: %s' % v[0]
    if row[0] == 'multi_functions':
        v = check_multi_functions()
        return v and '%s: %s' % v[0]
    if row[0] == 'deadpeer':
        from . import c18
        v, _ = c18.check_send_to_dead_peer()
        return v and v[0][2]
    if row[0] == 'multiburst':
        from . import c18
        v = c18.check_multi_member_burst(row[1])
        return v and v[0][2]
    if row[0] == 'socket':
        from . import c18
        r = c18.replay_link(*row[1:])
        return r and '%s: %s' % r
    if row[0] == 'multi':
        from . import c11multi
        r = c11multi.replay_row(row)
    else:
        r = replay_history(*row)
    return r and '%s: %s' % r


def check_close_unblocks(kind, rseed, policy):
    """One thread waits in a blocking receive() on an idle port, another calls
    close(): close() must return and the receive must end (by raising)."""
    import random
    from .. import portrun
    prog = [[{'op': 'recv', 'm': 0, 'lane': 0}], [{'op': 'close', 'm': 0, 'lane': 0}]]
    run = portrun.run_program(kind, [], prog, rng=random.Random(rseed), policy=policy, budget=300)
    r1, r2 = run['results'].get(1), run['results'].get(2)
    if run['hung'] or r2 is None or r2[0]['k'] != 'ok':
        return ('close-blocked-by-waiting-receiver',
                'close() from another thread did not complete while a receive() was waiting (results %r, never finished: %r)' % (
                    run['results'], run['hung']))
    if r1 is None or r1[0]['k'] not in ('raise:OSError', 'raise:ValueError'):
        return 'receive-not-ended-by-close', 'the waiting receive() ended with %r' % (r1,)
    return None


# ---- close() racing with the other calls: every schedule with <= K preemptions ----

def _op(o, m=0):
    return {'op': o, 'm': m, 'lane': 1 if o == 'send' else 0}


CLOSE_PROGRAMS = {
    'idle-recv': [[_op('recv')], [_op('close')]],
    'send-recv': [[_op('send', 1)], [_op('recv')], [_op('close')]],
    'send2-recv2': [[_op('send', 1), _op('send', 2)], [_op('recv'), _op('recv')], [_op('close')]],
    'send-poll-close2': [[_op('send', 1)], [_op('poll'), _op('close')], [_op('close')]],
    'close-close': [[_op('close')], [_op('close')]],
    'send-poll-poll': [[_op('send', 1)], [_op('poll')], [_op('poll'), _op('close'), _op('poll')]],
    'send2-poll-close': [[_op('send', 1), _op('send', 2)], [_op('poll'), _op('close')]],
    'poll-poll': [[_op('poll')], [_op('poll')]],
    'poll-close': [[_op('poll')], [_op('close')]],
    'close-close-close': [[_op('close')], [_op('close'), _op('close')], [_op('close')]],
}
CLOSE_PLAN_QUICK = [('echo', 'idle-recv', 3), ('device', 'idle-recv', 3), ('ioport', 'idle-recv', 2), ('multi', 'idle-recv', 2),
                    ('echo', 'send-recv', 2), ('ioport', 'send-recv', 2), ('device', 'send-recv', 1),
                    ('echo', 'send2-recv2', 1), ('echo', 'send-poll-close2', 2),
                    # a thread switch possible before every statement of ports.py (sys.settrace)
                    ('multi', 'close-close', 1, True), ('echo', 'close-close', 1, True), ('device', 'close-close', 1, True),
                    ('ioport', 'close-close', 1, True),
                    # a device write that fails must not leave the port unusable for other threads
                    ('faultydev', 'send2-poll-close', 2), ('faultydev', 'send-poll-close2', 1),
                    # two consumers and one message on the lock-free wrapper, then a poll after close
                    ('ioport', 'send-poll-poll', 2), ('echo', 'send-poll-poll', 1),
                    # a PortServer with one connection waiting: two polls at once, a poll racing with close
                    ('server', 'poll-poll', 1, True), ('server', 'poll-close', 1, True), ('server', 'close-close', 1, True)]
CLOSE_PLAN_THOROUGH = [('echo', 'idle-recv', 4), ('device', 'idle-recv', 4), ('ioport', 'idle-recv', 3), ('multi', 'idle-recv', 3),
                       ('echo', 'send-recv', 3), ('ioport', 'send-recv', 3), ('device', 'send-recv', 2), ('multi', 'send-recv', 2),
                       ('echo', 'send2-recv2', 2), ('ioport', 'send2-recv2', 2), ('echo', 'send-poll-close2', 3),
                       ('ioport', 'send-poll-close2', 2),
                       ('multi', 'close-close', 2, True), ('echo', 'close-close', 2, True), ('device', 'close-close', 2, True),
                       ('ioport', 'close-close', 2, True), ('multi', 'close-close-close', 2, True),
                       ('device', 'send-recv', 1, True), ('multi', 'idle-recv', 1, True),
                       ('faultydev', 'send2-poll-close', 3), ('faultydev', 'send-poll-close2', 3),
                       ('ioport', 'send-poll-poll', 3), ('echo', 'send-poll-poll', 2), ('device', 'send-poll-poll', 2),
                       ('server', 'poll-poll', 2, True), ('server', 'poll-close', 2, True), ('server', 'close-close', 2, True)]
CLOSE_SHARDS = 8


def judge_close(kind, prog, run):
    """Lifecycle verdict of one explored run (None or (key, detail))."""
    if run['hung']:
        return 'close-race/hang', 'threads %r never finished' % (run['hung'],)
    got, sent_ok = [], []
    for ti, ops in enumerate(prog):
        res = run['results'].get(ti + 1) or []
        if len(res) != len(ops):
            return 'close-race/unfinished', 'thread %d made %d of %d calls' % (ti + 1, len(res), len(ops))
        for op, r in zip(ops, res):
            k = r['k']
            if op['op'] == 'close' and k != 'ok':
                return 'close-race/close-raises', 'close() ended with %s' % k
            if op['op'] == 'send':
                if k == 'ok':
                    sent_ok.append(op['m'])
                elif k != 'raise:ValueError' and not (kind == 'faultydev' and k == 'raise:OSError'):
                    return 'close-race/send-raises', 'send() ended with %s' % k
            if op['op'] == 'recv' and k not in ('msg', 'raise:OSError', 'raise:ValueError'):
                return 'close-race/receive-result', 'blocking receive() ended with %s' % k
            if op['op'] == 'poll' and k not in ('msg', 'none'):
                # a poll that overlaps a close() of another thread is neither "before" nor
                # "after" it: ending like a blocking receive (ValueError / OSError) is tolerated
                others_close = any(o['op'] == 'close' for tj, os_ in enumerate(prog) if tj != ti for o in os_)
                if not (others_close and k in ('raise:ValueError', 'raise:OSError')):
                    return 'close-race/poll-result', 'poll() ended with %s' % k
            if k == 'msg':
                got += r['v']
    ncl = sum(1 for ops in prog for op in ops if op['op'] == 'close')
    if ncl and any(n != 1 for n in run.get('releases', [])):
        return ('close-race/released-%s-times' % max(run['releases']),
                '%d close() calls released the device(s) %r times' % (ncl, run['releases']))
    rest = run.get('drained')
    if rest is None or any(not isinstance(x, int) for x in rest):
        return 'close-race/drain-raises', 'draining the closed port: %r' % (rest,)
    allgot = got + rest
    if len(set(allgot)) != len(allgot) or not set(allgot) <= set(sent_ok):
        return 'close-race/duplicated-or-invented', 'sent %r; received %r, drained %r' % (sent_ok, got, rest)
    if kind == 'echo' and sorted(allgot) != sorted(sent_ok):
        # an EchoPort takes a message in at send(): it must be handed out, before or after close
        return 'close-race/taken-in-but-lost', 'sent %r; received %r, drained after close %r' % (sent_ok, got, rest)
    if got != sorted(got):
        return 'close-race/order', 'received %r' % (got,)
    return None


def close_explore_worker(jobs):
    from .. import portrun
    res = {'n': 0, 'viol': [], 'samples': [], 'counts': {}}
    for kind, name, k, shard, limit, line_level in jobs:
        prog = CLOSE_PROGRAMS[name]

        def judge(run, sched):
            r = judge_close(kind, prog, run)
            if r and len(res['viol']) < 6:
                res['viol'].append(('lifecycle/%s/%s' % (r[0], kind),
                                    {'row': ['close_explore', kind, name, sched, line_level]},
                                    '%s (program %s, schedule %r)' % (r[1], name, sched)))
        n, complete = portrun.explore(kind, [], prog, k, limit=limit, judge=judge, shard=(shard, CLOSE_SHARDS),
                                      budget=300, line_level=line_level)
        res['n'] += n
        key = 'close_race_%s_%s' % (kind, name)
        res['counts'][key] = res['counts'].get(key, 0) + n
        if not complete:
            res['counts']['close_race_cut_at_limit'] = 1
    return res


def check_multi_functions():
    """The module-level functions behind MultiPort, called directly: multi_iter_pending hands out
    what every open member has taken in, once, each member's messages in order (with the member
    when asked to); a blocking multi_receive hands out a message as soon as one is deliverable
    and sleeps only when there is none; multi_send reaches every member once; a closed member is
    passed over."""
    import mido.ports as mp
    out = []
    saved = (mp.sleep,)
    sleeps = [0]

    def sleep_hook():
        sleeps[0] += 1
        if sleeps[0] > 40:
            raise Hang()
    mp.sleep = sleep_hook
    try:
        for scripts in ([['arrive3'], ['arrive']], [[], ['arrive', 'arrive']], [['nothing', 'arrive'], ['nothing', 'nothing', 'arrive3']],
                        [['arrive_close'], ['arrive']], [['close'], ['nothing', 'arrive']]):
            for yp in (False, True):
                for ports_as in ('list', 'tuple', 'generator'):
                    wa, wb = World(scripts[0]), World(scripts[1])
                    wb.nextid = 51
                    InD, OutD, IOD = make_doubles()
                    a, b = IOD('a', world=wa, who='a'), IOD('b', world=wb, who='b')
                    mk = {'list': lambda: [a, b], 'tuple': lambda: (a, b), 'generator': lambda: (x for x in (a, b))}[ports_as]
                    tag = 'multi-functions/%s/%s' % ('pairs' if yp else 'plain', ports_as)
                    total = sum({'arrive': 1, 'arrive3': 3, 'arrive_close': 1}.get(x, 0) for sc in scripts for x in sc)

                    def ids(rs, where):
                        got = []
                        for r in rs:
                            if yp:
                                if not (isinstance(r, tuple) and len(r) == 2 and (r[0] is a or r[0] is b)):
                                    out.append((tag, '%s gave %s' % (where, core.srepr(r))))
                                    return None
                                i = arrival_id(r[1])
                                if (r[0] is b) != (i >= 51):
                                    out.append((tag, '%s: message %d came out with the other member' % (where, i)))
                                    return None
                                got.append(i)
                            else:
                                got.append(arrival_id(r))
                        return got
                    try:
                        # non-blocking rounds until everything scripted has arrived
                        got = []
                        for rnd in range(4):
                            s0 = sleeps[0]
                            g = ids(list(mp.multi_iter_pending(mk(), yield_ports=yp)), 'multi_iter_pending')
                            if g is None:
                                break
                            if sleeps[0] != s0:
                                out.append((tag, 'multi_iter_pending slept'))
                                break
                            got += g
                        else:
                            exp_a = [i for i in range(1, 1 + sum({'arrive': 1, 'arrive3': 3, 'arrive_close': 1}.get(x, 0) for x in scripts[0]))]
                            exp_b = [i for i in range(51, 51 + sum({'arrive': 1, 'arrive3': 3, 'arrive_close': 1}.get(x, 0) for x in scripts[1]))]
                            if [i for i in got if i < 51] != exp_a or [i for i in got if i >= 51] != exp_b:
                                out.append((tag, 'scripts %r: multi_iter_pending rounds gave %r, expected %r and %r in order, once'
                                            % (scripts, got, exp_a, exp_b)))
                        # blocking generator on fresh devices: the first message comes out after at most as
                        # many sleeps as there are empty rounds before it
                        wa, wb = World(scripts[0]), World(scripts[1])
                        wb.nextid = 51
                        a, b = IOD('a', world=wa, who='a'), IOD('b', world=wb, who='b')
                        if total:
                            empty_rounds = 0
                            while not any({'arrive': 1, 'arrive3': 1, 'arrive_close': 1}.get((sc[empty_rounds:empty_rounds + 1] or ['nothing'])[0], 0)
                                          for sc in scripts):
                                empty_rounds += 1
                            s0 = sleeps[0]
                            gen = mp.multi_receive(mk(), yield_ports=yp, block=True)
                            first = next(gen)
                            g = ids([first], 'multi_receive')
                            if g is not None and sleeps[0] - s0 > empty_rounds:
                                out.append((tag, 'scripts %r: blocking multi_receive slept %d times before its first message although one was deliverable after %d'
                                            % (scripts, sleeps[0] - s0, empty_rounds)))
                            gen.close()
                        # multi_send: every member once, a copy each time is not required, the same content is
                        wa.log[:], wb.log[:] = [], []
                        if not a.closed and not b.closed:
                            m = user_msg(5)
                            mp.multi_send(mk(), m)
                            for w in (wa, wb):
                                sent = [x[2] for x in w.log if x[1] == 'send']
                                if sent != [user_msg(5)]:
                                    out.append((tag, 'multi_send: a member saw %r' % (sent,)))
                    except Hang:
                        out.append((tag + '/hang', 'scripts %r: did not return within 40 sleeps' % (scripts,)))
                    except Exception as e:
                        out.append((tag + '/raises', 'scripts %r: %r' % (scripts, e)))
    finally:
        mp.sleep, = saved
    return out[:4]


def check_ioport_half_closed():
    """An IOPort whose input device closed itself (the peer hung up) or whose one half was
    closed by hand: closing the wrapper still releases the other half, once, after its reset
    messages."""
    import mido.ports as mp
    out = []
    for how in ('input-closes-itself', 'input-closed-by-hand', 'output-closed-by-hand'):
        world = World(['arrive_close'] if how == 'input-closes-itself' else [])
        InD, OutD, IOD = make_doubles()
        i = InD('i', world=world, who='in')
        o = OutD('o', world=world, who='out', autoreset=True)
        port = mp.IOPort(i, o)
        try:
            if how == 'input-closes-itself':
                got = port.poll()
                if got is None or not i.closed:
                    out.append(('ioport-half/' + how, 'the input did not deliver and close (%r, closed=%r)' % (got, i.closed)))
                    continue
            elif how == 'input-closed-by-hand':
                i.close()
            else:
                o.close()
            port.close()
            port.close()
        except Exception as e:
            out.append(('ioport-half/%s/raises' % how, repr(e)))
            continue
        closes = [(who, what) for who, what, _ in world.log if what == 'close']
        resets = sum(1 for who, what, m in world.log if who == 'out' and what == 'send')
        if sorted(closes) != [('in', 'close'), ('out', 'close')] or resets != 32 or not port.closed:
            out.append(('ioport-half/' + how, 'after %s and close() of the wrapper the devices saw %r and %d reset messages '
                        '(expected each half released once, 32 reset messages)' % (how, closes, resets)))
    return out[:3]


def check_server_close_while_receiving():
    """A thread waits in receive() on a PortServer nobody has connected to; close()
    and poll() from another thread must return, and the waiting receive must end.
    Real threads and real (loopback) sockets; generous time limits."""
    import threading
    import time
    import mido.ports as mp
    from mido.sockets import PortServer
    state = {'sleeps': 0}
    saved = mp.sleep

    def sleep_hook():
        state['sleeps'] += 1
        time.sleep(0.001)
    mp.sleep = sleep_hook
    server = None
    try:
        try:
            server = PortServer('127.0.0.1', 0)
        except OSError as e:
            return None, 'skipped: cannot bind loopback (%r)' % (e,)
        box = {}

        def waiter():
            try:
                box['r'] = server.receive()
            except Exception as e:
                box['exc'] = type(e).__name__
        th = threading.Thread(target=waiter, daemon=True)
        th.start()
        t0 = time.time()
        while state['sleeps'] < 3 and time.time() - t0 < 2 and th.is_alive():
            time.sleep(0.002)             # the waiter is inside its wait loop now
        res = {}

        def other():
            try:
                res['poll'] = server.poll()
                server.close()
                res['closed'] = True
            except Exception as e:
                res['exc'] = repr(e)
        t2 = threading.Thread(target=other, daemon=True)
        t2.start()
        t2.join(5.0)
        stuck = t2.is_alive()
        if stuck:
            # rescue the stuck threads so that the process can go on: connect once
            try:
                import socket
                socket.create_connection(server._socket.getsockname(), timeout=1).close()
            except Exception:
                pass
            t2.join(2.0)
            th.join(2.0)
            return ('server-close-blocked-by-waiting-receive',
                    'poll()/close() from another thread did not return within 5 s while a receive() was waiting on a PortServer without clients'), None
        th.join(5.0)
        if th.is_alive():
            return ('server-receive-not-ended-by-close', 'receive() still waiting 5 s after close()'), None
        if 'exc' in res or res.get('poll') is not None or box.get('exc') not in ('OSError', 'ValueError'):
            return ('server-close-results', 'other thread: %r; waiting receive: %r' % (res, box)), None
        return None, None
    finally:
        mp.sleep = saved
        if server is not None:
            try:
                server.close()
            except Exception:
                pass


def run(ctx):
    thorough = ctx.tier == 'thorough'
    if thorough:
        plan = [('io', True, 3, 4), ('io', False, 3, 4), ('in', False, 3, 4), ('out', True, 0, 4), ('outs', True, 0, 4),
                ('echo', False, 0, 5), ('ioport', True, 3, 4), ('ioport', False, 2, 4)]
    else:
        plan = [('io', True, 3, 3), ('io', False, 2, 3), ('in', False, 2, 3), ('out', True, 0, 3), ('outs', True, 0, 3),
                ('echo', False, 0, 4), ('ioport', True, 2, 3)]
    pr = core.ParallelReplay(ctx, worker, batch_size=500)
    for kind, ar, ms, mc in plan:
        res = core.run_tlc('PortLife', cfg(kind, ar, ms, mc), on_emit=pr.push, raw_ints=True,
                           timeout=3000, heap='16g')
        ctx.add_tlc(res, 'PortLife %s autoreset=%s script<=%d calls=%d' % (kind, ar, ms, mc))
    try:
        from . import c11multi
        c11multi.run_tlc(ctx, pr, thorough)
    except ImportError:
        pass
    n = pr.finish()
    ctx.note('histories', n)
    # close() while another thread waits in receive() (deterministic scheduler, seeded schedules)
    import random as _random
    rng = _random.Random(ctx.seed + 11)
    for k in range(60 if thorough else 16):
        kind = ['device', 'echo', 'ioport'][k % 3]
        rseed, policy = rng.randrange(1 << 30), ['random', 'pct', 'first'][k % 3]
        r = check_close_unblocks(kind, rseed, policy)
        ctx.replayed += 1
        if r:
            ctx.violation('lifecycle/%s/%s' % (r[0], kind), {'row': ['close_unblocks', kind, rseed, policy]}, r[1])
    # ... and every schedule with a bounded number of preemptions of close() racing with
    # send / receive / poll / a second close on the real ports
    plan = CLOSE_PLAN_THOROUGH if thorough else CLOSE_PLAN_QUICK
    pr2 = core.ParallelReplay(ctx, close_explore_worker, batch_size=1)
    pr2.map([[(e[0], e[1], e[2], sh, 40000 if thorough else 2500, len(e) > 3 and e[3])]
             for e in plan for sh in range(CLOSE_SHARDS)])
    ctx.note('close_race_schedules', pr2.n)
    r, skipped = check_server_close_while_receiving()
    ctx.replayed += 1
    if skipped:
        ctx.observations.append(skipped)
    if r:
        ctx.violation('lifecycle/' + r[0], {'row': ['server_close']}, r[1])
    # a real device that closes itself: SocketPort on a socketpair (the peer
    # disconnects before / between / after the messages); the connection must
    # be released exactly once
    from . import c18
    m1, m2 = [0x90, 1, 2], [0xc1, 5]
    for mode, stream, cut, acts, delivered, polls in [
            ('iterate', m1 + m2, 5, [[5, 0]], [m1, m2], []),
            ('iterate', m1 + m2, 5, [[3], [2], [0]], [m1, m2], []),
            ('iterate', m1, 0, [[0]], [], []),
            ('poll', m1 + m2, 5, [[5, 0]], [m1, m2], [m1, m2, []]),
            ('poll', m1, 2, [[2], [0]], [], [[], []])]:
        r = c18.replay_link(mode, stream, cut, acts, delivered, polls)
        ctx.replayed += 1
        if r:
            ctx.violation('lifecycle/socket/%s' % r[0], {'row': ['socket', mode, stream, cut, acts, delivered, polls]},
                          '%s (SocketPort, %s, peer actions %r)' % (r[1], mode, acts))
    for key, msg in check_ioport_half_closed():
        ctx.violation('lifecycle/' + key, {'row': ['ioport_half']}, msg)
    ctx.replayed += 3
    for key, msg in check_multi_functions():
        ctx.violation('lifecycle/' + key, {'row': ['multi_functions']}, msg)
    ctx.replayed += 30
    # a device that discovers on a WRITE that it is gone (real TCP)
    v, skipped = c18.check_send_to_dead_peer()
    ctx.replayed += 1
    for key, case, msg in v:
        ctx.violation('lifecycle/socket/' + key, {'row': ['deadpeer']}, msg)
    # a member of a MultiPort that takes in a burst and closes itself
    for nb in (100, 64, 65, 1):
        for key, case, msg in c18.check_multi_member_burst(nb):
            ctx.violation('lifecycle/socket/' + key, {'row': ['multiburst', nb]}, msg)
        ctx.replayed += 1
    ctx.constants = {'plan': plan}
    ctx.exhaustive = True
    ctx.assumptions += [
        'device ports are doubles subclassing BaseInput/BaseOutput/BaseIOPort as docs/ports/custom.rst describes; a device closes itself by calling close() from _receive (as SocketPort does on EOF)',
        'a blocking receive is only issued when the script eventually delivers a message or closes the device (otherwise blocking forever is correct)',
        'IOPort and MultiPort members do not close themselves in the model (the statement does not say what the wrapper should do then)',
        'the exception raised by receive() on a closed, drained port may be ValueError or OSError',
    ]
