"""Driver-level sub-checks added in the eleventh round of seeded changes.  Each function returns a
list of (key, detail) findings for ONE property; the check of that property calls it and turns
the findings into violations with a replayable case {'extra11': name}."""
import gc
import io
import os
import shutil
import tempfile

from .. import core


def _mido():
    return core.import_mido()


# ---------------------------------------------------------------- C01 / C19: whitespace in hex text

WHITES = [' ', '\t', '\n', '\r', '\x0b', '\x0c', '\x1c', '\x1d', '\x1e', '\x1f', '\x85', '\xa0']


def c01_hex_separators():
    """hex() with any white-space character as separator is read back by from_hex (which 'replaces all
    whitespace characters with spaces'); any other separator is read back when it is named."""
    mido = _mido()
    M = mido.Message
    out = []
    msgs = [M('note_on', channel=3, note=60, velocity=1, time=2), M('sysex', data=(1, 2, 3)), M('clock'),
            M('pitchwheel', pitch=-1), M('songpos', pos=300), M('program_change', program=5)]
    for sep in WHITES + [' ', '　', '\r\n', ' \x1e ', '\x1f\n']:
        for m in msgs:
            text = m.hex(sep)
            for how, f in (('from_hex(text)', lambda: M.from_hex(text, time=m.time)),
                           ('from_hex(text, sep=...)', lambda: M.from_hex(text, time=m.time, sep=sep))):
                try:
                    r = f()
                except Exception as e:
                    out.append(('hex-separator/%r' % sep, '%s of %r raises %r' % (how, text, e)))
                    break
                if r != m:
                    out.append(('hex-separator/%r' % sep, '%s of %r gave %s' % (how, text, core.srepr(r))))
                    break
    for sep in (':', '-', ', ', '|', '.', '\\x', '()'):
        for m in msgs:
            try:
                r = M.from_hex(m.hex(sep), time=m.time, sep=sep)
            except Exception as e:
                out.append(('hex-separator/%r' % sep, 'from_hex(%r, sep=%r) raises %r' % (m.hex(sep), sep, e)))
                break
            if r != m:
                out.append(('hex-separator/%r' % sep, 'from_hex(%r, sep=%r) gave %s' % (m.hex(sep), sep, core.srepr(r))))
                break
    return out[:4]


def c19_separators():
    """Plain-text SYX files may separate the hex bytes with any whitespace: every character the text
    reader (latin1 text) counts as white space, alone and mixed."""
    mido = _mido()
    M = mido.Message
    out = []
    sx = [M('sysex', data=(1, 2, 3)), M('sysex', data=()), M('sysex', data=(0x7f,) * 5)]
    d = tempfile.mkdtemp(prefix='vf-x11-')
    try:
        for sep in WHITES + [' \xa0', '\x85\n', '\x1c\x1d']:
            text = sep.join('%02X' % b for m in sx for b in m.bytes())
            for lead in ('', sep):
                path = os.path.join(d, 'x.syx')
                with open(path, 'wb') as f:
                    f.write((lead + text + lead).encode('latin1'))
                try:
                    r = mido.read_syx_file(path)
                except Exception as e:
                    out.append(('syx-separator/%r' % sep, 'a text file with %r between the bytes raises %r' % (sep, e)))
                    break
                if r != sx:
                    out.append(('syx-separator/%r' % sep, 'a text file with %r between the bytes reads as %s' % (sep, core.srepr(r))))
                    break
    finally:
        shutil.rmtree(d, ignore_errors=True)
    return out[:4]


# ---------------------------------------------------------------- C02: type names where bytes belong

def c02_status_names():
    mido = _mido()
    out = []
    from mido.messages.specs import SPEC_BY_TYPE

    class S(str):
        pass
    for name in sorted(SPEC_BY_TYPE):
        for data in ([name], [name, 5], [name, 60, 64], [S(name)], [name, 0xf7], (name, 1, 2), [0x90, name, 1], [0x90, 1, name]):
            from mido.frozen import FrozenMessage
            for cls in (mido.Message, FrozenMessage):
                try:
                    r = cls.from_bytes(data)
                except (ValueError, TypeError):
                    continue
                except Exception as e:
                    out.append(('accepts-malformed/names', 'from_bytes(%r) raises %r' % (data, e)))
                    continue
                out.append(('accepts-malformed/names', '%s.from_bytes(%r) returned %s' % (cls.__name__, data, core.srepr(vars(r)))))
    for data in (['90', 60, 64], ['\x90', 60, 64], [b'\x90', 60, 64], [None], [[0x90], 60, 64], [0x90, '60', 64]):
        try:
            r = mido.Message.from_bytes(data)
        except (ValueError, TypeError):
            continue
        except Exception as e:
            out.append(('accepts-malformed/names', 'from_bytes(%r) raises %r' % (data, e)))
            continue
        out.append(('accepts-malformed/names', 'from_bytes(%r) returned %s' % (data, core.srepr(vars(r)))))
    return out[:4]


# ---------------------------------------------------------------- C09 / C01: whole numbers that are not ints

def c09_integral_numbers():
    """Every meta message the constructor accepts encodes: attributes given as numbers.Integral objects
    that are not ints (numpy.int64 and the like) are accepted by check_int, so they must encode, to the
    bytes of the same message built from ints."""
    mido = _mido()
    from ..oddnums import Int64
    MM = mido.MetaMessage
    out = []
    cases = [('set_tempo', 'tempo', [0, 1, 500000, 16777215]), ('sequence_number', 'number', [0, 300, 65535]),
             ('midi_port', 'port', [0, 255]), ('channel_prefix', 'channel', [0, 255]),
             ('time_signature', 'numerator', [1, 255]), ('time_signature', 'denominator', [1, 8, 2 ** 20]),
             ('time_signature', 'clocks_per_click', [0, 255]), ('time_signature', 'notated_32nd_notes_per_beat', [0, 255]),
             ('smpte_offset', 'hours', [0, 23]), ('smpte_offset', 'minutes', [59]), ('smpte_offset', 'seconds', [59]),
             ('smpte_offset', 'frames', [0, 29]), ('smpte_offset', 'sub_frames', [0, 99]), ('smpte_offset', 'frame_rate', [24, 25, 30]),
             ('text', 'time', [0, 5]), ('end_of_track', 'time', [7])]
    for typ, attr, vals in cases:
        for v in vals:
            try:
                ref = MM(typ, **{attr: v})
                refb = ref.bytes()
            except Exception:
                continue
            for how, mk in (('constructor', lambda: MM(typ, **{attr: Int64(v)})),
                            ('assignment', lambda: _assigned(MM(typ), attr, Int64(v))),
                            ('copy', lambda: MM(typ).copy(**{attr: Int64(v)}))):
                try:
                    m = mk()
                except (TypeError, ValueError):
                    continue          # refusing such numbers is allowed; accepting and then failing is not
                try:
                    b = m.bytes()
                    back = MM.from_bytes(b)
                except Exception as e:
                    out.append(('integral/%s.%s' % (typ, attr), '%s accepted %s=%r but the message does not encode: %r' % (how, attr, Int64(v), e)))
                    break
                if [int(x) for x in b] != refb or (attr != 'time' and getattr(back, attr) != v):
                    out.append(('integral/%s.%s' % (typ, attr), '%s with %s=%r encodes to %r, with the int to %r' % (how, attr, Int64(v), b, refb)))
                    break
    um = mido.UnknownMetaMessage(0x60, data=(Int64(1), Int64(127)))
    try:
        if [int(x) for x in um.bytes()] != [0xff, 0x60, 2, 1, 127]:
            out.append(('integral/unknown.data', 'encodes to %r' % (um.bytes(),)))
    except Exception as e:
        out.append(('integral/unknown.data', 'accepted but does not encode: %r' % (e,)))
    return out[:4]


def _assigned(m, attr, v):
    setattr(m, attr, v)
    return m


def c01_integral_numbers():
    mido = _mido()
    from ..oddnums import Int64
    M = mido.Message
    out = []
    for typ, attr, vals in (('note_on', 'note', [0, 127]), ('note_on', 'channel', [0, 15]), ('note_off', 'velocity', [0, 127]),
                            ('pitchwheel', 'pitch', [-8192, -1, 0, 8191]), ('songpos', 'pos', [0, 128, 16383]),
                            ('quarter_frame', 'frame_type', [0, 7]), ('quarter_frame', 'frame_value', [15]),
                            ('control_change', 'control', [127]), ('program_change', 'program', [127]), ('song_select', 'song', [127])):
        for v in vals:
            refb = M(typ, **{attr: v}).bytes()
            try:
                m = M(typ, **{attr: Int64(v)})
            except (TypeError, ValueError):
                continue
            try:
                b, bn, hx = m.bytes(), m.bin(), m.hex()
                back = M.from_bytes(b)
            except Exception as e:
                out.append(('integral/%s.%s' % (typ, attr), 'accepted %s=%r but the message does not encode: %r' % (attr, Int64(v), e)))
                continue
            if [int(x) for x in b] != refb or list(bn) != refb or getattr(back, attr) != v or len(m) != len(refb):
                out.append(('integral/%s.%s' % (typ, attr), '%s=%r encodes to %r, with the int to %r' % (attr, Int64(v), b, refb)))
    return out[:4]


# ---------------------------------------------------------------- C07: failed save with the exception kept; frozen long texts

def c07_failed_save_then_retry():
    """A save that is refused writes no usable file, and does not disturb the next save to the same name
    - also when the caller still holds the exception (retry inside the except block, exception kept for
    a dialog) and lets go of it later."""
    mido = _mido()
    M, MM = mido.Message, mido.MetaMessage
    out = []
    d = tempfile.mkdtemp(prefix='vf-x11-')
    try:
        for bad, label in ((M('clock'), 'a real-time message'), (M('note_on', time=1.5), 'a fractional time'),
                           (M('note_on', time=-1), 'a negative time')):
            for retry in ('inside-except', 'exception-kept', 'after'):
                path = os.path.join(d, 'f-%s.mid' % retry)
                mid = mido.MidiFile(type=1, ticks_per_beat=120)
                mid.tracks.append(mido.MidiTrack([MM('track_name', name='one', time=0), M('note_on', note=1, time=3)]))
                mid.tracks.append(mido.MidiTrack([M('note_on', note=2, time=1)] * 700))
                mid.tracks.append(mido.MidiTrack([M('note_on', note=3, time=0), bad]))
                kept = []
                try:
                    mid.save(path)
                    out.append(('failed-save/' + retry, 'a file holding %s was saved' % label))
                    continue
                except ValueError as e:
                    if retry == 'inside-except':
                        del mid.tracks[2]
                        mid.tracks[0][1].note = 9
                        mid.save(path)
                    elif retry == 'exception-kept':
                        kept.append(e)
                if retry != 'inside-except':
                    del mid.tracks[2]
                    mid.tracks[0][1].note = 9
                    mid.save(path)
                del kept[:]
                gc.collect()
                try:
                    back = mido.MidiFile(path)
                except Exception as e:
                    out.append(('failed-save/' + retry, 'after a save refused for %s and a second save (%s) the file does not load: %r'
                                % (label, retry, e)))
                    continue
                if [list(t) for t in back.tracks] != [list(_eot(t, MM)) for t in mid.tracks]:
                    out.append(('failed-save/' + retry, 'after a save refused for %s and a second save (%s) the file holds %s'
                                % (label, retry, core.srepr([list(t)[:3] for t in back.tracks]))))
    except Exception as e:
        out.append(('failed-save/raises', repr(e)))
    finally:
        shutil.rmtree(d, ignore_errors=True)
    return out[:3]


def _eot(track, MM):
    t = list(track)
    if not t or t[-1].type != 'end_of_track':
        t.append(MM('end_of_track', time=0))
    return t


def c07_frozen_texts_across_charsets():
    """The same (equal) frozen text message stored in files of different charsets: each file reads
    back the text, whatever was encoded earlier in the process."""
    mido = _mido()
    from mido.frozen import freeze_message
    MM = mido.MetaMessage
    out = []
    for n in (1, 63, 64, 65, 200, 5000):
        text = ('\xa9 \xe9t\xe9 ' * n)[:n] if n > 1 else '\xe9'
        for kind in ('copyright', 'text', 'track_name', 'lyrics', 'marker'):
            for order in (('utf-8', 'latin1', 'cp1252'), ('latin1', 'utf-8'), ('cp1252', 'utf-16', 'latin1')):
                for cs in order:
                    attr = 'name' if kind == 'track_name' else 'text'
                    fm = freeze_message(MM(kind, **{attr: text, 'time': 0}))
                    mid = mido.MidiFile(charset=cs)
                    mid.tracks.append(mido.MidiTrack([fm, MM('end_of_track', time=0)]))
                    try:
                        buf = io.BytesIO()
                        mid.save(file=buf)
                        back = mido.MidiFile(file=io.BytesIO(buf.getvalue()), charset=cs)
                        got = getattr(back.tracks[0][0], attr)
                    except Exception as e:
                        out.append(('frozen-text/%s' % kind, 'a %d-character frozen %s in a %s file (after %r): %r' % (n, kind, cs, order, e)))
                        break
                    if got != text or text.encode(cs) not in buf.getvalue():
                        out.append(('frozen-text/%s' % kind, 'a %d-character frozen %s stored in a %s file (files written in the order %r) '
                                    'reads back as %s' % (n, kind, cs, order, core.srepr(got, 60))))
                        break
    return out[:3]


# ---------------------------------------------------------------- C08: texts Unicode normalisation would change; reused targets

def c08_texts_kept_as_given():
    """The bytes written for a text event are the text in the file's charset - exactly the code points
    in memory (no Unicode normalisation, no case or width folding)."""
    mido = _mido()
    MM = mido.MetaMessage
    out = []
    texts = ['Café', 'Ω', 'Å ngstr\xf6m', 'क़', 'שׁ', 'é̂', 'ẛ̣', 'ＡＢ', 'ﬁ',
             'İ', 'Å', 'x​y', '﻿bom', 'a b', '\U0001f3b5', 'Å' * 40]
    for cs in ('utf-8', 'utf-16-le', 'utf-16'):
        for text in texts:
            for kind in ('track_name', 'lyrics', 'marker'):
                attr = 'name' if kind == 'track_name' else 'text'
                mid = mido.MidiFile(charset=cs)
                mid.tracks.append(mido.MidiTrack([MM(kind, **{attr: text, 'time': 0}), MM('end_of_track', time=0)]))
                try:
                    buf = io.BytesIO()
                    mid.save(file=buf)
                    data = buf.getvalue()
                    back = mido.MidiFile(file=io.BytesIO(data), charset=cs)
                except Exception as e:
                    out.append(('text-bytes/%s' % cs, '%r as %s: %r' % (text, kind, e)))
                    continue
                raw = text.encode(cs)
                if raw not in data or getattr(back.tracks[0][0], attr) != text:
                    out.append(('text-bytes/%s' % cs, 'the %s %a was written as %r (the text in %s is %r) and reads back as %a'
                                % (kind, text, data[22:22 + len(raw) + 6], cs, raw, getattr(back.tracks[0][0], attr))))
    return out[:3]


def c08_reused_targets():
    """What save() writes is one well-formed file from the position the target was at - also when the
    target already holds other (longer) content behind that position: a rewound buffer, a file opened
    for update.  Small and large tracks."""
    mido = _mido()
    M, MM = mido.Message, mido.MetaMessage
    out = []
    d = tempfile.mkdtemp(prefix='vf-x11-')
    try:
        for nbig in (3, 4096, 30000):
            def build(tag):
                mid = mido.MidiFile(type=1, ticks_per_beat=96)
                mid.tracks.append(mido.MidiTrack([MM('track_name', name='t' + tag, time=0)] +
                                                 [M('note_on', note=i % 128, velocity=1 + i % 100, time=i % 3) for i in range(nbig)]))
                mid.tracks.append(mido.MidiTrack([M('note_on', note=38 if tag == 'new' else 36, time=5), MM('end_of_track', time=1)]))
                mid.tracks.append(mido.MidiTrack([MM('marker', text=tag, time=0)]))
                return mid
            old, new = build('old-and-quite-a-bit-longer-than-the-new-one'), build('new')
            old.tracks[0].extend([M('note_on', note=1, time=1)] * 500)
            ref = io.BytesIO()
            new.save(file=ref)
            ref = ref.getvalue()
            # a rewound buffer, truncated after the save
            buf = io.BytesIO()
            old.save(file=buf)
            buf.seek(0)
            new.save(file=buf)
            buf.truncate()
            if buf.getvalue() != ref:
                out.append(('reused-target/buffer', '%d-message track: saving into a rewound buffer that held a longer file gives %d bytes '
                            '(fresh target: %d), first difference at %d' % (nbig, len(buf.getvalue()), len(ref), _firstdiff(buf.getvalue(), ref))))
            # a file opened for update
            path = os.path.join(d, 'u.mid')
            old.save(path)
            with open(path, 'r+b') as f:
                new.save(file=f)
                f.truncate()
            with open(path, 'rb') as f:
                data = f.read()
            if data != ref:
                out.append(('reused-target/r+b', '%d-message track: saving into a file opened r+b that held a longer file gives %d bytes '
                            '(fresh target: %d), first difference at %d' % (nbig, len(data), len(ref), _firstdiff(data, ref))))
            # behind a prefix the caller wrote (a container format): the file starts where the target was
            buf = io.BytesIO()
            buf.write(b'HEAD')
            new.save(file=buf)
            if buf.getvalue() != b'HEAD' + ref:
                out.append(('reused-target/offset', '%d-message track: saving at offset 4 gives other bytes than at offset 0' % nbig))
            # a writer that cannot seek
            w = _WriteOnly()
            new.save(file=w)
            if w.data() != ref:
                out.append(('reused-target/write-only', '%d-message track: a write-only target got other bytes' % nbig))
    except Exception as e:
        out.append(('reused-target/raises', repr(e)))
    finally:
        shutil.rmtree(d, ignore_errors=True)
    return out[:3]


class _WriteOnly:
    def __init__(self):
        self.parts = []

    def write(self, b):
        self.parts.append(bytes(b))
        return len(b)

    def data(self):
        return b''.join(self.parts)


def _firstdiff(a, b):
    for i, (x, y) in enumerate(zip(a, b)):
        if x != y:
            return i
    return min(len(a), len(b))


# ---------------------------------------------------------------- C17: with-blocks entered twice; interrupts

def _default_probe(mido, where, out, key):
    MM = mido.MetaMessage
    try:
        b = MM('text', text='\xe9').bytes()
        t = MM.from_bytes([0xff, 0x03, 4, 0x43, 0x61, 0x66, 0xe9]).name
    except Exception as e:
        out.append((key, '%s the default charset is not in force: %r' % (where, e)))
        return False
    if b != [0xff, 1, 1, 0xe9] or t != 'Caf\xe9':
        out.append((key, '%s text encodes as %r / decodes as %r' % (where, b, t)))
        return False
    return True


def c17_with_blocks():
    """MidiFile objects used as context managers - nested, the same object entered twice, left in
    another order than entered - never leave a file's charset in force."""
    mido = _mido()
    MM = mido.MetaMessage
    out = []
    for cs in ('utf-8', 'shift_jis', 'utf-16'):
        a, b = mido.MidiFile(charset=cs), mido.MidiFile(charset='cp1252')
        a.tracks.append(mido.MidiTrack([MM('text', text='x', time=0)]))
        with a:
            with a:
                a.save(file=io.BytesIO())
            with b:
                with a:
                    pass
        _default_probe(mido, 'after nested with-blocks on one %s file:' % cs, out, 'with-block/nested')
        a.__enter__()
        b.__enter__()
        a.__exit__(None, None, None)
        b.__exit__(None, None, None)
        _default_probe(mido, 'after two files (%s, cp1252) left in the order they were entered:' % cs, out, 'with-block/order')
        try:
            with a:
                with a:
                    raise KeyError('x')
        except KeyError:
            pass
        _default_probe(mido, 'after an exception left two with-blocks on one %s file:' % cs, out, 'with-block/exception')
    return out[:3]


class _Interrupt(BaseException):
    """What a Ctrl-C, a SystemExit or a cancelled task look like to a load or save in progress."""


def c17_interrupts():
    """The default is back after a load or save that was left by an exception that is not an Exception
    (KeyboardInterrupt, SystemExit, GeneratorExit, a cancellation) raised while it read or wrote."""
    mido = _mido()
    MM, M = mido.MetaMessage, mido.Message
    out = []
    for exc in (KeyboardInterrupt, SystemExit, _Interrupt, GeneratorExit):
        for cs in ('utf-8', 'utf-16'):
            mid = mido.MidiFile(charset=cs)
            mid.tracks.append(mido.MidiTrack([MM('text', text='\xe9', time=0), M('note_on', time=1)] * 30))
            buf = io.BytesIO()
            mid.save(file=buf)
            data = buf.getvalue()
            for at in (0, 5, 30, len(data) - 3):
                class R(io.BytesIO):
                    n = 0

                    def read(self, k=-1):
                        R.n += max(k, 1)
                        if R.n > at:
                            raise exc()
                        return io.BytesIO.read(self, k)
                try:
                    mido.MidiFile(file=R(data), charset=cs)
                except BaseException as e:
                    if not isinstance(e, exc):
                        pass
                if not _default_probe(mido, 'after a %s load left by %s at byte %d:' % (cs, exc.__name__, at), out, 'interrupt/load'):
                    return out

                class W:
                    n = 0

                    def write(self, b):
                        W.n += len(b)
                        if W.n > at:
                            raise exc()
                try:
                    mid.save(file=W())
                except BaseException:
                    pass
                if not _default_probe(mido, 'after a %s save left by %s at byte %d:' % (cs, exc.__name__, at), out, 'interrupt/save'):
                    return out

            # ... or raised by a track that produces its messages lazily
            def lazy():
                yield MM('text', text='\xe9', time=0)
                raise exc()
            m2 = mido.MidiFile(charset=cs)
            m2.tracks.append(lazy())
            try:
                m2.save(file=io.BytesIO())
            except BaseException:
                pass
            if not _default_probe(mido, 'after a %s save left by %s from a lazy track:' % (cs, exc.__name__), out, 'interrupt/save'):
                return out
    return out


# ---------------------------------------------------------------- C12 / C13: the same object at several positions; texts

def c12_shared_objects():
    """Each POSITION of the inputs is an event: the same message object at several positions (a bar
    repeated with *, a track added to itself, one object in two tracks) counts once per position."""
    mido = _mido()
    M, MM = mido.Message, mido.MetaMessage
    out = []
    on, off = M('note_on', note=60, time=10), M('note_off', note=60, time=20)
    cc = M('control_change', control=1, value=2, time=7)
    t1 = mido.MidiTrack([on, off] * 4)
    t2 = mido.MidiTrack([cc, on, cc])
    t3 = mido.MidiTrack([MM('set_tempo', tempo=300000, time=5)] * 3)
    for name, tracks in (('[on, off] * 4', [t1]), ('with a second track sharing the objects', [t1, t2]),
                         ('track + track', [t2 + t2, t3]), ('three tracks', [t1, t2, t3]), ('track * 2', [t2 * 2])):
        exp = []
        for ti, t in enumerate(tracks):
            now = 0
            for pi, m in enumerate(t):
                now += m.time
                if m.type != 'end_of_track':
                    exp.append((now, ti, pi, m))
        exp.sort(key=lambda x: (x[0], x[1], x[2]))
        for sk in (False, True):
            try:
                got = list(mido.merge_tracks(tracks, skip_checks=sk))
            except Exception as e:
                out.append(('shared-objects', '%s: merge_tracks raises %r' % (name, e)))
                continue
            now, gl = 0, []
            for m in got:
                now += m.time
                if m.type != 'end_of_track':
                    gl.append((now, m.copy(time=0)))
            el = [(a, m.copy(time=0)) for a, _, _, m in exp]
            if gl != el:
                out.append(('shared-objects', '%s (skip_checks=%r): merged to %s, expected %s' % (
                    name, sk, core.srepr([(a, str(m)) for a, m in gl], 200), core.srepr([(a, str(m)) for a, m in el], 200))))
        if (on.time, off.time, cc.time) != (10, 20, 7):
            out.append(('shared-objects', '%s: the inputs were changed' % name))
    return out[:3]


def c12_texts_outside_latin1():
    """Tracks holding text events that the default charset cannot encode (a file loaded with utf-8 or
    shift_jis) merge like any others."""
    mido = _mido()
    M, MM = mido.Message, mido.MetaMessage
    out = []
    for text in ('テスト', 'Dvoř\xe1k', '\U0001f3b5'):
        src = mido.MidiFile(charset='utf-8')
        try:
            nm = MM('track_name', name=text, time=3)
            ly = MM('lyrics', text=text, time=4)
        except Exception:
            nm, ly = MM('track_name', time=3), MM('lyrics', time=4)
            nm.name, ly.text = text, text
        src.tracks.append(mido.MidiTrack([nm, M('note_on', note=1, time=2)]))
        src.tracks.append(mido.MidiTrack([ly, M('note_on', note=2, time=0)]))
        buf = io.BytesIO()
        src.save(file=buf)
        loaded = mido.MidiFile(file=io.BytesIO(buf.getvalue()), charset='utf-8')
        for label, tracks in (('built', src.tracks), ('loaded', loaded.tracks)):
            for sk in (False, True):
                try:
                    got = [(m.type, getattr(m, 'name', getattr(m, 'text', None)), m.time)
                           for m in mido.merge_tracks(tracks, skip_checks=sk)]
                except Exception as e:
                    out.append(('text-events', 'merge_tracks(skip_checks=%r) of %s tracks with the text %a raises %r' % (sk, label, text, e)))
                    continue
                exp = [('track_name', text, 3), ('lyrics', text, 1), ('note_on', None, 0), ('note_on', None, 1), ('end_of_track', None, 0)]
                if got != exp:
                    out.append(('text-events', 'merge_tracks of %s tracks with the text %a gave %r' % (label, text, got)))
    return out[:3]


# ---------------------------------------------------------------- C19: messages made on the fly

def c19_messages_made_on_the_fly():
    """The 'list' may be any iterable, also one that makes its messages as it goes (iterating a
    MidiFile, a generator decoding a dump): every message is written with ITS data."""
    mido = _mido()
    M = mido.Message
    out = []
    d = tempfile.mkdtemp(prefix='vf-x11-')
    try:
        for size in (1, 600, 1024, 1500, 5000):
            for count in (3, 6, 12):
                def payload(i):
                    return tuple((i * 7 + j) % 128 for j in range(size))
                exp = [M('sysex', data=payload(i)) for i in range(count)]

                def gen():
                    for i in range(count):
                        yield M('sysex', data=payload(i))
                        yield M('note_on', note=i)
                mid = mido.MidiFile()
                mid.tracks.append(mido.MidiTrack(m.copy(time=1) for m in exp))
                for label, src in (('a generator', gen), ('iterating a MidiFile', lambda: iter(mid)),
                                   ('map over payloads', lambda: map(lambda i: M('sysex', data=payload(i)), range(count)))):
                    for plain in (False, True):
                        path = os.path.join(d, 'g.syx')
                        try:
                            mido.write_syx_file(path, src(), plaintext=plain)
                            got = mido.read_syx_file(path)
                        except Exception as e:
                            out.append(('on-the-fly', '%s of %d messages of %d bytes (plaintext=%r) raises %r' % (label, count, size, plain, e)))
                            continue
                        if [tuple(g.data) for g in got] != [tuple(e.data) for e in exp]:
                            which = [[i for i in range(count) if tuple(g.data) == payload(i)] for g in got]
                            out.append(('on-the-fly', '%s of %d messages of %d bytes (plaintext=%r): the file holds the payloads %r'
                                        % (label, count, size, plain, which)))
                if out:
                    return out[:3]
    finally:
        shutil.rmtree(d, ignore_errors=True)
    return out[:3]


# ---------------------------------------------------------------- C14: numbers printed before

def c14_numbers_printed_before():
    """The text of a message does not depend on what was printed before: whole numbers print as whole
    numbers also after an equal float time was printed (and the other way round the float still reads
    back equal)."""
    mido = _mido()
    M = mido.Message
    out = []
    vals = [128, 1000, 2000, 8191, 16383, 300, 4096, -1, -8192, 129, 255, 256, 5000]
    for first in ('float', 'int'):
        for v in vals:
            ms = [M('note_on', time=float(abs(v))), M('clock', time=float(v))]
            ints = []
            if -8192 <= v <= 8191:
                ints.append(M('pitchwheel', pitch=v, time=0))
            if 0 <= v <= 16383:
                ints.append(M('songpos', pos=v, time=0))
            ints.append(M('note_on', time=abs(v)))
            order = ms + ints if first == 'float' else ints + ms
            for m in order:
                try:
                    text = str(m)
                    r = M.from_str(text)
                except Exception as e:
                    out.append(('printed-before', 'with %s values printed first, str of %r is %r which does not read back: %r'
                                % (first, m, text, e)))
                    continue
                if r != m or type(r.time) is not type(m.time) and first == 'int' and isinstance(m.time, int):
                    out.append(('printed-before', 'with %s values printed first, %r reads back as %r' % (first, m, r)))
                try:
                    from mido.messages.strings import msg2str
                except Exception:
                    continue
    return out[:3]


# ---------------------------------------------------------------- C02: the device entry point, per API

def c02_device_apis():
    """What a device hands to the rtmidi callback is judged like any other sequence: one message or
    nothing - under every API of the library (the API is a property of the port, not of the bytes)."""
    mido = _mido()
    from .. import fakertmidi
    from . import c02
    c02.rtmidi_input()                      # installs the stand-in
    import mido.backends.rtmidi as backend
    out = []
    seqs = [[0xf0, 0xf7, 0], [0xf0, 1, 0xf7, 0], [0xf0, 1, 2, 0xf7] + [0] * 60, [0xf0, 0xf7], [0xf0, 1, 2, 0xf7], [0xf0, 1, 2],
            [0xf0, 0, 0, 0xf7], [0xf0, 0xf7, 0xf7], [0xf0, 1, 0xf7, 0xf8], [0x90, 1, 2, 0], [0x90, 1], [0xf8, 0], [0xf8],
            [0x90, 1, 2], [0xf0, 0x7e, 0xf7, 0, 0, 0], [0, 0xf0, 0xf7], [0xf7], [0xf1, 5], [0xf1, 5, 0], [0xfd], [0xf4]]
    # other ports of the same backend, opened with options of their own (names a filter or routing option
    # plausibly has; today they are absorbed by **kwargs), one left open and one closed again: what
    # one port was configured with is no business of another port
    others = []
    for kw in ({'channels': [9]}, {'channel': 9, 'types': ['clock']}, {'filter': (lambda m: False), 'ignore': True, 'queue_size': 1}):
        try:
            o = backend.Input('Fake Port 1', **kw)
            others.append(o)
        except Exception:
            pass
    if others:
        others.pop().close()
    for api in backend.get_api_names():
        for cb in (False, True):
            got_cb = []
            try:
                inp = backend.Input('Fake Port 0', api=api, callback=(got_cb.append if cb else None))
            except Exception as e:
                out.append(('device-api/%s' % api, 'opening an input with api=%r raises %r' % (api, e)))
                continue
            for items in seqs:
                try:
                    exp = [list(mido.Message.from_bytes(items).bytes())]
                except ValueError:
                    exp = []
                try:
                    inp._rt.deliver(items)
                    got = [list(m.bytes()) for m in (got_cb if cb else inp.iter_pending())]
                    del got_cb[:]
                except Exception as e:
                    out.append(('device-api/%s' % api, 'api %s: the callback raises %r for %r' % (api, e, items)))
                    continue
                if got != exp:
                    out.append(('device-api/%s' % api, 'api %s (%s): the device data %r was delivered as %r, from_bytes gives %r'
                                % (api, 'callback' if cb else 'queue', items, got, exp)))
            try:
                inp.close()
            except Exception:
                pass
    return out[:3]


# ---------------------------------------------------------------- C03: checked copies of unchecked messages

def c03_copy_of_unchecked():
    """A copy made without skip_checks is a checked message, whatever the original was: a value that
    the original got past the checks (skip_checks=True, the unchecked time of from_bytes) does not
    come out of copy(), merge_tracks() or from_dict() unnoticed."""
    mido = _mido()
    M = mido.Message
    out = []
    srcs = [('note_on velocity=300', lambda: M('note_on', velocity=300, skip_checks=True), {'time': 10}),
            ('note_on note=-1', lambda: M('note_on', note=-1, skip_checks=True), {'velocity': 1}),
            ('sysex data byte 200', lambda: M('sysex', data=(1, 200), skip_checks=True), {'time': 1}),
            ("from_bytes(time='soon')", lambda: M.from_bytes([0x90, 1, 2], time='soon'), {'note': 61}),
            ('pitchwheel pitch=9000', lambda: M('pitchwheel', pitch=9000, skip_checks=True), {'channel': 3}),
            ('control_change channel=16', lambda: M('control_change', channel=16, skip_checks=True), {'value': 1}),
            ('note_on note=1.5', lambda: M('note_on', note=1.5, skip_checks=True), {'time': 0})]
    for label, mk, over in srcs:
        try:
            src = mk()
        except Exception:
            continue            # the library refuses to build it at all: nothing to copy
        before = dict(vars(src))
        try:
            r = src.copy(**over)
        except (ValueError, TypeError):
            r = None
        except Exception as e:
            out.append(('unchecked-source/copy', '%s .copy(%r) raises %r' % (label, over, e)))
            continue
        if r is not None:
            out.append(('unchecked-source/copy', 'a checked copy(%r) of a message holding %s returned %s' % (over, label, core.srepr(vars(r)))))
        if dict(vars(src)) != before:
            out.append(('unchecked-source/copy', 'the refused copy changed the original (%s)' % label))
    bad = M('note_on', note=999, time=1, skip_checks=True)
    try:
        r = list(mido.merge_tracks([[M('note_on', time=1), bad]]))
        if any(getattr(m, 'note', 0) == 999 for m in r):
            out.append(('unchecked-source/merge', 'merge_tracks() without skip_checks handed out note=999'))
    except (ValueError, TypeError):
        pass
    return out[:3]


# ---------------------------------------------------------------- C13 / C16: shared objects, re-saving

def c13_shared_objects():
    """Cumulative times follow the POSITIONS of the events: the same message object at several
    positions (a bar repeated with *) counts at each of them."""
    mido = _mido()
    M, MM = mido.Message, mido.MetaMessage
    out = []
    on, off = M('note_on', note=60, time=10), M('note_off', note=60, time=20)
    tp = MM('set_tempo', tempo=250000, time=30)
    for name, tracks in (('[on, off] * 4', [[on, off] * 4]), ('[on, tempo, off] * 3', [[on, tp, off] * 3]),
                         ('two tracks sharing the objects', [[on, off] * 3, [off, on, off]])):
        mid = mido.MidiFile(type=1, ticks_per_beat=100)
        for t in tracks:
            mid.tracks.append(mido.MidiTrack(t))
        ev = []
        for ti, t in enumerate(tracks):
            now = 0
            for pi, m in enumerate(t):
                now += m.time
                ev.append((now, ti, pi, m))
        ev.sort(key=lambda x: x[:3])
        from fractions import Fraction
        tempo, last, sec, exp = 500000, 0, Fraction(0), []
        for tick, _, _, m in ev:
            sec += Fraction((tick - last) * tempo, 100 * 10 ** 6)
            last = tick
            if m.type == 'set_tempo':
                tempo = m.tempo
            exp.append((float(sec), m.type))
        for label, f in (('iteration', lambda: list(mid)), ('iteration again', lambda: list(mid)),
                         ('play', lambda: _played(mid))):
            try:
                got, acc = [], 0.0
                for m in f():
                    acc = acc + m.time if label != 'play' else m.time
                    if m.type != 'end_of_track':
                        got.append((acc, m.type))
            except Exception as e:
                out.append(('shared-objects', '%s of %s raises %r' % (label, name, e)))
                continue
            want = exp if label != 'play' else [e for e in exp if e[1] != 'set_tempo']
            if len(got) != len(want) or any(abs(a - b) > 1e-9 or x != y for (a, x), (b, y) in zip(got, want)):
                out.append(('shared-objects', '%s of %s: cumulative times %s, tempo map %s' % (label, name, core.srepr(got, 160), core.srepr(want, 160))))
        if abs(mid.length - exp[-1][0]) > 1e-9:
            out.append(('shared-objects', 'length of %s is %r, tempo map %r' % (name, mid.length, exp[-1][0])))
    return out[:3]


def _played(mid):
    import mido.midifiles.midifiles as mm
    v = [0.0]

    class T:
        @staticmethod
        def time():
            return v[0]

        @staticmethod
        def sleep(x):
            v[0] += x
    saved = mm.time
    mm.time = T
    try:
        # the time attribute of what is handed out = the clock reading when it was handed out
        return [m.copy(time=v[0]) for m in mid.play(now=T.time)]
    finally:
        mm.time = saved


def c16_resave_into_same_target():
    """After edits, save() writes the edited file - also into the buffer or the file (opened for
    update) that holds the earlier version, small and large tracks alike."""
    mido = _mido()
    M, MM = mido.Message, mido.MetaMessage
    out = []
    d = tempfile.mkdtemp(prefix='vf-x11-')
    try:
        for nbig in (5, 5000, 30000):
            mid = mido.MidiFile(type=1, ticks_per_beat=96)
            mid.tracks.append(mido.MidiTrack([M('note_on', note=i % 128, time=i % 3) for i in range(nbig)]))
            mid.tracks.append(mido.MidiTrack([MM('track_name', name='drums', time=0), M('note_on', channel=9, note=36, velocity=90, time=5)]))
            mid.tracks.append(mido.MidiTrack([MM('marker', text='old', time=1)]))
            buf = io.BytesIO()
            mid.save(file=buf)
            path = os.path.join(d, 'r.mid')
            mid.save(path)
            list(mid)
            # edits that keep every length
            mid.tracks[1][1].note = 38
            mid.tracks[1][0].name = 'DRUMS'
            mid.tracks[2][0] = MM('marker', text='new', time=1)
            mid.tracks[0][2].velocity = 99
            fresh = mido.MidiFile(type=1, ticks_per_beat=96)
            for t in mid.tracks:
                fresh.tracks.append(mido.MidiTrack(m.copy() for m in t))
            ref = io.BytesIO()
            fresh.save(file=ref)
            buf.seek(0)
            mid.save(file=buf)
            if buf.getvalue() != ref.getvalue():
                back = mido.MidiFile(file=io.BytesIO(buf.getvalue()))
                out.append(('resave/buffer', '%d-message first track: after edits, saving into the rewound buffer of the earlier save gives a file '
                            'whose last tracks read %s' % (nbig, core.srepr([list(t)[:2] for t in back.tracks[1:]], 200))))
            with open(path, 'r+b') as f:
                mid.save(file=f)
            with open(path, 'rb') as f:
                data = f.read()
            if data != ref.getvalue():
                out.append(('resave/r+b', '%d-message first track: after edits, saving into the file of the earlier save (r+b) differs from '
                            'a fresh save at byte %d' % (nbig, _firstdiff(data, ref.getvalue()))))
    except Exception as e:
        out.append(('resave/raises', repr(e)))
    finally:
        shutil.rmtree(d, ignore_errors=True)
    return out[:3]


# ---------------------------------------------------------------- C14: files as loaded

def c14_loaded_files():
    """eval(repr(file)) equals the file for files as the loader builds them, whatever the header says
    (SMPTE divisions give a negative ticks_per_beat, 0 is possible too)."""
    mido = _mido()
    from mido import Message, MetaMessage, MidiFile, MidiTrack, UnknownMetaMessage   # noqa: F401  (names for eval)
    out = []
    for div in (0xe728, 0xe250, 0x8000, 0xffff, 0x0000, 0x0001, 0x7fff):
        for typ in (0, 1, 2):
            track = bytes([0, 0x90, 1, 2, 5, 0xff, 0x2f, 0])
            data = (b'MThd' + (6).to_bytes(4, 'big') + typ.to_bytes(2, 'big') + (1).to_bytes(2, 'big') + div.to_bytes(2, 'big')
                    + b'MTrk' + len(track).to_bytes(4, 'big') + track)
            try:
                mid = mido.MidiFile(file=io.BytesIO(data))
            except Exception:
                continue           # refusing the file is another property's business
            try:
                text = repr(mid)
                back = eval(text)
            except Exception as e:
                out.append(('loaded-file', 'a file loaded from a header with division 0x%04x (ticks_per_beat=%r): eval(repr()) raises %r'
                            % (div, mid.ticks_per_beat, e)))
                continue
            if (back.type, back.ticks_per_beat, [list(t) for t in back.tracks]) != (mid.type, mid.ticks_per_beat, [list(t) for t in mid.tracks]):
                out.append(('loaded-file', 'division 0x%04x: eval(repr()) gave %s' % (div, core.srepr(back))))
    return out[:3]


# ---------------------------------------------------------------- C20: ports that rename themselves; Backend subclasses

def c20_ports_that_expand_their_name():
    """The explicit or environment port name reaches every constructor of the wrapped pair unchanged,
    also when the port objects rewrite their own .name while opening (as mido.backends.rtmidi does
    when it expands a partial name)."""
    import sys
    mido = _mido()
    from . import c20
    out = []
    REC = c20.REC
    saved_flags = (REC.native, REC.getdev, getattr(REC, 'expand', False))
    saved_env = {k: os.environ.get(k) for k in ('MIDO_DEFAULT_IOPORT', 'MIDO_DEFAULT_INPUT', 'MIDO_DEFAULT_OUTPUT', 'MIDO_BACKEND')}
    if c20._FINDER not in sys.meta_path:
        sys.meta_path.insert(0, c20._FINDER)
    try:
        for k in saved_env:
            os.environ.pop(k, None)
        REC.native, REC.getdev, REC.expand = False, True, True
        name = c20.MODNAMES['mod']
        for how in ('explicit', 'environment'):
            sys.modules.pop(name, None)
            REC.calls = []
            b = mido.Backend(name + '/NA', use_environ=True)
            if how == 'explicit':
                p = b.open_ioport('SH-201', extra=1)
            else:
                os.environ['MIDO_DEFAULT_IOPORT'] = 'SH-201'
                p = b.open_ioport(extra=1)
                os.environ.pop('MIDO_DEFAULT_IOPORT', None)
            got = [(c[1], c[2], c[3].get('api'), c[3].get('extra')) for c in REC.calls if c[1] in ('Input', 'Output', 'IOPort')]
            if got != [('Input', 'SH-201', 'NA', 1), ('Output', 'SH-201', 'NA', 1)]:
                out.append(('expanding-names/' + how, 'open_ioport with the %s name SH-201 constructed %r' % (how, got)))
    except Exception as e:
        out.append(('expanding-names/raises', repr(e)))
    finally:
        REC.native, REC.getdev, REC.expand = saved_flags
        for k, v in saved_env.items():
            if v is None:
                os.environ.pop(k, None)
            else:
                os.environ[k] = v
        for v in c20.MODNAMES.values():
            sys.modules.pop(v, None)
    return out[:3]


def c20_backend_objects_with_their_own_functions():
    """set_backend rebinds the top-level functions to the chosen backend: what mido.open_output is
    afterwards is what backend.open_output is - also for a Backend subclass or an object that
    carries its own functions."""
    import sys
    mido = _mido()
    from . import c20
    out = []
    saved = {k: getattr(mido, k) for k in dir(mido) if k.split('_')[0] in ('open', 'get') or k == 'backend'}
    if c20._FINDER not in sys.meta_path:
        sys.meta_path.insert(0, c20._FINDER)
    try:
        class Aliasing(mido.Backend):
            def open_output(self, name=None, **kwargs):
                return ('aliased', {'synth': 'Real Synth 20:0'}.get(name, name))

            def get_input_names(self, **kwargs):
                return ['only-this-one']
        b = Aliasing(c20.MODNAMES['mod'])
        mido.set_backend(b)
        r1, r2 = mido.open_output('synth'), mido.get_input_names()
        if r1 != ('aliased', 'Real Synth 20:0') or r2 != ['only-this-one']:
            out.append(('own-functions/subclass', 'after set_backend(subclass object) mido.open_output("synth") returned %s and '
                        'mido.get_input_names() %r; the object itself returns %r / %r' % (core.srepr(r1), r2, b.open_output('synth'), b.get_input_names())))
        b2 = mido.Backend(c20.MODNAMES['mod'])
        b2.open_input = lambda name=None, **kw: ('instance', name)
        mido.set_backend(b2)
        if mido.open_input('k') != ('instance', 'k'):
            out.append(('own-functions/instance', 'after set_backend(object with its own open_input) mido.open_input("k") returned %s'
                        % core.srepr(mido.open_input('k'))))
    except Exception as e:
        out.append(('own-functions/raises', repr(e)))
    finally:
        for k in [k for k in dir(mido) if k.split('_')[0] in ('open', 'get') and k not in saved]:
            delattr(mido, k)
        for k, v in saved.items():
            setattr(mido, k, v)
        for v in c20.MODNAMES.values():
            sys.modules.pop(v, None)
    return out[:3]


# ---------------------------------------------------------------- C18 / C11: real TCP - several source addresses, urgent data

def _tcp_server():
    from mido.sockets import PortServer
    try:
        return PortServer('127.0.0.1', 0)
    except OSError:
        return None


def _client_from(host, portno):
    """A plain TCP client bound to a chosen loopback source address (127/8 is all local on Linux)."""
    import socket
    s = socket.socket(socket.AF_INET, socket.SOCK_STREAM)
    s.settimeout(8)
    s.bind((host, 0))
    s.connect(('127.0.0.1', portno))
    return s


def _with_deadline(f, seconds=8.0):
    """Run f() in a thread; (True, result) or (False, None) if it did not come back in time."""
    import threading
    box = []

    def run():
        try:
            box.append(('ok', f()))
        except BaseException as e:
            box.append(('exc', e))
    t = threading.Thread(target=run, daemon=True)
    t.start()
    t.join(seconds)
    if not box:
        return False, None
    if box[0][0] == 'exc':
        raise box[0][1]
    return True, box[0][1]


def c18_clients_from_several_hosts():
    """A server port hands out the messages of ALL its clients - whatever addresses they connect
    from and in whatever order (two hosts, connections X Y X; three hosts)."""
    import time
    mido = _mido()
    out = []
    for hosts in (['127.0.0.2', '127.0.0.3', '127.0.0.2'], ['127.0.0.2', '127.0.0.3', '127.0.0.4', '127.0.0.3', '127.0.0.2'],
                  ['127.0.0.5', '127.0.0.5', '127.0.0.6']):
        server = _tcp_server()
        if server is None:
            return out
        socks = []
        try:
            portno = server._socket.getsockname()[1]
            try:
                for h in hosts:
                    socks.append(_client_from(h, portno))
                    ok, _ = _with_deadline(lambda: [server.poll() for _ in range(3)])
                    if not ok:
                        out.append(('hosts/poll-blocks', 'PortServer.poll() blocks while clients connect from %r' % (hosts,)))
                        return out
            except OSError:
                return out          # no second loopback address here
            for i, s in enumerate(socks):
                s.sendall(bytes([0x90 + i, 10 + i, 1, 0x90 + i, 20 + i, 2]))
            got, deadline = [], time.time() + 5
            while len(got) < 2 * len(socks) and time.time() < deadline:
                ok, m = _with_deadline(server.poll)
                if not ok:
                    out.append(('hosts/poll-blocks', 'PortServer.poll() blocks with clients from %r' % (hosts,)))
                    return out
                if m is not None:
                    got.append(m)
                else:
                    time.sleep(0.01)
            per = {i: [m.note for m in got if m.channel == i] for i in range(len(socks))}
            if any(per[i] != [10 + i, 20 + i] for i in per):
                out.append(('hosts/lost', 'clients connected from %r each sent two messages; the server handed out %r (per connection)'
                            % (hosts, per)))
            # a client that leaves is noticed, the others keep being served
            socks[0].close()
            socks[-1].sendall(bytes([0x80, 1, 1]))
            got, deadline = [], time.time() + 3
            while not got and time.time() < deadline:
                ok, m = _with_deadline(server.poll)
                if ok and m is not None:
                    got.append(m)
            if [m.type for m in got] != ['note_off']:
                out.append(('hosts/after-leave', 'after the first of %r left, the message of the last was not handed out (%r)' % (hosts, got)))
        except Exception as e:
            out.append(('hosts/raises', repr(e)))
        finally:
            for s in socks:
                try:
                    s.close()
                except Exception:
                    pass
            try:
                server.close()
            except Exception:
                pass
    return out[:3]


def _urgent(pid_key):
    """Urgent (out-of-band) TCP data is not part of the MIDI stream: a non-blocking receive never
    waits for it, and the messages around it come out."""
    import socket
    import time
    mido = _mido()
    from mido.sockets import connect
    out = []
    server = _tcp_server()
    if server is None:
        return out
    cl = raw = None
    try:
        portno = server._socket.getsockname()[1]
        raw = socket.create_connection(('127.0.0.1', portno), timeout=8)
        for _ in range(3):
            server.poll()
        raw.sendall(bytes([0x90, 1, 2]))
        raw.send(b'!', socket.MSG_OOB)
        time.sleep(0.05)
        got = []
        for k in range(4):
            ok, m = _with_deadline(server.poll, 4.0)
            if not ok:
                out.append((pid_key + '/server', 'PortServer.poll() does not return after a client sent one byte of urgent (out-of-band) data'))
                raw.sendall(bytes([0xf8]))      # let the stuck reader go
                return out
            if m is not None:
                got.append(m)
        raw.sendall(bytes([0x80, 1, 0]))
        time.sleep(0.05)
        for k in range(4):
            ok, m = _with_deadline(server.poll, 4.0)
            if not ok:
                out.append((pid_key + '/server', 'PortServer.poll() does not return after urgent data and a message'))
                raw.sendall(bytes([0xf8]))
                return out
            if m is not None:
                got.append(m)
        if [m.type for m in got if m.type in ('note_on', 'note_off')] != ['note_on', 'note_off']:
            out.append((pid_key + '/server', 'around one byte of urgent data the server handed out %s' % core.srepr(got)))
        # the client side
        lst = socket.socket(socket.AF_INET, socket.SOCK_STREAM)
        lst.bind(('127.0.0.1', 0))
        lst.listen(1)
        cl = connect('127.0.0.1', lst.getsockname()[1])
        peer, _ = lst.accept()
        lst.close()
        peer.send(b'!', socket.MSG_OOB)
        time.sleep(0.05)
        for call, f in (('poll()', cl.poll), ('receive(block=False)', lambda: cl.receive(block=False)),
                        ('iter_pending()', lambda: list(cl.iter_pending()))):
            ok, m = _with_deadline(f, 4.0)
            if not ok:
                out.append((pid_key + '/client', 'SocketPort.%s does not return after the peer sent one byte of urgent data' % call))
                peer.sendall(bytes([0xf8]))
                break
        peer.close()
    except OSError:
        pass
    except Exception as e:
        out.append((pid_key + '/raises', repr(e)))
    finally:
        for s in (raw, cl, server):
            try:
                if s is not None:
                    s.close()
            except Exception:
                pass
    return out[:3]


def c18_urgent_data():
    return _urgent('urgent-data')


def c11_urgent_data():
    return _urgent('urgent-data')


# ---------------------------------------------------------------- C15: buffers handed in again; times kept exactly

def c15_buffers_handed_in_again():
    """copy(data=...) behaves like a fresh constructor EVERY time: a list or bytearray that was
    accepted once and has been changed since is judged by what it holds now."""
    mido = _mido()
    import array
    from mido.frozen import freeze_message
    M, MM = mido.Message, mido.MetaMessage
    out = []
    for cls_label, src in (('Message', M('sysex', data=(1,))), ('FrozenMessage', freeze_message(M('sysex', data=(1,)))),
                           ('MetaMessage', MM('sequencer_specific', data=(1,))),
                           ('UnknownMetaMessage', mido.UnknownMetaMessage(0x60, data=(1,)))):
        for mk in (lambda: [1, 2, 3], lambda: bytearray([1, 2, 3]), lambda: array.array('h', [1, 2, 3])):
            buf = mk()
            try:
                a = src.copy(data=buf)
                other = M('sysex', data=(9,)).copy(data=buf) if cls_label.endswith('Message') and 'Meta' not in cls_label else a
                buf[1] = 100
                b = src.copy(data=buf)
            except Exception as e:
                out.append(('buffer-again', '%s.copy(data=%s) raises %r' % (cls_label, type(buf).__name__, e)))
                continue
            if tuple(a.data) != (1, 2, 3) or tuple(b.data) != (1, 100, 3) or tuple(other.data) != (1, 2, 3):
                out.append(('buffer-again', '%s.copy(data=<the same %s, changed in between>) gave %r then %r'
                            % (cls_label, type(buf).__name__, tuple(a.data), tuple(b.data))))
            # ... and refused when it holds something invalid now, like the constructor refuses it
            bad = 200 if not isinstance(buf, array.array) else 300
            try:
                buf[0] = bad
            except (ValueError, OverflowError):
                continue
            if cls_label in ('Message', 'FrozenMessage'):
                try:
                    M('sysex', data=buf)
                    fresh_ok = True
                except (ValueError, TypeError):
                    fresh_ok = False
                try:
                    c = src.copy(data=buf)
                    copy_ok = True
                except (ValueError, TypeError):
                    copy_ok = False
                if copy_ok != fresh_ok:
                    out.append(('buffer-again', "%s.copy(data=<a %s accepted before, now holding %d>) %s; Message('sysex', data=...) %s"
                                % (cls_label, type(buf).__name__, bad, 'returned %s' % core.srepr(tuple(c.data)) if copy_ok else 'raises',
                                   'accepts it' if fresh_ok else 'raises')))
    return out[:3]


def c15_times_kept_exactly():
    """copy(time=t) equals a freshly constructed message with that time: the time is t itself - with
    and without skip_checks, alone or with other overrides, for every class and their frozen twins."""
    mido = _mido()
    from fractions import Fraction
    from mido.frozen import freeze_message, thaw_message
    M, MM = mido.Message, mido.MetaMessage
    out = []
    times = [1 / 3, 0.1 + 0.2, 0.0010416666666666667, 1e-12, 123456.12345678912, -2 / 3, 5e-324, 1.0000000001, 2 ** 53 + 1.0,
             Fraction(1, 3), 10 ** 30, True, float('inf')]
    srcs = [M('note_on', note=5), M('sysex', data=(1, 2)), M('clock'), MM('set_tempo', tempo=5), MM('text', text='x'),
            mido.UnknownMetaMessage(0x60, data=(1,))]
    srcs += [freeze_message(m) for m in list(srcs)] + [thaw_message(freeze_message(srcs[0]))]
    for src in srcs:
        for t in times:
            for kw in ({}, {'skip_checks': True}):
                try:
                    c = src.copy(time=t, **kw)
                    c2 = src.copy(time=t, **dict(kw, **({'note': 6} if src.type == 'note_on' else {})))
                except Exception as e:
                    out.append(('time-kept', '%s.copy(time=%r, %r) raises %r' % (type(src).__name__, t, kw, e)))
                    continue
                for got in (c, c2):
                    if not (got.time == t and type(got.time) is type(t)) or type(got) is not type(src):
                        out.append(('time-kept', '%s %s .copy(time=%r%s) has time %r' % (type(src).__name__, src.type, t,
                                    ', skip_checks=True' if kw else '', got.time)))
                        break
                if c.copy(time=src.time) != src:
                    out.append(('time-kept', '%s: copy(time=%r) changed something else: %s' % (src, t, core.srepr(c))))
        if src.time != 0:
            out.append(('time-kept', 'the original changed'))
    return out[:3]


def c09_after_with_blocks():
    """The default text encoding of the meta codec (latin1) is what encodes and decodes text outside a
    MidiFile call - also after MidiFile objects were used as context managers."""
    return c17_with_blocks()


# ---------------------------------------------------------------- C08 / C16: where save() writes (SaveTarget.tla)

class _RecTarget(io.BytesIO):
    """A seekable target that records what save() does to it."""

    def __init__(self, old, start):
        io.BytesIO.__init__(self, old)
        io.BytesIO.seek(self, start)
        self.log = [{'a': 'begin', 'p': start, 'old': len(old)}]

    def write(self, b):
        n = io.BytesIO.write(self, b)
        self.log.append({'a': 'write', 'n': len(b), 'p': io.BytesIO.tell(self)})
        return n

    def writelines(self, lines):
        for ln in lines:
            self.write(ln)

    def seek(self, off, whence=0):
        r = io.BytesIO.seek(self, off, whence)
        self.log.append({'a': 'seek', 'p': io.BytesIO.tell(self)})
        return r

    def tell(self):
        p = io.BytesIO.tell(self)
        self.log.append({'a': 'tell', 'p': p})
        return p

    def truncate(self, size=None):
        self.log.append({'a': 'truncate', 'p': io.BytesIO.tell(self)})
        return io.BytesIO.truncate(self, size)

    def close(self):
        self.log.append({'a': 'close', 'p': 0})

    def flush(self):
        pass


_TARGET_CFG = """SPECIFICATION Spec
CONSTANTS
 MaxOld = 3
 MaxWrite = 2
 MaxOps = 4
 Discipline = %s
INVARIANT Contiguous
INVARIANT NoHoles
CHECK_DEADLOCK FALSE
"""


def c08_where_save_writes(ctx=None):
    """SaveTarget.tla: the file is ONE contiguous region of the target, beginning where the target was
    handed over; a writer may go back inside what it wrote, never relative to the end of the target
    (TLC: the design with end-relative seeks violates Contiguous).  The write / seek / tell calls of
    real saves - small and large tracks, targets holding longer, shorter or no content, at offset 0 or
    inside a container - are validated against it by TLC (SaveTargetTrace)."""
    mido = _mido()
    M, MM = mido.Message, mido.MetaMessage
    out = []
    if ctx is None:
        ctx = core.Ctx('C08', 'quick', 0)
    res = core.run_tlc('SaveTarget', _TARGET_CFG % 'TRUE', timeout=600)
    ctx.add_tlc(res, 'SaveTarget Discipline=TRUE')
    if not res.ok:
        raise core.Machinery('SaveTarget with Discipline=TRUE should satisfy Contiguous: %r' % (res.error,))
    res = core.run_tlc('SaveTarget', _TARGET_CFG % 'FALSE', timeout=600, expect_error=True)
    ctx.add_tlc(res, 'SaveTarget Discipline=FALSE (expected to violate Contiguous)')
    if res.ok or 'Contiguous' not in (res.error or ''):
        raise core.Machinery('SaveTarget with end-relative seeks should violate Contiguous: %r' % (res.error,))
    traces, labels, late = [], [], []
    for nbig in (2, 700, 4096, 30000):
        for ntracks in (1, 3):
            mid = mido.MidiFile(type=1, ticks_per_beat=96)
            mid.tracks.append(mido.MidiTrack([M('note_on', note=i % 128, time=i % 3) for i in range(nbig)]))
            for k in range(ntracks - 1):
                mid.tracks.append(mido.MidiTrack([MM('marker', text='t%d' % k, time=0), M('note_on', note=k, time=1)]))
            ref = io.BytesIO()
            mid.save(file=ref)
            ref = ref.getvalue()
            for oldlen, start in ((0, 0), (len(ref) + 1000, 0), (len(ref) // 2, 0), (len(ref) + 50, 4), (4, 4), (len(ref), 0)):
                t = _RecTarget(b'\xaa' * oldlen, start)
                label = '%d-message track + %d tracks into a target holding %d bytes, at offset %d' % (nbig, ntracks - 1, oldlen, start)
                try:
                    mid.save(file=t)
                except Exception as e:
                    out.append(('target/raises', '%s: %r' % (label, e)))
                    continue
                t.log.append({'a': 'end', 'p': io.BytesIO.tell(t)})
                traces.append(list(t.log))      # (a copy: the object's finaliser calls close())
                labels.append(label)
                if io.BytesIO.getvalue(t)[start:start + len(ref)] != ref:
                    late.append(('target/bytes', '%s: the region written differs from a save into a fresh target' % label))
    for idx, line in core.validate_batch(ctx, 'SaveTargetTrace', traces, label='SaveTargetTrace'):
        ev = traces[idx][line - 1] if 0 < line <= len(traces[idx]) else None
        out.append(('target/' + (ev or {}).get('a', '?'), '%s: call %d of save() on its target is not allowed by SaveTarget: %r '
                    '(start %d, before it: %r)' % (labels[idx], line, ev, traces[idx][0]['p'], traces[idx][max(0, line - 3):line - 1])))
    return out[:3] + late[:2]


def c16_where_save_writes(ctx=None):
    return c08_where_save_writes(ctx)


# ---------------------------------------------------------------- wiring

def run(ctx, pid, module=None):
    """Called by the cli after the check of `pid`: every function named c<NN>_* of this module (or of
    `module`: extra12)."""
    pre = pid.lower() + '_'
    ns = vars(module) if module is not None else globals()
    tag = 'x12' if module is not None else 'x11'
    if module is None and pid in ('C03', 'C04', 'C05', 'C06', 'C10', 'C17', 'C18'):
        # two threads at statement granularity (the other checks call these themselves)
        from .. import conc
        conc.run_scenarios(ctx, pid, 2 if ctx.tier == 'thorough' else 1)
        if pid in conc.FIRST_USE:
            conc.first_use(ctx, pid, 120 if ctx.tier == 'thorough' else 40)
    for name in sorted(ns):
        if name.startswith(pre) and callable(ns[name]):
            fn = ns[name]
            try:
                # under a deadline: a library call that never returns (a lock left held by an earlier
                # failure) is a finding, and nothing after it in this process can be trusted
                ok, found = _with_deadline((lambda: fn(ctx)) if fn.__code__.co_argcount else fn, 180.0)
                if not ok:
                    ctx.violation('%s/%s/does-not-return' % (tag, name[4:]), {'kind': 'extra11', 'name': name, 'module': tag},
                                  'the sub-check %s did not return within 180 s (a library call blocks)' % name)
                    break
            except core.Machinery:
                raise
            except Exception as e:
                found = [('crash', '%s: %r' % (name, e))]
            ctx.replayed += 1
            ctx.count('extra11_subchecks', 1)
            for key, detail in found:
                ctx.violation('%s/%s/%s' % (tag, name[4:], key), {'kind': 'extra11', 'name': name, 'module': tag}, detail)


def replay(case):
    if case.get('module') == 'x12':
        from . import extra12
        fn = getattr(extra12, case['name'])
    else:
        fn = globals()[case['name']]
    found = fn(None) if fn.__code__.co_argcount else fn()
    return found[0][1] if found else None
