"""Driver-level sub-checks added in the twelfth round of seeded changes (same conventions as
extra11: functions named c<NN>_* return (key, detail) findings for property C<NN>)."""
import gc
import io
import os
import shutil
import tempfile

from .. import core
from .extra11 import _mido, _with_deadline, _tcp_server, _default_probe, _firstdiff   # noqa: F401


# ---------------------------------------------------------------- C01 / C07 / C14: the order in which attributes were given

def _orders(kw):
    ks = list(kw)
    yield {k: kw[k] for k in reversed(ks)}
    yield {k: kw[k] for k in ks[1:] + ks[:1]}
    yield {k: kw[k] for k in sorted(ks)}
    yield {k: kw[k] for k in sorted(ks, reverse=True)}


_FULL = [('note_on', dict(channel=9, note=36, velocity=100, time=0)), ('note_off', dict(channel=1, note=2, velocity=3, time=4)),
         ('polytouch', dict(channel=2, note=60, value=100, time=1)), ('control_change', dict(channel=3, control=7, value=99, time=2)),
         ('program_change', dict(channel=4, program=5, time=0)), ('pitchwheel', dict(channel=5, pitch=-100, time=0)),
         ('quarter_frame', dict(frame_type=3, frame_value=9, time=0)), ('songpos', dict(pos=300, time=0)),
         ('aftertouch', dict(channel=6, value=7, time=0)), ('sysex', dict(data=(1, 2), time=3))]


def c01_keyword_order():
    """The encoding is fixed by type and attribute VALUES: the order in which the attributes were
    given (constructor keywords, dict items, words of the text, overrides of a copy) does not show."""
    mido = _mido()
    M = mido.Message
    out = []
    for typ, kw in _FULL:
        ref = M(typ, **kw)
        refb = ref.bytes()
        for o in _orders(kw):
            partial = {k: v for k, v in o.items() if k != 'time'}
            for how, mk in (('constructor', lambda: M(typ, **o)), ('constructor, no time', lambda: M(typ, **partial).copy(time=kw['time'])),
                            ('from_dict', lambda: M.from_dict(dict(o, type=typ))),
                            ('from_dict, type last', lambda: M.from_dict(dict(list(o.items()) + [('type', typ)]))),
                            ('from_str', lambda: M.from_str(typ + ' ' + ' '.join(
                                '%s=%s' % (k, ('(' + ','.join(map(str, v)) + ')') if isinstance(v, tuple) else v) for k, v in o.items()))),
                            ('copy', lambda: M(typ).copy(**o)), ('assignment', lambda: _assign_all(M(typ), o)),
                            ('frozen', lambda: mido.frozen.freeze_message(M(typ, **o))),
                            ('pickle', lambda: __import__('pickle').loads(__import__('pickle').dumps(M(typ, **o))))):
                try:
                    m = mk()
                    b = m.bytes()
                    back = M.from_bytes(b, time=kw['time'])
                except Exception as e:
                    out.append(('keyword-order/' + typ, '%s with the attributes in the order %r: %r' % (how, list(o), e)))
                    continue
                if b != refb or back != ref or m != ref or list(m.bin()) != refb or m.hex() != ref.hex():
                    out.append(('keyword-order/' + typ, '%s with the attributes in the order %r encodes to %r (in the documented order: %r)'
                                % (how, list(o), b, refb)))
    return out[:4]


def _assign_all(m, o):
    for k, v in o.items():
        setattr(m, k, v)
    return m


def c07_keyword_order():
    """What a file stores does not depend on the order in which a message's attributes were given."""
    mido = _mido()
    import mido.frozen  # noqa: F401
    M, MM = mido.Message, mido.MetaMessage
    out = []
    metas = [('time_signature', dict(numerator=3, denominator=8, clocks_per_click=12, notated_32nd_notes_per_beat=4, time=1)),
             ('smpte_offset', dict(frame_rate=25, hours=1, minutes=2, seconds=3, frames=4, sub_frames=5, time=0)),
             ('key_signature', dict(key='Bb', time=2)), ('set_tempo', dict(tempo=123456, time=3))]
    for cls, table in ((M, _FULL), (MM, metas)):
        for typ, kw in table:
            ref = cls(typ, **kw)
            for o in _orders(kw):
                for how, mk in (('constructor', lambda: cls(typ, **o)), ('from_dict', lambda: cls.from_dict(dict(o, type=typ))) if cls is M
                                else ('copy', lambda: cls(typ).copy(**o)), ('assignment', lambda: _assign_all(cls(typ), o))):
                    try:
                        m = mk()
                        mid = mido.MidiFile()
                        mid.tracks.append(mido.MidiTrack([m, m.copy(time=0), MM('end_of_track', time=0)]))
                        buf = io.BytesIO()
                        mid.save(file=buf)
                        back = mido.MidiFile(file=io.BytesIO(buf.getvalue())).tracks[0]
                    except Exception as e:
                        out.append(('keyword-order/' + typ, '%s in the order %r: %r' % (how, list(o), e)))
                        continue
                    if list(back)[:2] != [ref, ref.copy(time=0)]:
                        out.append(('keyword-order/' + typ, 'a %s built by %s with the attributes in the order %r is stored as %s'
                                    % (typ, how, list(o), core.srepr(list(back)[:2]))))
    return out[:3]


def c01_frozen_decoders():
    """from_bytes / from_hex are class methods: the frozen classes decode like Message does - with a
    time too."""
    mido = _mido()
    from mido.frozen import FrozenMessage, freeze_message
    out = []
    for typ, kw in _FULL:
        for t in (0, 5, 1.5, True):
            m = mido.Message(typ, **dict(kw, time=t))
            for how, f in (('from_bytes', lambda: FrozenMessage.from_bytes(m.bytes(), time=t)),
                           ('from_bytes positional', lambda: FrozenMessage.from_bytes(m.bin(), t)),
                           ('from_hex', lambda: FrozenMessage.from_hex(m.hex(), time=t))):
                try:
                    r = f()
                except Exception as e:
                    out.append(('frozen-decoder', 'FrozenMessage.%s of %s with time=%r raises %r' % (how, m, t, e)))
                    continue
                if r != m or type(r) is not FrozenMessage or hash(r) != hash(freeze_message(m)) or r.bytes() != m.bytes():
                    out.append(('frozen-decoder', 'FrozenMessage.%s of %s with time=%r gave %s' % (how, m, t, core.srepr(r))))
    return out[:3]


# ---------------------------------------------------------------- C02: long inputs in bytes-like carriers

def c02_long_carriers():
    """A long sysex followed by ONE more item is not one message - whatever the item and whatever
    carries the bytes."""
    mido = _mido()
    import array
    M = mido.Message
    out = []
    for n in (0, 1, 30, 61, 62, 63, 64, 200, 5000):
        body = [0xf0] + [(7 * i) % 128 for i in range(n)] + [0xf7]
        for extra in (None, 0x0a, 0x0d, 0x00, 0x20, 0x7f, 0xf7, 0xf8, 0x85, 0xff):
            items = body + ([] if extra is None else [extra])
            for label, carrier in (('list', items), ('bytes', bytes(items)), ('bytearray', bytearray(items)),
                                   ('memoryview', memoryview(bytes(items))), ('array', array.array('B', items))):
                ways = [('from_bytes', lambda: M.from_bytes(carrier))]
                if label == 'bytes':
                    ways.append(('from_hex', lambda: M.from_hex(' '.join('%02X' % b for b in items))))
                    ways.append(('from_hex lines', lambda: M.from_hex('\n'.join('%02X' % b for b in items))))
                for how, f in ways:
                    try:
                        r = f()
                    except ValueError:
                        r = None
                    except Exception as e:
                        out.append(('long-carrier', '%s(%s of %d items ending %r) raises %r' % (how, label, len(items), items[-2:], e)))
                        continue
                    if extra is None:
                        if r is None or r.bytes() != items:
                            out.append(('long-carrier', '%s(%s): a %d-byte sysex was %s' % (how, label, n, 'refused' if r is None else 'changed')))
                    elif r is not None:
                        out.append(('long-carrier', '%s(%s): a %d-byte sysex followed by 0x%02x was accepted as %d bytes'
                                    % (how, label, n, extra, len(r.bytes()))))
    return out[:3]


# ---------------------------------------------------------------- C03: reading a message does not change it

def c03_readers_change_nothing():
    """A message's type and set of attributes can never change: none of the operations that only READ
    a message - hash, str, repr, format_as_string with and without time, dict, bytes, hex, len,
    comparison, copy, freeze, pickling, is_cc ... - leaves a trace in it."""
    mido = _mido()
    import copy as _copy
    import pickle
    from mido.frozen import freeze_message, thaw_message
    M, MM = mido.Message, mido.MetaMessage
    out = []
    srcs = [M('note_on', note=60, time=1), M('sysex', data=tuple(range(40)), time=2), M('sysex', data=(1,), time=0), M('clock', time=3),
            M('control_change', control=7, time=0.5), MM('sequencer_specific', data=tuple(range(50)), time=1), MM('text', text='x' * 40, time=2),
            mido.UnknownMetaMessage(0x60, data=tuple(range(33)), time=0), MM('set_tempo', tempo=1, time=9)]
    srcs += [freeze_message(m) for m in list(srcs)]
    readers = [('hash', lambda m: hash(m) if type(m).__name__.startswith('Frozen') else None), ('str', str), ('repr', repr),
               ('format_as_string', lambda m: mido.format_as_string(m) if isinstance(m, M) else None),
               ('format_as_string(include_time=False)', lambda m: mido.format_as_string(m, include_time=False) if isinstance(m, M) else None),
               ('dict', lambda m: m.dict()), ('bytes', lambda m: m.bytes()), ('bin', lambda m: m.bin()), ('hex', lambda m: m.hex()),
               ('len', lambda m: len(m) if isinstance(m, M) else None), ('==', lambda m: m == m.copy()), ('copy', lambda m: m.copy()),
               ('copy(time=)', lambda m: m.copy(time=1)), ('freeze', freeze_message), ('thaw', thaw_message),
               ('pickle', lambda m: pickle.dumps(m)), ('deepcopy', _copy.deepcopy), ('is_cc', lambda m: m.is_cc()),
               ('is_realtime', lambda m: m.is_realtime), ('is_meta', lambda m: m.is_meta), ('in a set', lambda m: {m} if 'Frozen' in type(m).__name__ else None),
               ('vars', lambda m: sorted(vars(m))), ('dir', dir)]
    for src in srcs:
        twin = thaw_message(src) if 'Frozen' in type(src).__name__ else src.copy()
        for name, rd in readers:
            before = dict(vars(src))
            keys = list(vars(src))
            try:
                rd(src)
            except Exception as e:
                out.append(('reader/' + name, '%s of %s raises %r' % (name, core.srepr(src, 80), e)))
                continue
            after = dict(vars(src))
            if after != before or list(after) != keys:
                out.append(('reader/' + name, '%s changed the attributes of %s %s: %s' % (
                    name, type(src).__name__, src.type, core.srepr(sorted(set(after) ^ set(before)) or
                                                                  [(k, before[k], after[k]) for k in before if before[k] != after.get(k)], 120))))
                break
        else:
            try:
                ok = src == twin and thaw_message(src) == twin and twin.copy(time=src.time) == twin
                t2 = thaw_message(src)
                ok = ok and sorted(vars(t2)) == sorted(vars(twin))
                if isinstance(src, M):
                    ok = ok and M.from_dict(src.dict()) == twin
            except Exception as e:
                out.append(('reader/afterwards', 'after every reader, %s: %r' % (core.srepr(src, 80), e)))
                continue
            if not ok:
                out.append(('reader/afterwards', 'after every reader %s no longer equals its twin %s' % (core.srepr(vars(src), 120), core.srepr(twin, 80))))
    return out[:3]


# ---------------------------------------------------------------- C04 / C05 / C06: streams

KNOWN_SYSEX = [
    (0x7f, 0x7f, 0x01, 0x01, 0x21, 0x02, 0x03, 0x04),        # MTC full message
    (0x7f, 0x7f, 0x06, 0x01), (0x7f, 0x7f, 0x06, 0x02),      # MMC stop / play
    (0x7e, 0x7f, 0x09, 0x01), (0x7e, 0x7f, 0x09, 0x03),      # GM on / GM2 on
    (0x7f, 0x7f, 0x04, 0x01, 0x00, 0x7f),                    # master volume
    (0x7e, 0x7f, 0x06, 0x01), (0x7e, 0x00, 0x06, 0x02, 0x41, 0x00, 0x00, 0x00, 0x00, 0x00, 0x00, 0x00, 0x00),   # identity request / reply
    (0x7f, 0x7f, 0x01, 0x02, 0x00, 0x00, 0x00, 0x00, 0x00, 0x00, 0x00, 0x00, 0x00),     # MTC user bits
    (0x41, 0x10, 0x42, 0x12, 0x40, 0x00, 0x7f, 0x00, 0x41),  # GS reset
    (0x43, 0x10, 0x4c, 0x00, 0x00, 0x7e, 0x00),              # XG on
    (0x7e, 0x7f, 0x08, 0x02, 0x00), (0x7f, 0x7f, 0x02, 0x01, 0x00), (0x7e, 0x7f, 0x7c, 0x00), (0x7e, 0x7f, 0x7b, 0x00),
    (0x7f, 0x00, 0x01, 0x01, 0x61, 0x3b, 0x3b, 0x1d), (0x7f, 0x10, 0x01, 0x01, 0x00, 0x00, 0x00, 0x00),
]


def c04_known_messages_in_order():
    """What comes out is a subsequence of what went in, IN ORDER: well-known system exclusive messages
    (MTC full frame, MMC, GM on, master volume, identity, GS / XG reset ...) and every other message keep
    their place among the messages around them - also when nothing has been read for a while."""
    mido = _mido()
    from mido.backends._parser_queue import ParserQueue
    M = mido.Message
    out = []
    around = [M('note_on', channel=0, note=0x40, velocity=0x50), M('program_change', program=1), M('songpos', pos=5),
              M('control_change', control=7, value=1)]
    for k, payload in enumerate(KNOWN_SYSEX):
        sx = M('sysex', data=payload)
        seq = around[:1 + k % 4] + [sx] + around[k % 3:] + [sx, around[0]]
        stream = [b for m in seq for b in m.bytes()]
        for name, f in (('parse_all', lambda: mido.parse_all(stream)), ('Parser.feed then read', lambda: _feed_then_read(mido, stream)),
                        ('Parser.feed_byte then read', lambda: _feed_then_read(mido, stream, bytewise=True)),
                        ('ParserQueue', lambda: _queue_read(ParserQueue, stream)), ('read after each', lambda: _read_each(mido, seq))):
            try:
                got = f()
            except Exception as e:
                out.append(('order/' + name, '%s raises %r' % (name, e)))
                continue
            if got != seq:
                out.append(('order/' + name, '%s: the stream %s came out as %s' % (name, core.srepr([str(m) for m in seq], 200),
                                                                                  core.srepr([str(m) for m in got], 200))))
    return out[:3]


def _feed_then_read(mido, stream, bytewise=False):
    p = mido.Parser()
    if bytewise:
        for b in stream:
            p.feed_byte(b)
    else:
        p.feed(stream)
    got = [p.get_message()]
    got += list(p)
    return [g for g in got if g is not None]


def _queue_read(ParserQueue, stream):
    q = ParserQueue()
    q.put_bytes(stream)
    return list(q.iterpoll())


def _read_each(mido, seq):
    p = mido.Parser()
    got = []
    for i, m in enumerate(seq):
        p.feed(m.bytes())
        if i % 3 == 2:
            got += list(p)
    return got + list(p)


def c05_decoded_before_elsewhere():
    """What a parser hands out is a function of the bytes it was fed - not of what was decoded from
    equal bytes elsewhere before (a file loaded with delta times, from_bytes with a time)."""
    mido = _mido()
    M, MM = mido.Message, mido.MetaMessage
    out = []
    msgs = [M('note_on', channel=c, note=60 + c, velocity=64) for c in range(3)] + [M('program_change', program=9), M('pitchwheel', pitch=5),
                                                                                   M('songpos', pos=9), M('sysex', data=(1, 2)), M('clock')]
    mid = mido.MidiFile()
    mid.tracks.append(mido.MidiTrack([m.copy(time=480 + i) for i, m in enumerate(msgs) if m.type not in ('songpos', 'clock')]))
    buf = io.BytesIO()
    mid.save(file=buf)
    mido.MidiFile(file=io.BytesIO(buf.getvalue()))
    for m in msgs:
        M.from_bytes(m.bytes(), time=7.5)
    stream = [b for m in msgs for b in m.bytes()]
    for name, f in (('parse_all', lambda: mido.parse_all(stream)), ('feed_byte', lambda: _feed_then_read(mido, stream, bytewise=True)),
                    ('chunks of 2', lambda: _chunks_of(mido, stream, 2)), ('Message.from_bytes', lambda: [M.from_bytes(m.bytes()) for m in msgs])):
        try:
            got = f()
        except Exception as e:
            out.append(('history/' + name, repr(e)))
            continue
        if got != msgs or any(g.time != 0 for g in got):
            out.append(('history/' + name, 'after equal bytes were decoded with times elsewhere, %s gives %s' % (name, core.srepr(got, 200))))
    return out[:3]


def _chunks_of(mido, stream, n):
    p = mido.Parser()
    got = []
    for i in range(0, len(stream), n):
        p.feed(stream[i:i + n])
        got += list(p)
    return got


def c06_after_a_long_unfinished_message():
    """After ANY prefix a complete message is recognised as itself: prefixes that end in an unfinished
    system exclusive message of 1 - 70 000 bytes cut short by every kind of status byte, and splits
    with many empty reads in between."""
    mido = _mido()
    M = mido.Message
    out = []
    probes = [M('sysex', data=(9, 8, 7)), M('sysex', data=()), M('note_on', note=1, velocity=2), M('songpos', pos=300)]
    cutters = [[0xf6], [0xf1, 5], [0xf3, 1], [0xf2, 1, 2], [0x90, 1, 2], [0xc0, 1], [0xf4], [0xf5], [0xf9], [0xf0, 1, 0xf7], [0xf7]]
    for n in (1, 2, 100, 4095, 4096, 4097, 8192, 20000):
        for cut in cutters:
            pre = [0xf0] + [(i * 3) % 128 for i in range(n)] + cut
            for m in probes:
                for name, f in (('parse_all', lambda: mido.parse_all(pre + m.bytes())), ('feed + feed', lambda: _two_feeds(mido, pre, m.bytes())),
                                ('feed_byte', lambda: _feed_then_read(mido, pre + m.bytes(), bytewise=True))):
                    try:
                        got = f()
                    except Exception as e:
                        out.append(('long-prefix', '%s after an unfinished %d-byte sysex cut by %r raises %r' % (name, n, cut, e)))
                        continue
                    if not got or got[-1] != m:
                        out.append(('long-prefix', '%s: after an unfinished %d-byte sysex cut by %r, %s came out as %s' % (
                            name, n, cut, m if len(m.bytes()) < 9 else m.type, core.srepr(got[-1:] and [got[-1].type, len(got[-1].bytes())]))))
                if len(out) > 3:
                    return out[:3]
    return out[:3]


def _two_feeds(mido, a, b):
    p = mido.Parser()
    p.feed(a)
    got = list(p)
    p.feed(b)
    return got + list(p)


def c05_many_empty_reads():
    """Chunks may be empty - any number of them, anywhere (a non-blocking read loop that finds nothing
    for a while)."""
    mido = _mido()
    from mido.backends._parser_queue import ParserQueue
    M = mido.Message
    out = []
    msgs = [M('note_on', note=1, velocity=2), M('sysex', data=(1, 2, 3, 4)), M('clock'), M('pitchwheel', pitch=7), M('songpos', pos=3)]
    stream = [b for m in msgs for b in m.bytes()]
    for n in (1, 15, 16, 17, 100, 1000, 5000):
        for cut in range(1, len(stream)):
            for empty in ([], b'', bytearray()):
                p = mido.Parser()
                q = ParserQueue()
                try:
                    p.feed(stream[:cut])
                    q.put_bytes(stream[:cut])
                    for _ in range(n):
                        p.feed(empty)
                        q.put_bytes(empty)
                        if n < 20:
                            p.pending()
                    p.feed(stream[cut:])
                    q.put_bytes(stream[cut:])
                    got, gq = list(p), list(q.iterpoll())
                except Exception as e:
                    out.append(('empty-reads', '%d empty chunks at offset %d: %r' % (n, cut, e)))
                    break
                if got != msgs or gq != msgs:
                    out.append(('empty-reads', 'a stream cut at offset %d with %d empty chunks (%r) in between came out as %s'
                                % (cut, n, empty, core.srepr([str(m) for m in (got if got != msgs else gq)], 200))))
                    break
            if out:
                return out[:2]
    return out


def c06_many_empty_reads():
    return c05_many_empty_reads()


def c04_many_empty_reads():
    return c05_many_empty_reads()


# ---------------------------------------------------------------- C07 / C08 / C09 / C17: contents that look like structure

def c07_text_that_cannot_be_stored():
    """Text the file's charset cannot encode makes save() raise ValueError - it is never replaced by
    something similar that can be encoded."""
    mido = _mido()
    MM = mido.MetaMessage
    out = []
    for cs, texts in (('latin1', ['Cafe\u0301', 'A\u030angstrom', 'n\u0303', '\u2126', '\u2026', '\u200b', '\ufb01', '\uff21']),
                      ('cp1252', ['Cafe\u0301', 'o\u030b', 'I\u0307']), ('ascii', ['\xe9', 'e\u0301'])):
        for text in texts:
            for kind in ('track_name', 'text', 'lyrics'):
                attr = 'name' if kind == 'track_name' else 'text'
                try:
                    text.encode(cs)
                    continue
                except UnicodeEncodeError:
                    pass
                mid = mido.MidiFile(charset=cs)
                m = MM(kind, time=0)
                setattr(m, attr, text)
                mid.tracks.append(mido.MidiTrack([m]))
                buf = io.BytesIO()
                try:
                    mid.save(file=buf)
                except ValueError:
                    continue
                except Exception as e:
                    out.append(('unstorable-text', 'saving the %s %a in a %s file raises %r, not ValueError' % (kind, text, cs, e)))
                    continue
                try:
                    back = getattr(mido.MidiFile(file=io.BytesIO(buf.getvalue()), charset=cs).tracks[0][0], attr)
                except Exception as e:
                    back = repr(e)
                out.append(('unstorable-text', 'the %s %a cannot be encoded in %s, yet the file was saved; it reads back as %a' % (kind, text, cs, back)))
    return out[:3]


_LOOKALIKE = [bytes([0xff, 0x2f, 0x00]), b'MTrk', b'MThd', bytes([0xff, 0x2f, 0x00, 0x00]), bytes([0x00, 0xff, 0x2f, 0x00]),
              bytes([0xf7]), bytes([0xf0, 0x01, 0xf7]), bytes([0xff, 0x51, 0x03]), bytes([0xff]), bytes([0xff, 0xff, 0x2f, 0x00, 0xff])]


def _lookalike_file_cases(mido):
    """(label, track) pairs whose encoded bytes contain things that look like SMF structure at places
    where they are content."""
    M, MM = mido.Message, mido.MetaMessage
    cases = []
    for pat in _LOOKALIKE:
        data = tuple(pat)
        for pre, post in (((), ()), ((1, 2), (3,)), ((0,) * 5, (0,) * 5)):
            d = pre + data + post
            cases.append(('sequencer_specific payload %r' % (bytes(d),), [MM('sequencer_specific', data=d, time=1), M('note_on', note=1, time=0)]))
            cases.append(('unknown meta payload %r' % (bytes(d),), [mido.UnknownMetaMessage(0x60, data=d, time=0), M('note_on', note=1, time=2)]))
            if all(x < 128 for x in d):
                cases.append(('sysex payload %r' % (bytes(d),), [M('sysex', data=d, time=0), M('note_on', note=2, time=0)]))
        text = pat.decode('latin1')
        cases.append(('latin1 text %a' % text, [MM('text', text='a' + text + 'b', time=0), MM('marker', text=text, time=0), M('note_on', note=3, time=0)]))
    # tempo / numbers whose bytes spell an end of track together with the next delta
    cases.append(('set_tempo 0x12ff2f then delta 0', [MM('set_tempo', tempo=0x12ff2f, time=0), M('note_on', note=0, time=0), M('note_on', note=5, time=3)]))
    cases.append(('sequence_number 0xff2f then delta 0', [MM('sequence_number', number=0xff2f, time=0), M('note_on', note=0, time=0)]))
    # delta times whose variable-length bytes look like a status, before running-status data
    for hi in (0xff, 0xf0, 0xf7, 0x90, 0xb0, 0x80, 0xc0, 0xfe):
        for lo in (0x2f, 0x00, 0x51, 0x7f, 0x03, 0x01):
            delta = ((hi & 0x7f) << 7) | lo
            cases.append(('delta %d (bytes %02x %02x) before running status' % (delta, hi, lo),
                          [M('note_on', note=60, time=0), M('note_on', note=0, velocity=0, time=delta), M('note_on', note=0, velocity=64, time=delta),
                           M('control_change', control=0, value=0, time=0), M('control_change', control=0, value=0, time=delta)]))
    return cases


def c08_contents_that_look_like_structure():
    """What save() writes decodes to the events in memory and is read back as them, also when payloads,
    texts, numbers or delta times contain bytes that would be structure elsewhere (FF 2F 00, 'MTrk',
    F7 ...), with clip and debug on and off."""
    mido = _mido()
    MM = mido.MetaMessage
    out = []
    import contextlib
    for label, msgs in _lookalike_file_cases(mido):
        for ntracks in (1, 2):
            mid = mido.MidiFile(type=1)
            for k in range(ntracks):
                mid.tracks.append(mido.MidiTrack([m.copy() for m in msgs] + [MM('end_of_track', time=k)]))
            try:
                buf = io.BytesIO()
                mid.save(file=buf)
            except Exception as e:
                out.append(('lookalike/save', '%s: %r' % (label, e)))
                continue
            for kw in ({}, {'clip': True}, {'debug': True}):
                try:
                    with contextlib.redirect_stdout(io.StringIO()):
                        back = mido.MidiFile(file=io.BytesIO(buf.getvalue()), **kw)
                except Exception as e:
                    out.append(('lookalike/load', '%s (%d tracks, %r): the saved file does not load: %r' % (label, ntracks, kw, e)))
                    break
                if [list(t) for t in back.tracks] != [list(t) for t in mid.tracks]:
                    out.append(('lookalike/load', '%s (%d tracks, %r): loaded %s' % (label, ntracks, kw, core.srepr([list(t) for t in back.tracks], 200))))
                    break
        if len(out) >= 3:
            break
    return out[:3]


def c09_contents_that_look_like_structure():
    return c08_contents_that_look_like_structure()


def c07_contents_that_look_like_structure():
    return c08_contents_that_look_like_structure()


def c17_texts_whose_bytes_look_like_structure():
    """Text in any charset is content: a file whose texts ENCODE to bytes that would be structure
    elsewhere (U+FFxx before '/', U+FF2F before a low character in utf-16, 'ÿ/' in latin1) loads back."""
    mido = _mido()
    MM, M = mido.MetaMessage, mido.Message
    out = []
    texts = ['ｱｲ/ｳ', 'ＰＩＡＮＯ', 'Ｏ', 'ÿ/\x00', 'ÿ/', 'a／b', 'ｱ/', '／\x00', '⿿', 'Ａ/\x00']
    for cs in ('utf-16', 'utf-16-le', 'utf-16-be', 'utf-32-be', 'utf-32', 'latin1', 'cp1252', 'utf-8', 'shift_jis'):
        for text in texts:
            try:
                text.encode(cs)
            except UnicodeEncodeError:
                continue
            for tail in ([M('note_on', note=0, time=0)], [MM('end_of_track', time=0)], [M('note_on', note=5, time=3), MM('text', text=text, time=0)]):
                mid = mido.MidiFile(charset=cs)
                mid.tracks.append(mido.MidiTrack([MM('lyrics', text=text, time=0)] + [m.copy() for m in tail]))
                mid.tracks.append(mido.MidiTrack([MM('track_name', name=text, time=0)]))
                try:
                    buf = io.BytesIO()
                    mid.save(file=buf)
                    back = mido.MidiFile(file=io.BytesIO(buf.getvalue()), charset=cs)
                    got = [back.tracks[0][0].text, back.tracks[1][0].name, len(back.tracks[0])]
                except Exception as e:
                    out.append(('text-bytes/%s' % cs, 'a %s file with the text %a does not come back: %r' % (cs, text, e)))
                    break
                if got[:2] != [text, text] or got[2] < len(tail) + 1:
                    out.append(('text-bytes/%s' % cs, 'a %s file with the text %a comes back as %a' % (cs, text, got)))
                    break
                _default_probe(mido, 'after a %s file with the text %a:' % (cs, text), out, 'text-bytes/leak')
    return out[:3]


def c09_numbers_next_to_documented_ones():
    """Values outside the documented domains are rejected: numbers NEXT to the members of an enumerated
    domain (frame rates 24, 25, 29.97, 30; keys) - and what is accepted decodes back to itself."""
    mido = _mido()
    import math
    from decimal import Decimal
    from fractions import Fraction
    MM = mido.MetaMessage
    out = []
    rates = [24, 25, 29.97, 30]
    near = []
    for r in rates:
        f = float(r)
        near += [math.nextafter(f, 0), math.nextafter(f, 99), f + 0.004, f - 0.004, f + 1e-9, f * 1.0001, Fraction(f) + Fraction(1, 10 ** 6)]
    near += [30000 / 1001, 24000 / 1001, 23.976, 29.970029, Decimal('29.9700000001'), 29.97 + 1e-13, '24', 24.0001, True, None, [24], 2997, 29]
    for v in near:
        for how, mk in (('constructor', lambda: MM('smpte_offset', frame_rate=v)), ('assignment', lambda: _assign_all(MM('smpte_offset'), {'frame_rate': v})),
                        ('copy', lambda: MM('smpte_offset').copy(frame_rate=v))):
            try:
                m = mk()
            except (ValueError, TypeError, KeyError):
                continue
            except Exception as e:
                out.append(('near-miss', '%s frame_rate=%r raises %r' % (how, v, e)))
                continue
            try:
                back = MM.from_bytes(m.bytes())
                same = back == m and back.frame_rate == v
            except Exception as e:
                back, same = repr(e), False
            if not same:
                out.append(('near-miss', '%s accepted frame_rate=%r; the message encodes and comes back as %s' % (how, v, core.srepr(back, 120))))
    for v in ('c', 'C ', 'Cmaj', 'H', 'C##', 'cb', 'c#M', 'Dbb', 'E#', 'Fb'):
        try:
            m = MM('key_signature', key=v)
            back = MM.from_bytes(m.bytes())
            if back != m:
                out.append(('near-miss', 'key %r was accepted and comes back as %r' % (v, back.key)))
        except (ValueError, TypeError, KeyError):
            pass
        except Exception as e:
            out.append(('near-miss', 'key %r: %r' % (v, e)))
    return out[:3]


# ---------------------------------------------------------------- C12 / C13 / C16: merges

def c12_merging_merged_and_nested():
    """Merging reads its inputs as they are NOW (a result of an earlier merge that was edited since is a
    track like any other), and a merge that is started while another is reading a lazily produced
    track does not disturb it."""
    mido = _mido()
    M, MM = mido.Message, mido.MetaMessage
    out = []

    def expect(tracks):
        ev = []
        for ti, t in enumerate(tracks):
            now = 0
            for pi, m in enumerate(t):
                now += m.time
                if m.type != 'end_of_track':
                    ev.append((now, ti, pi, m.copy(time=0)))
        ev.sort(key=lambda x: x[:3])
        return [(a, m) for a, _, _, m in ev]

    def flat(track):
        now, res = 0, []
        for m in track:
            now += m.time
            if m.type != 'end_of_track':
                res.append((now, m.copy(time=0)))
        return res
    a = mido.MidiTrack([M('note_on', note=1, time=10), M('note_on', note=2, time=10), MM('end_of_track', time=5)])
    b = mido.MidiTrack([MM('set_tempo', tempo=9, time=5), M('note_on', note=3, time=10), M('note_on', note=4, time=1)])
    for sk in (False, True):
        r = mido.merge_tracks([a, b], skip_checks=sk)
        list(mido.merge_tracks([r]))
        r[1].time += 7                      # stretched
        r[2], r[3] = r[3], r[2]             # swapped
        r[0] = r[0].copy(time=r[0].time + 1)
        for label, f in (('merge_tracks([result])', lambda: mido.merge_tracks([r], skip_checks=sk)),
                         ('merge_tracks([result, other])', None), ('MidiFile(tracks=[result]).merged_track', lambda: mido.MidiFile(tracks=[r]).merged_track)):
            tracks = [r, a] if f is None else [r]
            try:
                got = flat(mido.merge_tracks(tracks, skip_checks=sk) if f is None else f())
            except Exception as e:
                out.append(('re-merge', '%s raises %r' % (label, e)))
                continue
            if got != expect(tracks):
                out.append(('re-merge', '%s after the result was edited in place (skip_checks=%r): %s, by position %s'
                            % (label, sk, core.srepr([(t, str(m)) for t, m in got], 160), core.srepr([(t, str(m)) for t, m in expect(tracks)], 160))))
        mid = mido.MidiFile(tracks=[r], ticks_per_beat=10)
        want = sum(m.time for m in r) * 0.5 / 10
        if abs(mid.length - want) > 1e-9 and not any(m.type == 'set_tempo' for m in r):
            out.append(('re-merge', 'length of a file holding the edited result is %r, by its deltas %r' % (mid.length, want)))
    # a lazily produced track whose production itself merges something (a song built section by section)
    inner_results = []

    def lazy():
        yield M('note_on', note=10, time=1)
        inner_results.append(flat(mido.merge_tracks([a, b])))
        yield M('note_on', note=11, time=2)
        inner_results.append(flat(mido.merge_tracks([[M('note_on', note=12, time=3)]])))
        yield M('note_on', note=13, time=3)

    class Lazy(mido.MidiTrack):
        def __iter__(self):
            return lazy()
    eager = [M('note_on', note=10, time=1), M('note_on', note=11, time=2), M('note_on', note=13, time=3)]
    for label, tr in (('a generator', lazy), ('a MidiTrack subclass', lambda: Lazy(eager))):
        del inner_results[:]
        try:
            got = flat(mido.merge_tracks([b, tr()]))
        except Exception as e:
            out.append(('nested-merge', '%s whose production merges other tracks: %r' % (label, e)))
            continue
        # (an implementation that reads a MidiTrack subclass without calling its __iter__ makes no inner
        # merges at all: only those that were made are judged)
        inner_ok = inner_results == [expect([a, b]), expect([[M('note_on', note=12, time=3)]])][:len(inner_results)]
        if got != expect([b, eager]) or not inner_ok:
            out.append(('nested-merge', 'merging %s whose production merges other tracks gave %s (inner merges %s)' % (
                label, core.srepr([(t, str(m)) for t, m in got], 200), 'right' if inner_ok else 'wrong')))
    return out[:3]


def c13_two_files_alternately():
    """Each file's times follow ITS resolution and tempo map - also when two files are iterated or
    played alternately (zip, two players stepped in turn)."""
    mido = _mido()
    from .extra11 import _played   # noqa: F401
    M, MM = mido.Message, mido.MetaMessage
    out = []

    def build(tpb, tempo):
        mid = mido.MidiFile(ticks_per_beat=tpb)
        mid.tracks.append(mido.MidiTrack([MM('set_tempo', tempo=tempo, time=0)] + [M('note_on', note=i, time=tpb // 2) for i in range(6)]))
        return mid
    a, b = build(480, 500000), build(96, 250000)
    alone = ([m.time for m in a], [m.time for m in b])
    for label, run in (('zip(a, b)', lambda: list(zip(a, b))), ('zip(b, a)', lambda: [(y, x) for x, y in zip(b, a)]),
                       ('a inside b', lambda: _nested(a, b))):
        try:
            pairs = run()
        except Exception as e:
            out.append(('alternately', '%s raises %r' % (label, e)))
            continue
        ga, gb = [p[0].time for p in pairs], [p[1].time for p in pairs]
        n = len(pairs)
        if any(abs(x - y) > 1e-12 for x, y in zip(ga, alone[0][:n])) or any(abs(x - y) > 1e-12 for x, y in zip(gb, alone[1][:n])):
            out.append(('alternately', '%s: times %r / %r, each file alone %r / %r' % (label, ga, gb, alone[0][:n], alone[1][:n])))
    if ([m.time for m in a], [m.time for m in b], a.length, b.length) != (alone[0], alone[1], sum(alone[0]), sum(alone[1])):
        out.append(('alternately', 'afterwards the files give other times than before'))
    for fn, args, want in ((mido.tick2second, (480, 480, 500000), 0.5), (mido.second2tick, (0.5, 96, 250000), 192)):
        if abs(fn(*args) - want) > 1e-9:
            out.append(('alternately', 'afterwards %s%r = %r' % (fn.__name__, args, fn(*args))))
    return out[:3]


def _nested(a, b):
    res = []
    ib = iter(b)
    for x in a:
        res.append((x, next(ib)))
    return res


def c16_frozen_messages_in_tracks():
    """Observing a file changes nothing in it: with frozen messages in the tracks, length, iteration,
    merged_track, play and save give the same twice, equal those of a fresh file, and the messages
    (and their hashes) are what they were."""
    mido = _mido()
    from mido.frozen import freeze_message
    from .extra11 import _played
    M, MM = mido.Message, mido.MetaMessage
    out = []
    for shape in (([0, 480], [240, 0]), ([0, 0, 5], [0, 3]), ([10], [0, 0, 20]), ([0, 100], [50], [0, 25, 25])):
        def build(frozen):
            mid = mido.MidiFile(ticks_per_beat=480)
            for ti, deltas in enumerate(shape):
                tr = mido.MidiTrack()
                for k, d in enumerate(deltas):
                    m = M('note_on', channel=ti, note=k, time=d) if (ti + k) % 3 else MM('set_tempo', tempo=250000 + ti, time=d)
                    tr.append(freeze_message(m) if frozen else m)
                mid.tracks.append(tr)
            return mid
        mid, fresh = build(True), build(False)
        snap = [[(id(m), hash(m), dict(vars(m))) for m in t] for t in mid.tracks]

        def observe(x):
            b = io.BytesIO()
            x.save(file=b)
            def s(m):
                return str(m).replace('Frozen', '')
            return (round(x.length, 9), [s(m) for m in x], [s(m) for m in x.merged_track], [s(m) for m in _played(x)], b.getvalue())
        try:
            o1, o2, of = observe(mid), observe(mid), observe(fresh)
        except Exception as e:
            out.append(('frozen-tracks', 'deltas %r: %r' % (shape, e)))
            continue
        if o1 != o2 or o1 != of:
            which = [n for n, x, y, z in zip(('length', 'iteration', 'merged_track', 'play', 'save'), o1, o2, of) if x != y or x != z]
            out.append(('frozen-tracks', 'tracks of frozen messages with deltas %r: %s differ between the first observation, the second and a '
                        'fresh file (lengths %r, %r, %r)' % (shape, which, o1[0], o2[0], of[0])))
        now = [[(id(m), hash(m), dict(vars(m))) for m in t] for t in mid.tracks]
        if now != snap:
            out.append(('frozen-tracks', 'deltas %r: the frozen messages in the tracks were changed by observing the file' % (shape,)))
    return out[:3]


# ---------------------------------------------------------------- C14

def c14_text_as_assigned_or_loaded():
    """eval(repr(x)) equals x for text events whatever the text and however it got there (constructor,
    assignment, track name setter, a loaded utf-8 file): decomposed accents, Hangul jamo, compatibility
    ideographs, separators, quotes."""
    mido = _mido()
    from mido import Message, MetaMessage, MidiFile, MidiTrack, UnknownMetaMessage   # noqa: F401
    out = []
    texts = ['Cafe\u0301', '\u1112\u1161\u11ab', '\uf900', '\u2126', '\ufb01', 'q\u0307\u0323', "it's \"x\"\\", 'a\u2028b', 'a\x85b', '\x00', '\xe9',
             '\u212b', '\u0958']
    for text in texts:
        made = []
        try:
            made.append(('constructor', MetaMessage('text', text=text, time=1)))
        except Exception:
            pass
        m = MetaMessage('lyrics', time=0)
        m.text = text
        made.append(('assignment', m))
        tr = MidiTrack()
        tr.name = text
        made.append(('the track name setter', tr))
        src = MidiFile(charset='utf-8')
        src.tracks.append(MidiTrack([MetaMessage('marker', time=0)]))
        src.tracks[0][0].text = text
        try:
            buf = io.BytesIO()
            src.save(file=buf)
            made.append(('a loaded utf-8 file', MidiFile(file=io.BytesIO(buf.getvalue()), charset='utf-8')))
        except Exception:
            pass
        for how, x in made:
            try:
                back = eval(repr(x))
            except Exception as e:
                out.append(('text-repr', 'the text %a set by %s: eval(repr()) raises %r' % (text, how, e)))
                continue
            same = ([list(t) for t in back.tracks] == [list(t) for t in x.tracks]) if isinstance(x, MidiFile) else (back == x and type(back) is type(x))
            if not same:
                out.append(('text-repr', 'the text %a set by %s: eval(repr()) gives %s' % (text, how, ascii(back)[:160])))
    return out[:3]


def c14_stream_items():
    """parse_string_stream treats each ITEM of the stream as one line: an item that parse_string accepts
    (white space of any kind between its words) yields that message, one result per item, line numbers
    counting items."""
    mido = _mido()
    out = []
    seps = ['\n', '\r\n', '\x0b', '\x0c', '\x1c', '\x1d', '\x1e', '\x85', ' ', ' ', '\t', '  ']
    for sep in seps:
        text = 'note_on' + sep + 'channel=2' + sep + 'note=60 velocity=3 time=5'
        try:
            want = mido.parse_string(text)
        except Exception:
            want = None
        items = ['clock time=1', text, 'not a message', text + sep, 'songpos pos=3']
        try:
            got = list(mido.parse_string_stream(items))
        except Exception as e:
            out.append(('stream-items', 'items containing %r: %r' % (sep, e)))
            continue
        exp_shape = [True, want is not None, False, want is not None, True]
        shape = [g[0] is not None for g in got]
        if len(got) != len(items) or shape != exp_shape or (want is not None and (got[1][0] != want or got[3][0] != want)):
            out.append(('stream-items', 'five items, two of them %r: %d results %s; parse_string of the item gives %s' % (
                text, len(got), core.srepr([(str(g[0]) if g[0] is not None else None) for g in got], 240), want)))
            continue
        err = got[2][1]
        if '3' not in str(err):
            out.append(('stream-items', 'the bad third item (items containing %r) is reported as %r' % (sep, err)))
    return out[:3]


# ---------------------------------------------------------------- C15

def c15_framed_data_and_late_specs():
    """copy(**overrides) - valid or not - ends like a fresh constructor call with those values: data that
    carries its own F0 ... F7, and meta types registered (add_meta_spec) AFTER other copies were made."""
    mido = _mido()
    from mido.frozen import freeze_message, thaw_message
    M, MM = mido.Message, mido.MetaMessage
    out = []

    def outcome(f):
        try:
            r = f()
            return ('ok', tuple(getattr(r, 'data', ())), {k: v for k, v in vars(r).items() if k != 'data'})
        except (ValueError, TypeError) as e:
            return ('raises', type(e).__name__ in ('ValueError', 'TypeError'), None)
    for d in ((0xf0, 1, 2, 0xf7), (0xf0, 0xf7), [0xf0, 5, 0xf7], bytearray([0xf0, 1, 0xf7]), (0xf0, 1), (1, 0xf7), (0xf7, 1, 0xf0), (240,), (247,)):
        for skip in (False, True):
            kw = {'skip_checks': True} if skip else {}
            fresh = outcome(lambda: M('sysex', data=d, **kw))
            for label, src in (('Message', M('sysex', data=(9,))), ('frozen', freeze_message(M('sysex', data=(9,)))),
                               ('thawed', thaw_message(freeze_message(M('sysex', data=(9,)))))):
                got = outcome(lambda: src.copy(data=d, **kw))
                if got[:2] != fresh[:2]:
                    out.append(('framed-data', '%s.copy(data=%r%s) %s; Message("sysex", data=...%s) %s' % (
                        label, d, ', skip_checks=True' if skip else '', got[:2], ', skip_checks=True' if skip else '', fresh[:2])))
    # a custom meta type registered after copies of other meta messages were made
    from mido.midifiles import meta as metamod
    MM('set_tempo').copy(tempo=5)
    MM('text', text='a').copy(text='b', time=1)
    freeze_message(MM('marker')).copy(text='z')
    name = 'vf_late_%d' % (len(metamod._META_SPEC_BY_TYPE) + 1)
    tb = [x for x in (0x7c, 0x7b, 0x7a, 0x79) if x not in metamod._META_SPECS][0]

    class Late(metamod.MetaSpec):
        type_byte = tb
        attributes = ['g']
        defaults = [0]

        def decode(self, message, data):
            message.g = data[0]

        def encode(self, message):
            return [message.g]

        def check(self, name, value):
            metamod.check_int(value, 0, 255)
    Late.__name__ = 'MetaSpec_' + name
    try:
        metamod.add_meta_spec(Late)
        m = MM(name, g=3)
        for label, src in (('MetaMessage', m), ('frozen', freeze_message(m)), ('thawed', thaw_message(freeze_message(m)))):
            try:
                c = src.copy(g=99, time=2)
                if c != MM(name, g=99, time=2) or type(c) is not type(src):
                    out.append(('late-spec', '%s.copy(g=99) of a meta type registered late gives %s' % (label, core.srepr(c))))
            except Exception as e:
                out.append(('late-spec', '%s.copy(g=99) of a meta type registered after other copies were made raises %r; '
                            'the constructor accepts g=99' % (label, e)))
            try:
                src.copy(g=999)
                out.append(('late-spec', '%s.copy(g=999) was accepted' % label))
            except (ValueError, TypeError):
                pass
    except Exception as e:
        out.append(('late-spec', 'registering a meta type: %r' % (e,)))
    finally:
        metamod._META_SPECS.pop(tb, None)
        metamod._META_SPEC_BY_TYPE.pop(name, None)
    return out[:3]


# ---------------------------------------------------------------- C10 / C11 / C18: ports in real time, over real TCP, at program end

def c10_a_sender_that_takes_its_time():
    """No send or receive call raises and every message is delivered - also when another thread holds
    the port for seconds of REAL time inside one device write (a long dump on a slow link)."""
    import threading
    import time
    mido = _mido()
    import mido.ports as mp
    out = []
    release = threading.Event()
    entered = threading.Event()
    log = []

    class Slow(mp.BaseOutput):
        def _send(self, msg):
            if msg.type == 'sysex':
                entered.set()
                release.wait(30)
            log.append(msg.copy())
    port = Slow('slow')
    errs = []

    def first():
        try:
            port.send(mido.Message('sysex', data=(1, 2, 3)))
        except Exception as e:
            errs.append(('the slow sender', e))

    def second():
        try:
            port.send(mido.Message('clock'))
        except Exception as e:
            errs.append(('a second sender that had to wait', e))
    t1 = threading.Thread(target=first, daemon=True)
    t1.start()
    entered.wait(5)
    t2 = threading.Thread(target=second, daemon=True)
    t2.start()
    time.sleep(6.5)                 # real time: longer than any plausible "give up" of a few seconds
    release.set()
    t1.join(10)
    t2.join(10)
    if errs:
        out.append(('slow-holder', '%s got %r' % errs[0]))
    elif [m.type for m in log] != ['sysex', 'clock']:
        out.append(('slow-holder', 'while one thread spent 6.5 s inside a device write, the device saw %r' % ([m.type for m in log],)))
    return out


def _tcp_pair():
    """(client SocketPort, raw peer socket) over loopback TCP, or None."""
    import socket
    from mido.sockets import connect
    try:
        lst = socket.socket(socket.AF_INET, socket.SOCK_STREAM)
        lst.bind(('127.0.0.1', 0))
        lst.listen(1)
        cl = connect('127.0.0.1', lst.getsockname()[1])
        peer, _ = lst.accept()
        lst.close()
        peer.settimeout(8)
        return cl, peer
    except OSError:
        return None


def _block_sized(key):
    """A non-blocking receive never waits and hands out what has arrived - whatever the NUMBER of bytes
    waiting in the socket: every multiple of a power of two from 256 to 65536 (read sizes a buffered
    reader may use), and one more or less."""
    import socket
    import time
    mido = _mido()
    out = []
    for total in (256, 512, 1024, 2048, 4096, 4095, 4097, 8192, 12288, 16384, 65536):
        pair = _tcp_pair()
        if pair is None:
            return out
        cl, peer = pair
        try:
            n3 = (total - 1) // 3 if total % 3 != 0 else total // 3
            data = bytes([0x90, 1, 2]) * n3 + bytes([0xf8]) * (total - 3 * n3)
            assert len(data) == total
            try:
                peer.sendall(data)
            except OSError:
                continue                # the socket buffers of this machine do not hold the burst: nothing to say
            deadline = time.time() + 5
            while time.time() < deadline:           # wait until the whole backlog is in the kernel buffer
                try:
                    if len(cl._socket.recv(total, socket.MSG_PEEK | socket.MSG_DONTWAIT)) >= min(total, 60000):
                        break
                except (BlockingIOError, AttributeError):
                    pass
                time.sleep(0.01)
            got = []
            for _ in range(40):
                ok, ms = _with_deadline(lambda: list(cl.iter_pending()), 4.0)
                if not ok:
                    out.append((key, 'with exactly %d bytes waiting in the socket and the peer quiet, iter_pending() does not return' % total))
                    peer.sendall(bytes([0xfe]))
                    break
                got += ms
                if len(got) >= n3 + (total - 3 * n3):
                    break
                time.sleep(0.01)
            else:
                out.append((key, 'of %d bytes (%d messages) sent, %d messages came out' % (total, n3 + total - 3 * n3, len(got))))
            ok, _ = _with_deadline(lambda: cl.send(mido.Message('clock')), 4.0)
            if not ok:
                out.append((key, 'send() blocks after a backlog of %d bytes was read' % total))
        except Exception as e:
            out.append((key, 'backlog of %d bytes: %r' % (total, e)))
        finally:
            for s in (peer, cl):
                try:
                    s.close()
                except Exception:
                    pass
        if out:
            break
    return out[:2]


def c10_backlogs_of_block_size():
    return _block_sized('block-sized-backlog')


def c18_backlogs_of_block_size():
    return _block_sized('block-sized-backlog')


def c18_a_port_that_is_just_dropped():
    """Closing a socket port is seen by its peer as a disconnect - also the implicit close of a port
    that goes out of scope (`connect(h, p).send(msg)`), at once, whatever the cyclic collector does."""
    import time
    mido = _mido()
    from mido.sockets import connect
    out = []
    server = _tcp_server()
    if server is None:
        return out
    was = gc.isenabled()
    gc.disable()
    try:
        portno = server._socket.getsockname()[1]

        def client():
            p = connect('127.0.0.1', portno)
            p.send(mido.Message('note_on', note=7))
        client()
        got, deadline = [], time.time() + 3
        while time.time() < deadline and not got:
            m = server.poll()
            if m is not None:
                got.append(m)
        peers = list(server.ports)
        deadline = time.time() + 2
        while time.time() < deadline and any(not p.closed for p in peers):
            server.poll()
            time.sleep(0.01)
        if [m.type for m in got] != ['note_on']:
            out.append(('dropped-port', 'the message of a client that was dropped after send() did not arrive (%r)' % (got,)))
        elif not peers or any(not p.closed for p in peers):
            out.append(('dropped-port', 'a client port went out of scope after send(); 2 s later the server still holds the connection '
                        'as open (no disconnect was seen)'))
    except Exception as e:
        out.append(('dropped-port', repr(e)))
    finally:
        if was:
            gc.enable()
        try:
            server.close()
        except Exception:
            pass
        gc.collect()
    return out


def c11_nested_multiports():
    """A blocking receive on a MultiPort returns as soon as a message is deliverable and everything taken
    in is handed out - also for MultiPorts whose members are MultiPorts or a PortServer, with and
    without yield_ports."""
    import socket
    import time
    mido = _mido()
    import mido.ports as mp
    out = []
    for yp in (False, True):
        # members that already hold messages
        a, b, c = mp.EchoPort(), mp.EchoPort(), mp.EchoPort()
        inner = mp.MultiPort([a, b])
        a.send(mido.Message('note_on', note=1))
        inner.poll() if False else None
        b.send(mido.Message('note_on', note=2))
        first = inner.poll()                       # takes both in, hands one out: one stays queued in `inner`
        hub = mp.MultiPort([inner, c], yield_ports=yp)
        c.send(mido.Message('note_on', note=3))
        got = []
        for _ in range(6):
            ok, m = _with_deadline(hub.poll, 3.0)
            if not ok:
                out.append(('nested/hangs', 'poll() on a MultiPort of MultiPorts (yield_ports=%r) does not return' % yp))
                break
            if m is not None:
                got.append(m[1] if yp else m)
        notes = sorted([first.note] + [g.note for g in got])
        if notes != [1, 2, 3]:
            out.append(('nested/lost', 'a MultiPort over a MultiPort that had already taken a message in (yield_ports=%r): notes %r came out of [1, 2, 3]'
                        % (yp, notes)))
        # a server among the members: a client that connects later is served
        server = _tcp_server()
        if server is None:
            continue
        raw = None
        try:
            other = mp.EchoPort()
            hub = mp.MultiPort([server, other], yield_ports=yp)
            hub.poll()
            raw = socket.create_connection(('127.0.0.1', server._socket.getsockname()[1]), timeout=8)
            raw.sendall(bytes([0x90, 9, 9]))
            got, deadline = None, time.time() + 4
            while time.time() < deadline and got is None:
                ok, m = _with_deadline(hub.poll, 3.0)
                if not ok:
                    break
                got = m
                time.sleep(0.01)
            if got is None:
                out.append(('nested/server', 'a MultiPort over a PortServer (yield_ports=%r): the message of a client that connected later '
                            'never comes out of the hub' % yp))
            ok, m = _with_deadline(lambda: (raw.sendall(bytes([0x80, 9, 0])), hub.receive())[1], 5.0)
            if not ok:
                out.append(('nested/server', 'a blocking receive() on a MultiPort over a PortServer (yield_ports=%r) does not return although a '
                            'client sent a message' % yp))
        except Exception as e:
            out.append(('nested/raises', repr(e)))
        finally:
            for s in (raw, server):
                try:
                    if s is not None:
                        s.close()
                except Exception:
                    pass
    return out[:3]


_EXIT_CHILD = r'''
import os, sys
sys.path.insert(0, %(repo)r)
import mido
from mido.ports import BaseOutput, BaseIOPort

class Synth(%(base)s):
    def _send(self, msg, _write=os.write):
        _write(1, ('send %%s\n' %% msg.hex()).encode())
    def _close(self, _write=os.write):
        _write(1, b'release\n')

class App:
    def __init__(self):
        self.out = Synth('synth', autoreset=True)
        self.handlers = [self.on_key]          # a reference cycle, as in any callback-driven program
    def on_key(self, note):
        self.out.send(mido.Message('note_on', note=note))

def main():
    app = App()
    app.on_key(60)
    how = sys.argv[1]
    if how == 'sysexit':
        sys.exit(0)
    if how == 'interrupt':
        raise KeyboardInterrupt
    if how == 'exception':
        raise RuntimeError('x')
try:
    main()
except (KeyboardInterrupt, RuntimeError):
    pass
'''


def c11_at_program_end():
    """close() releases the device once, after sending the reset messages once when autoreset is set -
    also the close the port performs itself when the program ends without closing it (main returns,
    sys.exit, Ctrl-C) while the port is part of a reference cycle."""
    import subprocess
    import sys
    out = []
    for base in ('BaseOutput', 'BaseIOPort'):
        for how in ('return', 'sysexit', 'interrupt', 'exception'):
            code = _EXIT_CHILD % {'repo': core.REPO, 'base': base}
            try:
                r = subprocess.run([sys.executable, '-c', code, how], stdout=subprocess.PIPE, stderr=subprocess.PIPE, text=True, timeout=60)
            except Exception as e:
                out.append(('program-end', repr(e)))
                continue
            lines = r.stdout.split('\n')[:-1]
            sends = [ln for ln in lines if ln.startswith('send')]
            if lines[:1] != ['send 90 3C 40'] or lines.count('release') != 1 or lines[-1] != 'release' or len(sends) != 1 + 32:
                out.append(('program-end', 'a %s with autoreset=True in a reference cycle, program ending by %s: the device saw %d messages '
                            'after the note and %d releases (expected the 32 reset messages, then one release)%s'
                            % (base, how, len(sends) - 1, lines.count('release'), ('; stderr: ' + r.stderr[-120:]) if r.stderr else '')))
    return out[:3]


# ---------------------------------------------------------------- C19

def c19_small_before_huge():
    """... in order: lists that mix short and very large messages (up to 300 000 bytes), in every
    arrangement."""
    mido = _mido()
    M = mido.Message
    out = []
    d = tempfile.mkdtemp(prefix='vf-x12-')
    try:
        small = [M('sysex', data=(1,)), M('sysex', data=(2, 2)), M('sysex', data=())]
        for size in (43689, 131070, 150000):
            big = M('sysex', data=bytes([size % 128]) * size)
            for arr in ([small[0], big, small[1]], [big, small[0]], [small[0], small[1], big, small[2]]):
                for plain in (False, True):
                    path = os.path.join(d, 'b.syx')
                    try:
                        mido.write_syx_file(path, arr, plaintext=plain)
                        got = mido.read_syx_file(path)
                    except Exception as e:
                        out.append(('small-before-huge', 'sizes %r plaintext=%r: %r' % ([len(m.data) for m in arr], plain, e)))
                        continue
                    if [len(g.data) for g in got] != [len(m.data) for m in arr] or any(g.data[:1] != m.data[:1] for g, m in zip(got, arr)):
                        out.append(('small-before-huge', 'a list with payload sizes %r (plaintext=%r) reads back with sizes %r'
                                    % ([len(m.data) for m in arr], plain, [len(g.data) for g in got])))
            if out:
                break
    finally:
        shutil.rmtree(d, ignore_errors=True)
    return out[:3]


def c19_names_that_are_not_regular_files():
    """Reading returns the messages in the file - whatever kind of file-system object the name is: a
    named pipe, /dev/fd/N of a pipe (shell process substitution), a symlink."""
    import threading
    mido = _mido()
    M = mido.Message
    out = []
    sx = [M('sysex', data=(1, 2, 3)), M('sysex', data=()), M('sysex', data=(5,) * 300)]
    d = tempfile.mkdtemp(prefix='vf-x12-')
    try:
        for plain in (False, True):
            ref = os.path.join(d, 'ref.syx')
            mido.write_syx_file(ref, sx, plaintext=plain)
            data = open(ref, 'rb').read()
            # /dev/fd/N of a pre-filled pipe
            if os.path.exists('/dev/fd'):
                r, w = os.pipe()
                try:
                    os.write(w, data)
                    os.close(w)
                    ok, got = _with_deadline(lambda: mido.read_syx_file('/dev/fd/%d' % r), 5.0)
                    if not ok or got != sx:
                        out.append(('not-a-regular-file', 'reading /dev/fd/N of a pipe holding a %s file gives %s' % (
                            'text' if plain else 'binary', core.srepr(got, 100) if ok else 'no answer')))
                except Exception as e:
                    out.append(('not-a-regular-file', '/dev/fd/N: %r' % (e,)))
                finally:
                    try:
                        os.close(r)
                    except OSError:
                        pass
            # a named pipe fed by a writer thread
            fifo = os.path.join(d, 'fifo')
            try:
                os.mkfifo(fifo)
            except (OSError, AttributeError):
                continue
            def feed():
                try:
                    mido.write_syx_file(fifo, sx, plaintext=plain)
                except OSError:
                    pass                  # the reader gave up early: reported below
            t = threading.Thread(target=feed, daemon=True)
            t.start()
            try:
                ok, got = _with_deadline(lambda: mido.read_syx_file(fifo), 5.0)
                if not ok or got != sx:
                    out.append(('not-a-regular-file', 'reading a named pipe fed by write_syx_file(plaintext=%r) gives %s' % (
                        plain, core.srepr(got, 100) if ok else 'no answer')))
            except Exception as e:
                out.append(('not-a-regular-file', 'named pipe: %r' % (e,)))
            t.join(2)
            os.unlink(fifo)
            link = os.path.join(d, 'link.syx')
            os.symlink(ref, link)
            if mido.read_syx_file(link) != sx:
                out.append(('not-a-regular-file', 'a symlink reads differently'))
            os.unlink(link)
    finally:
        shutil.rmtree(d, ignore_errors=True)
    return out[:3]


# ---------------------------------------------------------------- C20

def c20_listings_follow_the_devices():
    """Name listings derive from the module's device list AS IT IS when they are asked for: a device
    that appears or disappears between two listings (hot-plug, a virtual port closed) shows at once."""
    import sys
    mido = _mido()
    from . import c20
    out = []
    if c20._FINDER not in sys.meta_path:
        sys.meta_path.insert(0, c20._FINDER)
    saved = list(c20.DEVICES)
    REC = c20.REC
    flags = (REC.native, REC.getdev)
    try:
        REC.native, REC.getdev = True, True
        sys.modules.pop(c20.MODNAMES['mod'], None)
        b = mido.Backend(c20.MODNAMES['mod'])
        for fn in ('get_input_names', 'get_output_names', 'get_ioport_names'):
            first = getattr(b, fn)()
            c20.DEVICES.append(('hotplugged', True, True))
            second = getattr(b, fn)()
            c20.DEVICES[:] = saved
            third = getattr(b, fn)()
            gone = [x for x in saved if x[0] != first[0]]
            c20.DEVICES[:] = gone
            fourth = getattr(b, fn)()
            c20.DEVICES[:] = saved
            if 'hotplugged' not in second or third != first or first[0] in fourth:
                out.append(('listing', '%s: %r, after a device appeared %r, after it went again %r, after the first one was unplugged %r' % (fn, first, second, third, fourth)))
    except Exception as e:
        out.append(('listing', repr(e)))
    finally:
        c20.DEVICES[:] = saved
        REC.native, REC.getdev = flags
        for v in c20.MODNAMES.values():
            sys.modules.pop(v, None)
    return out[:3]


def c20_a_backend_built_on_another():
    """The backend module is imported when first needed - also a backend module whose own body opens
    another mido backend (a monitoring / proxy backend): the first call returns."""
    import sys
    mido = _mido()
    out = []
    d = tempfile.mkdtemp(prefix='vf-x12-')
    try:
        with open(os.path.join(d, 'vf_inner_backend.py'), 'w') as f:
            f.write("import mido.ports as p\nclass Input(p.BaseInput):\n    pass\nclass Output(p.BaseOutput):\n    pass\n"
                    "def get_devices(**kw):\n    return [{'name': 'in', 'is_input': True, 'is_output': True}]\n")
        with open(os.path.join(d, 'vf_outer_backend.py'), 'w') as f:
            f.write("import mido\n_inner = mido.Backend('vf_inner_backend')\n_names = _inner.get_input_names()\n_mod = _inner.module\n"
                    "from vf_inner_backend import Input, Output\n"
                    "def get_devices(**kw):\n    return [{'name': 'outer-' + n, 'is_input': True, 'is_output': True} for n in _names]\n")
        sys.path.insert(0, d)
        for first_call in ('get_input_names', 'open_input', 'module'):
            for name in ('vf_inner_backend', 'vf_outer_backend'):
                sys.modules.pop(name, None)
            b = mido.Backend('vf_outer_backend')

            def call():
                if first_call == 'module':
                    return b.module.__name__
                if first_call == 'open_input':
                    return type(b.open_input('x')).__name__
                return b.get_input_names()
            ok, r = _with_deadline(call, 6.0)
            if not ok:
                out.append(('nested-backend', 'the first %s on a backend whose module opens another backend does not return' % first_call))
                break
            if r not in (['outer-in'], 'Input', 'vf_outer_backend'):
                out.append(('nested-backend', '%s returned %r' % (first_call, r)))
    except Exception as e:
        out.append(('nested-backend', repr(e)))
    finally:
        if d in sys.path:
            sys.path.remove(d)
        for name in ('vf_inner_backend', 'vf_outer_backend'):
            sys.modules.pop(name, None)
        shutil.rmtree(d, ignore_errors=True)
    return out[:2]


def c05_chunks_that_are_whole_messages():
    """Chunk independence where a chunk happens to BE one complete message (a backend that delivers
    message by message) while an unfinished message or sysex is pending, followed by bytes that would
    complete the unfinished one: every carrier, Parser and ParserQueue; the reference is the same
    stream fed byte by byte (which the TokChunks rows tie to the specification)."""
    mido = _mido()
    import array
    from collections import deque
    from mido.backends._parser_queue import ParserQueue
    M = mido.Message
    out = []
    partials = [[0x90, 1], [0x90], [0xf0, 1, 2], [0xf0], [0xe3, 5], [0xf2, 5], [0xb0, 7], [0xf1]]
    wholes = [M('note_off', note=2, velocity=3), M('note_on', channel=1, note=9, velocity=9), M('program_change', program=4),
              M('pitchwheel', pitch=100), M('songpos', pos=5), M('clock'), M('sysex', data=(4,)), M('quarter_frame', frame_type=1, frame_value=2),
              M('song_select', song=3), M('tune_request'), M('control_change', control=1, value=2)]
    tails = [[5], [5, 6], [0xf7], [7, 0xf7], [5, 0x90, 1, 2]]
    carriers = [('list', list), ('tuple', tuple), ('bytes', bytes), ('bytearray', bytearray), ('array', lambda c: array.array('B', c)),
                ('memoryview', lambda c: memoryview(bytes(c))), ('deque', deque), ('generator', lambda c: (b for b in c))]

    def bytewise(stream):
        p = mido.Parser()
        for b in stream:
            p.feed_byte(b)
        return [m.bytes() for m in p]
    for pre in partials:
        for w in wholes:
            for tail in tails:
                chunks = [pre, w.bytes(), tail]
                ref = bytewise(pre + w.bytes() + tail)
                if ref != [m.bytes() for m in mido.parse_all(pre + w.bytes() + tail)]:
                    out.append(('whole-chunks', 'byte by byte and all at once disagree on %r' % (pre + w.bytes() + tail,)))
                    continue
                for cname, mk in carriers:
                    p, q = mido.Parser(), ParserQueue()
                    try:
                        for c in chunks:
                            p.feed(mk(c))
                            q.put_bytes(mk(c))
                        got, gq = [m.bytes() for m in p], [m.bytes() for m in q.iterpoll()]
                    except Exception as e:
                        out.append(('whole-chunks', 'chunks %r as %s: %r' % (chunks, cname, e)))
                        break
                    if got != ref or gq != ref:
                        out.append(('whole-chunks', 'the stream %r fed as the chunks %r (%s) gives %r, byte by byte %r'
                                    % (pre + w.bytes() + tail, chunks, cname, got if got != ref else gq, ref)))
                        break
                if len(out) >= 3:
                    return out
    return out


def c04_chunks_that_are_whole_messages():
    return c05_chunks_that_are_whole_messages()


def c06_chunks_that_are_whole_messages():
    return c05_chunks_that_are_whole_messages()
