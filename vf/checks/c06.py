"""C06 - the parser resynchronises: a complete message is always recognised.

G1: TokStream: the invariant Resync is evaluated by TLC in every reachable
    state (= after every prefix up to MaxLen over the class alphabet).  Every
    prefix P is emitted with its expected output and control state; the real
    parser is given P + Encode(M) for probe messages M and must yield
    parse(P) followed by exactly M.  For one witness prefix per distinct
    control state, M ranges over a whole message domain emitted by WireMsgs.
G2: TokResync: concatenations of <= MaxList messages parse back; real-time
    bytes at every position inside a sysex are delivered ahead of it.
V : sysex payloads up to 64 bytes with real-time bytes at every offset, run on
    the real parser and validated by TokenizerTrace.
"""
import random

from .. import core
from ..midi import TYPES, attrs_of, parse_tok_row
from . import c01, c04

PROBES = None


def _probe_msgs():
    """(type, v) list mirroring Tokenizer.ProbeMsgs plus more values."""
    return [('note_off', [0, 0, 0]), ('note_on', [15, 127, 127]), ('polytouch', [1, 64, 1]),
            ('control_change', [2, 123, 0]), ('program_change', [3, 127]), ('aftertouch', [4, 0]),
            ('pitchwheel', [5, -8192]), ('pitchwheel', [6, 8191]), ('sysex', []), ('sysex', [0]),
            ('sysex', [127, 0, 1]), ('quarter_frame', [7, 15]), ('songpos', [16383]),
            ('songpos', [0]), ('song_select', [127]), ('tune_request', []), ('clock', []),
            ('start', []), ('continue', []), ('stop', []), ('active_sensing', []), ('reset', [])]


def tokstream_cfg(alpha, maxlen):
    return """SPECIFICATION Spec
CONSTANTS
 Alphabet <- %s
 MaxLen = %d
INVARIANT TypeOK
INVARIANT Resync
INVARIANT ResyncThenStray
INVARIANT FoldAgrees
INVARIANT EmitState
CHECK_DEADLOCK FALSE
""" % (alpha, maxlen)


def check_resync(prefix, out, type_, v):
    """parse(prefix + Encode(M)) must be parse(prefix) + [M] - however the bytes
    are handed to the parser (one call, byte-wise, bytes object, one call per
    part), and stray data / EOX bytes afterwards must add nothing."""
    import mido
    M = mido.Message(type_, **attrs_of(type_, v))
    enc = M.bytes()
    data = list(prefix) + enc
    rt = len(enc) == 1 and enc[0] >= 0xf8
    stray = [] if rt else [0x00, 0x7f, 0xf7]
    try:
        first = mido.parse(iter(data)) if not out else None
        allm = mido.parse_all(b for b in data)
    except Exception as e:
        return 'raises/' + type(e).__name__, 'parse/parse_all on an iterator raised %r' % (e,)
    if [list(x.bytes()) for x in allm] != out + [enc] or (not out and not (first == M)):
        return 'message-lost', 'parse_all(generator) gave %r, parse(iterator) %r; expected %r then %r' % (
            allm, first, out, M)
    ways = [('feed', [data]), ('feed_byte', None), ('feed/bytes', [bytes(data)]),
            ('feed/parts', [list(prefix), enc, stray]),
            ('feed/parts/bytes', [bytes(prefix), bytearray(enc), bytes(stray)])]
    for how, parts in ways:
        try:
            p = mido.Parser()
            if parts is None:
                for b in data:
                    p.feed_byte(b)
            else:
                for part in parts:
                    p.feed(part)
            got = list(p)
        except Exception as e:
            return 'raises/' + type(e).__name__, '%s raised %r' % (how, e)
        gb = [list(m.bytes()) for m in got]
        if not got or gb[:-1] != out:
            return 'prefix-output', '%s: messages before M are %r expected %r' % (how, gb[:-1], out)
        if not (got[-1] == M):
            return 'message-lost', '%s: last message %r expected %r' % (how, got[-1], M)
        core.scribble(got)         # the consumer stamps / transposes what it was given
    core.scribble(allm)
    return None


def worker(lines):
    res = {'n': 0, 'viol': [], 'samples': [], 'counts': {}}
    probes = _probe_msgs()
    for line in lines:
        inp, status, buf, out = parse_tok_row(core.ints_of(line))
        h = sum(inp) * 13 + len(inp)
        for j in range(3):
            type_, v = probes[(h + 7 * j) % len(probes)]
            res['n'] += 1
            r = check_resync(inp, out, type_, v)
            if r and len(res['viol']) < 10:
                res['viol'].append(('resync/%s/state%02X+%d/%s' % (r[0], status, len(buf), type_),
                                    {'kind': 'resync', 'prefix': inp, 'out': out, 'type': type_, 'v': v},
                                    r[1] + ' after prefix %r' % (inp,)))
    return res


_WITNESS = None


def _init_witness(w):
    global _WITNESS
    _WITNESS = w


def domain_worker(lines):
    """Every witness prefix x every message row of this batch."""
    res = {'n': 0, 'viol': [], 'samples': [], 'counts': {}}
    for line in lines:
        type_, v, bs = c01.parse_row(core.ints_of(line))
        for (status, buf), (inp, out) in _WITNESS.items():
            res['n'] += 1
            r = check_resync(inp, out, type_, v)
            if r and len(res['viol']) < 10:
                res['viol'].append(('resync/%s/state%02X+%d/%s' % (r[0], status, len(buf), type_),
                                    {'kind': 'resync', 'prefix': inp, 'out': out, 'type': type_, 'v': v},
                                    r[1] + ' after prefix %r' % (inp,)))
    return res


def check_concat(encs):
    import mido
    data = [b for e in encs for b in e]
    try:
        got = mido.parse_all(data)
    except Exception as e:
        return 'concat-raises/' + type(e).__name__, repr(e)
    exp = [mido.Message.from_bytes(e) for e in encs]
    if got != exp:
        return 'concat', 'parse_all(%r) gave %r expected %r' % (data, got, exp)
    if len({id(m) for m in got}) != len(got):
        return 'concat-shared-objects', 'parse_all(%r) returned one object for several messages' % (data,)
    core.scribble(got)
    return None


def check_rtsysex(inner):
    import mido
    stream = [0xf0] + list(inner) + [0xf7]
    payload = [b for b in inner if b < 128]
    rts = [b for b in inner if b in (248, 250, 251, 252, 254, 255)]
    exp = [[b] for b in rts] + [[0xf0] + payload + [0xf7]]
    for how in ('feed', 'feed_byte'):
        try:
            p = mido.Parser()
            if how == 'feed':
                p.feed(stream)
            else:
                for b in stream:
                    p.feed_byte(b)
            got = list(p)
        except Exception as e:
            return 'rtsysex-raises/' + type(e).__name__, repr(e)
        gb = [list(m.bytes()) for m in got]
        if gb != exp:
            return 'rtsysex', '%s(%r) gave %r expected %r' % (how, stream, gb, exp)
        if got[-1].type != 'sysex' or tuple(got[-1].data) != tuple(payload):
            return 'rtsysex-payload', repr(got[-1])
        if any(m.time != 0 for m in got):
            return 'rtsysex-stamped', 'messages arrive already stamped: %s' % core.srepr(got)
        core.scribble(got)
    return None


def resync_worker(lines):
    res = {'n': 0, 'viol': [], 'samples': [], 'counts': {'concat': 0, 'rtsysex': 0}}
    for line in lines:
        ints = core.ints_of(line)
        res['n'] += 1
        if ints[0] == 1:
            k = ints[1]
            p = 2
            encs = []
            for _ in range(k):
                ln = ints[p]
                encs.append(ints[p + 1:p + 1 + ln])
                p += 1 + ln
            res['counts']['concat'] += 1
            r = check_concat(encs)
            case = {'kind': 'concat', 'encs': encs}
        else:
            inner = ints[2:2 + ints[1]]
            res['counts']['rtsysex'] += 1
            r = check_rtsysex(inner)
            case = {'kind': 'rtsysex', 'inner': inner}
        if r and len(res['viol']) < 10:
            res['viol'].append(('resync/%s' % r[0], case, r[1]))
    if lines:
        res['samples'].append(case)
    return res


def replay(case):
    k = case['kind']
    if k == 'scale':
        from . import c04
        v = c04.check_scale(case['rseed'], sizes=(0x10000,))
        return v and v[0][2]
    if k == 'resync':
        r = check_resync(case['prefix'], case['out'], case['type'], case['v'])
    elif k == 'concat':
        r = check_concat(case['encs'])
    elif k == 'rtsysex':
        r = check_rtsysex(case['inner'])
    elif k == 'trace':
        return c04.replay_trace(case)
    return r and '%s: %s' % r


SMALL_DOMAIN_CFG = """SPECIFICATION Spec
CONSTANTS
 Chans = {0,15}
 Data = {0,1,64,127}
 Pitches <- BoundaryPitches
 Positions <- BoundaryPositions
 SysexAlpha = {0,127}
 SysexMaxLen = 3
 EmitRows = TRUE
INVARIANT RoundTripInv
INVARIANT EmitInv
CHECK_DEADLOCK FALSE
"""


def run(ctx):
    thorough = ctx.tier == 'thorough'
    # scale: long concatenations and very long sysex messages parse back (shared with C04)
    from . import c04
    for key, case, msg in c04.check_scale(ctx.seed + 606, sizes=(0x10000,), nconcat=20000 if thorough else 3000):
        ctx.violation('resync/' + key, case, msg)
    ctx.replayed += 4
    maxlen = 5 if thorough else 4
    witness = {}
    pr = core.ParallelReplay(ctx, worker, batch_size=3000)

    def on_emit(line):
        inp, status, buf, out = parse_tok_row(core.ints_of(line))
        key = (status, tuple(buf))
        if key not in witness or len(inp) < len(witness[key][0]):
            witness[key] = (inp, out)
        pr.push(line)
    res = core.run_tlc('TokStream', tokstream_cfg('ClassAlphabet', maxlen), on_emit=on_emit,
                       raw_ints=True, timeout=3400, heap='16g')
    pr.finish()
    ctx.add_tlc(res, 'TokStream Resync in every state, prefixes <= %d' % maxlen)
    ctx.note('distinct_control_states', len(witness))
    ctx.sample({'control_state_witnesses': [[list(k), v[0]] for k, v in list(witness.items())[:6]]})

    # every control state x a whole message domain
    pr = core.ParallelReplay(ctx, domain_worker, batch_size=200, initializer=_init_witness,
                             initargs=(witness,))
    dom_cfg = c01.QUICK_CFG if thorough else SMALL_DOMAIN_CFG
    res = core.run_tlc('WireMsgs', dom_cfg, on_emit=pr.push, raw_ints=True, timeout=1200)
    n = pr.finish()
    ctx.add_tlc(res, 'WireMsgs domain for M')
    ctx.note('state_x_message_cases', n)

    # concatenations and real-time inside sysex
    pr = core.ParallelReplay(ctx, resync_worker, batch_size=1000)
    res = core.run_tlc('TokResync', """SPECIFICATION Spec
CONSTANTS
 MaxList = %d
 MaxInner = %d
INVARIANT ConcatParsesBack
INVARIANT RealtimeInsideSysex
INVARIANT Emit
CHECK_DEADLOCK FALSE
""" % (3, 6 if thorough else 5), on_emit=pr.push, raw_ints=True, timeout=1200)
    pr.finish()
    ctx.add_tlc(res, 'TokResync concat<=3, inner<=%d' % (6 if thorough else 5))

    # V: long sysex with real-time bytes at every offset
    rng = random.Random(ctx.seed + 6)
    traces, meta = [], []
    direct = 0
    for ln in range(0, 65, 1 if thorough else 4):
        payload = [rng.randrange(128) for _ in range(ln)]
        for off in range(ln + 1):
            nrt = rng.choice([1, 1, 2, 3])
            inner = payload[:off] + [rng.choice([248, 250, 251, 252, 254, 255, 249, 253])
                                     for _ in range(nrt)] + payload[off:]
            r = check_rtsysex(inner)
            direct += 1
            if r:
                ctx.violation('resync/%s' % r[0], {'kind': 'rtsysex', 'inner': inner}, r[1])
            if off % 5 == 0:
                rseed = rng.randrange(1 << 30)
                stream = [0xf0] + inner + [0xf7]
                traces.append(c04.record_trace(random.Random(rseed), stream))
                meta.append((rseed, stream))
    ctx.replayed += direct
    ctx.note('long_sysex_rt_cases', direct)
    for idx, furthest in core.validate_batch(ctx, 'TokenizerTrace', traces, 'TokenizerTrace long sysex with real-time bytes'):
        rseed, stream = meta[idx]
        ctx.violation('resync/trace-rejected', {'kind': 'trace', 'rseed': rseed, 'stream': stream},
                      'trace rejected at event %d' % furthest)
    ctx.exhaustive = True
    ctx.constants = {'prefix_maxlen': maxlen, 'alphabet': 'ClassAlphabet',
                     'message_domain': 'C01 quick domain' if thorough else 'small domain'}
    ctx.assumptions += ['"all prefixes" = all reachable control states of the tokenizer; TLC evaluates Resync in each, the driver replays every prefix up to the bound']
