"""C20 - backend selection and port-opening arguments resolve deterministically.

G: BackendSel: TLC enumerates the full configuration grid (41 472 cells:
   explicit name absent / plain / with API suffix x api keyword x MIDO_BACKEND
   unset / plain / with suffix x each MIDO_DEFAULT_* set or not x use_environ x
   load x module with / without native IOPort and get_devices x six calls x
   port name given or not x api in the call), checks the internal consistency
   of the precedence function and emits each cell with the expected module,
   import time, constructor calls, name listing and query api.  Every cell is
   executed against recording fake backend modules served by a meta-path
   finder (so the moment of import is observed), with os.environ patched.
   Driver level: set_backend() rebinds mido.open_* / get_*.
"""
import importlib.abc
import importlib.machinery
import json
import os
import sys
import types

from .. import core, tlaval

MODNAMES = {'mod': 'vf_fake_mod', 'emod': 'vf_fake_emod', 'dmod': 'vf_fake_dmod'}
DEVICES = [('a', True, False), ('b', True, False), ('c', True, False), ('x', True, False),
           ('c', False, True), ('a', False, True), ('y', False, True), ('b', False, True), ('d', True, True)]


# the API names are opaque strings owned by the backend module: mixed case, digits, a blank
REAL = {'NA': 'alsa_Seq', 'EA': 'coreMidi 2', 'KA': 'Kw-api'}


class Rec:
    def __init__(self):
        self.imports = []
        self.calls = []
        self.native = True
        self.getdev = True
        self.intflags = False          # device flags reported as 1/0 (as mido's portmidi and pygame backends do)
        self.ioport_raises = None      # exception class the native IOPort constructor raises


REC = Rec()


def _make_module(fullname):
    m = types.ModuleType(fullname)
    short = [k for k, v in MODNAMES.items() if v == fullname][0]

    class _Port:
        CLS = '?'

        def __init__(self, name=None, **kwargs):
            # REC.expand: the port reports the full name of the device it ended up on (rtmidi does)
            self.name = ('%s:%s MIDI 1 20:0' % (name, name)) if (getattr(REC, 'expand', False) and name) else name
            self.closed = False
            self._messages = __import__('collections').deque()
            REC.calls.append((short, self.CLS, name, dict(kwargs)))

        def close(self):
            self.closed = True

    class Input(_Port):
        CLS = 'Input'

    class Output(_Port):
        CLS = 'Output'

    class IOPort(_Port):
        CLS = 'IOPort'

        def __init__(self, name=None, **kwargs):
            _Port.__init__(self, name, **kwargs)
            if REC.ioport_raises is not None:
                raise REC.ioport_raises("the device's own failure")

    m.Input, m.Output = Input, Output
    if REC.native:
        m.IOPort = IOPort
    if REC.getdev:
        def get_devices(**kwargs):
            REC.calls.append((short, 'get_devices', None, dict(kwargs)))
            if REC.intflags:
                return [{'name': n, 'is_input': int(i), 'is_output': int(o)} for n, i, o in DEVICES]
            return [{'name': n, 'is_input': i, 'is_output': o} for n, i, o in DEVICES]
        m.get_devices = get_devices
    return m


class Finder(importlib.abc.MetaPathFinder, importlib.abc.Loader):
    def find_spec(self, fullname, path, target=None):
        if fullname in MODNAMES.values():
            return importlib.machinery.ModuleSpec(fullname, self)
        return None

    def create_module(self, spec):
        REC.imports.append(spec.name)
        return _make_module(spec.name)

    def exec_module(self, module):
        pass


_FINDER = Finder()


def run_cell(row):
    import mido.backends.backend as bb
    (name, apikw, envb, envin, envout, envio, useenv, load, native, getdev, call, pname, capi,
     module, open_, import_at, constructed, listing, qapi) = row
    REC.imports, REC.calls = [], []
    REC.native, REC.getdev = bool(native), bool(getdev)
    REC.intflags = bool(envin) != bool(load)
    REC.ioport_raises = None
    for v in MODNAMES.values():
        sys.modules.pop(v, None)
    saved_env = dict(os.environ)
    saved_default = bb.DEFAULT_BACKEND
    if _FINDER not in sys.meta_path:
        sys.meta_path.insert(0, _FINDER)
    try:
        for k in ('MIDO_BACKEND', 'MIDO_DEFAULT_INPUT', 'MIDO_DEFAULT_OUTPUT', 'MIDO_DEFAULT_IOPORT'):
            os.environ.pop(k, None)
        if envb != 'unset':
            os.environ['MIDO_BACKEND'] = MODNAMES['emod'] + ('/' + REAL['EA'] if envb == 'withapi' else '')
        if envin:
            os.environ['MIDO_DEFAULT_INPUT'] = 'envin'
        if envout:
            os.environ['MIDO_DEFAULT_OUTPUT'] = 'envout'
        if envio:
            os.environ['MIDO_DEFAULT_IOPORT'] = 'envio'
        bb.DEFAULT_BACKEND = MODNAMES['dmod']
        kw = {}
        if apikw:
            kw['api'] = REAL['KA']
        arg = None if name == 'absent' else MODNAMES['mod'] + ('/' + REAL['NA'] if name == 'withapi' else '')
        try:
            be = bb.Backend(arg, load=bool(load), use_environ=bool(useenv), **kw)
        except Exception as e:
            return 'construct-raises/%s' % type(e).__name__, 'Backend(%r, %r) raised %r' % (arg, kw, e)
        at_construct = list(REC.imports)
        ckw = {'api': 'CA'} if capi else {}
        try:
            f = getattr(be, call)
            if call.startswith('open'):
                result = f('given', **ckw) if pname else f(**ckw)
            else:
                result = f(**ckw)
        except Exception as e:
            return ('call-raises/%s' % type(e).__name__,
                    '%s on Backend(%r, %r) raised %r' % (call, arg, kw, e))
        # ---- which module, and when
        imported = list(REC.imports)
        want = MODNAMES[module]
        if open_:
            ok_mods = {MODNAMES['emod'], MODNAMES['dmod']}
        else:
            ok_mods = {want}
        if len(imported) != 1 or imported[0] not in ok_mods:
            return 'wrong-module', 'imported %r, expected %r' % (imported, sorted(ok_mods))
        if import_at == 'construct' and not at_construct:
            return 'import-late', 'load=True but the module was not imported by the constructor'
        if import_at == 'call' and at_construct:
            return 'import-early', 'the module was imported before first use (load=False)'
        used_default = imported[0] == MODNAMES['dmod'] and open_

        def api_ok(got, exp):
            if used_default and exp == 'EA':
                return got is None
            return got == (None if exp == 'none' else REAL.get(exp, exp))
        # ---- constructors
        ctor = [c for c in REC.calls if c[1] in ('Input', 'Output', 'IOPort')]
        if len(ctor) != len(constructed):
            return 'constructors', 'constructed %r expected %r' % ([c[1:3] for c in ctor], constructed)
        for got, exp in zip(ctor, constructed):
            gname = got[2]
            ename = None if exp['name'] == 'none' else exp['name']
            if got[1] != exp['cls']:
                return 'constructor-class', 'constructed %s expected %s' % (got[1], exp['cls'])
            if gname != ename:
                return 'port-name/%s' % call, '%s got name %r expected %r' % (got[1], gname, ename)
            if not api_ok(got[3].get('api'), exp['api']):
                return 'api/%s' % call, '%s got api %r expected %r' % (got[1], got[3].get('api'), exp['api'])
        if call == 'open_ioport' and not native:
            import mido.ports
            if not isinstance(result, mido.ports.IOPort):
                return 'ioport-wrapper', 'open_ioport returned %r' % (result,)
        # ---- listings
        if call.startswith('get'):
            if list(result) != listing:
                return 'listing/%s' % call, '%s returned %r expected %r' % (call, result, listing)
            q = [c for c in REC.calls if c[1] == 'get_devices']
            if getdev:
                if len(q) != 1:
                    return 'get_devices-calls', '%d calls' % len(q)
                if not api_ok(q[0][3].get('api'), qapi):
                    return 'api/get_devices', 'get_devices got api %r expected %r' % (q[0][3].get('api'), qapi)
        return None
    finally:
        os.environ.clear()
        os.environ.update(saved_env)
        bb.DEFAULT_BACKEND = saved_default
        for v in MODNAMES.values():
            sys.modules.pop(v, None)


def worker(lines):
    res = {'n': 0, 'viol': [], 'samples': [], 'counts': {'open_cells': 0}}
    for line in lines:
        row = tlaval.parse(json.loads(line))[1:]
        res['n'] += 1
        if row[14]:
            res['counts']['open_cells'] += 1
        r = run_cell(row)
        if r and len(res['viol']) < 10:
            cfgs = 'name=%s apikw=%s MIDO_BACKEND=%s use_environ=%s call=%s' % (row[0], row[1], row[2], row[6], row[10])
            key = r[0]
            if key.startswith(('construct-raises', 'call-raises')) and row[1] and (
                    row[0] == 'withapi' or (row[0] == 'absent' and row[2] == 'withapi')):
                key += '/api-keyword-with-suffix'
            res['viol'].append(('backend/' + key, {'row': row}, r[1] + ' [' + cfgs + ']'))
    if lines:
        res['samples'].append({'cell': row[:13], 'expected': row[13:]})
    return res


def check_set_backend():
    import mido
    saved = {k: getattr(mido, k) for k in dir(mido) if k.split('_')[0] in ('open', 'get') or k == 'backend'}
    REC.imports, REC.calls = [], []
    REC.native, REC.getdev = True, True
    if _FINDER not in sys.meta_path:
        sys.meta_path.insert(0, _FINDER)
    try:
        mido.set_backend(MODNAMES['mod'] + '/NA')
        if REC.imports:
            return 'set_backend imported the module before first use'
        mido.open_input('x')
        mido.open_output()
        names = mido.get_ioport_names()
        if [c[1:3] for c in REC.calls[:2]] != [('Input', 'x'), ('Output', None)]:
            return 'after set_backend the top-level functions called %r' % (REC.calls,)
        if any(c[3].get('api') != 'NA' for c in REC.calls):
            return 'api suffix did not reach %r' % (REC.calls,)
        if names != ['a', 'b', 'c', 'd']:
            return 'get_ioport_names() = %r' % (names,)
        if mido.backend.name != MODNAMES['mod'] or mido.open_input.__self__ is not mido.backend:
            return 'mido.backend / bound methods not rebound'
        # the same module again with another API: everything must be rebound
        REC.calls = []
        mido.set_backend(MODNAMES['mod'] + '/NB')
        mido.open_output('y')
        mido.get_input_names()
        if [c[3].get('api') for c in REC.calls] != ['NB', 'NB']:
            return 'after set_backend(same module, other API) the calls carried %r' % (REC.calls,)
        b3 = mido.Backend(MODNAMES['mod'], api='KC', use_environ=False)
        mido.set_backend(b3)
        REC.calls = []
        mido.open_input()
        if mido.backend is not b3 or mido.open_ioport.__self__ is not b3 or REC.calls[0][3].get('api') != 'KC':
            return 'set_backend(Backend object for the current module) did not rebind (%r)' % (REC.calls,)
        # a Backend object is used as it was configured: use_environ=False stays False
        saved_env = os.environ.get('MIDO_DEFAULT_INPUT')
        os.environ['MIDO_DEFAULT_INPUT'] = 'from-the-environment'
        try:
            b4 = mido.Backend(MODNAMES['mod'], use_environ=False)
            mido.set_backend(b4)
            REC.calls = []
            mido.open_input()
            b4.open_input()
            if b4.use_environ is not False or [c[2] for c in REC.calls] != [None, None]:
                return ('set_backend(Backend(..., use_environ=False)): use_environ is now %r and open_input() opened %r' % (
                    b4.use_environ, [c[2] for c in REC.calls]))
        finally:
            if saved_env is None:
                os.environ.pop('MIDO_DEFAULT_INPUT', None)
            else:
                os.environ['MIDO_DEFAULT_INPUT'] = saved_env
        sys.modules.pop(MODNAMES['emod'], None)
        b2 = mido.Backend(MODNAMES['emod'])
        REC.imports = []
        mido.set_backend(b2)
        if REC.imports or b2.loaded:
            return 'set_backend(Backend object) imported the module before first use'
        if mido.backend is not b2 or mido.get_input_names.__self__ is not b2:
            return 'set_backend(Backend object) did not rebind'
        return None
    except Exception as e:
        return 'set_backend sequence raised %r' % (e,)
    finally:
        for k, v in saved.items():
            setattr(mido, k, v)
        for v in MODNAMES.values():
            sys.modules.pop(v, None)


def check_env_read_each_call():
    """One Backend object, several calls, the environment changing in between:
    every call must see the environment as it is at that moment."""
    import mido.backends.backend as bb
    REC.imports, REC.calls = [], []
    REC.native, REC.getdev = False, True
    saved_env = dict(os.environ)
    if _FINDER not in sys.meta_path:
        sys.meta_path.insert(0, _FINDER)
    try:
        for k in ('MIDO_BACKEND', 'MIDO_DEFAULT_INPUT', 'MIDO_DEFAULT_OUTPUT', 'MIDO_DEFAULT_IOPORT'):
            os.environ.pop(k, None)
        be = bb.Backend(MODNAMES['mod'])
        steps = [({'MIDO_DEFAULT_INPUT': 'one'}, 'open_input', [('Input', 'one')]),
                 ({'MIDO_DEFAULT_INPUT': 'two'}, 'open_input', [('Input', 'two')]),
                 ({'MIDO_DEFAULT_INPUT': None}, 'open_input', [('Input', None)]),
                 ({'MIDO_DEFAULT_IOPORT': 'io', 'MIDO_DEFAULT_OUTPUT': 'out'}, 'open_ioport', [('Input', 'io'), ('Output', 'io')]),
                 ({'MIDO_DEFAULT_IOPORT': None}, 'open_ioport', [('Input', None), ('Output', 'out')]),
                 ({'MIDO_DEFAULT_OUTPUT': None, 'MIDO_DEFAULT_INPUT': 'three'}, 'open_output', [('Output', None)]),
                 ({}, 'open_ioport', [('Input', 'three'), ('Output', None)])]
        # use_environ is an ordinary attribute: switched off and on again on the same object
        os.environ['MIDO_DEFAULT_INPUT'] = 'zero'
        for flag, exp0 in ((False, None), (True, 'zero'), (False, None)):
            be.use_environ = flag
            REC.calls = []
            be.open_input()
            if [c[2] for c in REC.calls] != [exp0] or be.use_environ is not flag:
                return 'after use_environ = %r open_input() opened %r (use_environ reads %r)' % (
                    flag, [c[2] for c in REC.calls], be.use_environ)
        be.use_environ = True
        os.environ.pop('MIDO_DEFAULT_INPUT', None)
        for env, call, exp in steps:
            for k, v in env.items():
                if v is None:
                    os.environ.pop(k, None)
                else:
                    os.environ[k] = v
            REC.calls = []
            getattr(be, call)()
            got = [(c[1], c[2]) for c in REC.calls]
            if got != exp:
                return '%s after the environment changed to %r constructed %r, expected %r' % (call, env, got, exp)
        return None
    except Exception as e:
        return 'sequence raised %r' % (e,)
    finally:
        os.environ.clear()
        os.environ.update(saved_env)
        for v in MODNAMES.values():
            sys.modules.pop(v, None)


def check_native_ioport_failure_propagates():
    """A module with a native IOPort: whatever its constructor raises reaches the
    caller, and no Input/Output pair is opened instead."""
    import mido.backends.backend as bb
    if _FINDER not in sys.meta_path:
        sys.meta_path.insert(0, _FINDER)
    try:
        for exc in (AttributeError, OSError, TypeError, KeyError):
            for v in MODNAMES.values():
                sys.modules.pop(v, None)
            REC.imports, REC.calls = [], []
            REC.native, REC.getdev, REC.ioport_raises = True, True, exc
            be = bb.Backend(MODNAMES['mod'], use_environ=False)
            try:
                be.open_ioport('p')
            except exc:
                pass
            except Exception as e:
                return 'native IOPort raised %s, open_ioport raised %r instead' % (exc.__name__, e)
            else:
                return 'native IOPort raised %s, open_ioport returned normally (constructed %r)' % (
                    exc.__name__, [c[1] for c in REC.calls])
            if [c[1] for c in REC.calls] != ['IOPort']:
                return 'native IOPort raised %s: constructors called %r' % (exc.__name__, [c[1] for c in REC.calls])
        return None
    finally:
        REC.ioport_raises = None
        for v in MODNAMES.values():
            sys.modules.pop(v, None)


def check_concurrent_first_use():
    """Two threads make the first use of the same backend module at the same time (the module
    is an ordinary file whose execution pauses half-way): both get the complete module, so both
    open the module's native IOPort."""
    import threading
    import mido.backends.backend as bb
    d = core.scratch('backendmod')
    name = 'vf_slow_backend_%d' % os.getpid()
    with open(os.path.join(d, name + '.py'), 'w') as f:
        f.write(
            "import threading\n"
            "calls = []\n"
            "gate = threading.Event()\nentered = threading.Event()\n"
            "class _P:\n"
            "    def __init__(self, name=None, **kw):\n"
            "        self.name = name; self.closed = False; calls.append((type(self).__name__, name))\n"
            "class Input(_P): pass\n"
            "class Output(_P): pass\n"
            "entered.set()\n"
            "gate.wait(5)\n"
            "class IOPort(_P): pass\n"
            "def get_devices(**kw): return []\n")
    sys.path.insert(0, d)
    box = {}
    try:
        def use(tag):
            try:
                box[tag] = type(bb.Backend(name, use_environ=False).open_ioport('p' + tag)).__name__
            except Exception as e:
                box[tag] = 'raised %r' % (e,)
        t1 = threading.Thread(target=use, args=('1',), daemon=True)
        t1.start()
        import time
        deadline = time.time() + 5
        # (the module object is in sys.modules before its body has run: wait for the body to get going)
        while not hasattr(sys.modules.get(name), 'entered') and time.time() < deadline:
            time.sleep(0.001)
        mod = sys.modules.get(name)
        if mod is None or not hasattr(mod, 'entered') or not mod.entered.wait(5):
            return 'the module was never imported'
        t2 = threading.Thread(target=use, args=('2',), daemon=True)
        t2.start()
        t2.join(0.3)                 # it has to wait for the import to finish
        early = box.get('2')
        mod.gate.set()
        t1.join(5)
        t2.join(5)
        if box.get('1') != 'IOPort' or box.get('2') != 'IOPort' or early is not None:
            return ('first use from two threads while the module is still being imported: the threads got %r '
                    '(the second one returned %s before the import had finished); constructors called: %r' % (
                        box, 'a port' if early else 'nothing', getattr(mod, 'calls', None)))
        return None
    except Exception as e:
        return 'sequence raised %r' % (e,)
    finally:
        try:
            sys.modules[name].gate.set()
        except Exception:
            pass
        sys.path.remove(d)
        sys.modules.pop(name, None)


def check_call_kwargs_do_not_persist():
    """Keyword arguments of one open_*() call reach that call's constructors only."""
    import mido.backends.backend as bb
    REC.imports, REC.calls = [], []
    REC.native, REC.getdev = False, True
    if _FINDER not in sys.meta_path:
        sys.meta_path.insert(0, _FINDER)
    try:
        be = bb.Backend(MODNAMES['mod'] + '/NA', use_environ=False)
        plain = bb.Backend(MODNAMES['mod'], use_environ=False)
        steps = [(be, 'open_input', {'api': 'X', 'client_name': 'c1'}, [{'api': 'X', 'client_name': 'c1'}]),
                 (be, 'open_input', {}, [{'api': 'NA'}]),
                 (be, 'open_output', {'foo': 1}, [{'api': 'NA', 'foo': 1}]),
                 (be, 'open_ioport', {}, [{'api': 'NA'}, {'api': 'NA'}]),
                 (be, 'open_ioport', {'api': 'Y'}, [{'api': 'Y'}, {'api': 'Y'}]),
                 (be, 'open_output', {}, [{'api': 'NA'}]),
                 (plain, 'open_input', {'api': 'Z', 'bar': 2}, [{'api': 'Z', 'bar': 2}]),
                 (plain, 'open_input', {}, [{}]),
                 (plain, 'open_ioport', {}, [{}, {}])]
        std = ('virtual', 'callback', 'autoreset')
        for b, call, kw, exp in steps:
            REC.calls = []
            passed = dict(kw)
            getattr(b, call)('p', **passed)
            got = [{k: v for k, v in c[3].items() if k not in std} for c in REC.calls]
            if got != exp:
                return '%s(%r) passed %r to the constructors, expected %r' % (call, kw, got, exp)
            if passed != kw:
                return "%s changed the caller's keyword dictionary to %r" % (call, passed)
        return None
    except Exception as e:
        return 'sequence raised %r' % (e,)
    finally:
        for v in MODNAMES.values():
            sys.modules.pop(v, None)


def replay(case):
    if case.get('kind') == 'first_use_threads':
        return check_concurrent_first_use()
    if case.get('kind') == 'native_ioport':
        return check_native_ioport_failure_propagates()
    if case.get('kind') == 'call_kwargs':
        return check_call_kwargs_do_not_persist()
    if case.get('kind') == 'env_each_call':
        return check_env_read_each_call()
    if case.get('kind') == 'set_backend':
        return check_set_backend()
    r = run_cell(case['row'])
    return r and '%s: %s' % r


def run(ctx):
    pr = core.ParallelReplay(ctx, worker, batch_size=1000)
    res = core.run_tlc('BackendSel', """SPECIFICATION Spec
INVARIANT ExplicitBeatsEnvironment
INVARIANT EnvironmentBeatsDefault
INVARIANT KeywordBeatsSuffix
INVARIANT SuffixOnlyOfSelectingName
INVARIANT ApiReachesEveryConstructor
INVARIANT ExplicitPortBeatsEnvironment
INVARIANT NoEnvironmentWithoutUseEnviron
INVARIANT IOPortPairing
INVARIANT Emit
CHECK_DEADLOCK FALSE
""", on_emit=pr.push, raw_ints=True, timeout=3000)
    n = pr.finish()
    ctx.add_tlc(res, 'BackendSel full grid')
    if n != res.distinct:
        raise core.Machinery('replayed %d rows, TLC found %d states' % (n, res.distinct))
    r = check_concurrent_first_use()
    ctx.replayed += 1
    if r:
        ctx.violation('backend/concurrent-first-use', {'kind': 'first_use_threads'}, r)
    r = check_native_ioport_failure_propagates()
    ctx.replayed += 1
    if r:
        ctx.violation('backend/native-ioport-failure', {'kind': 'native_ioport'}, r)
    r = check_call_kwargs_do_not_persist()
    ctx.replayed += 1
    if r:
        ctx.violation('backend/call-kwargs-persist', {'kind': 'call_kwargs'}, r)
    r = check_set_backend()
    ctx.replayed += 1
    if r:
        ctx.violation('backend/set_backend', {'kind': 'set_backend'}, r)
    r = check_env_read_each_call()
    ctx.replayed += 1
    if r:
        ctx.violation('backend/environment-cached', {'kind': 'env_each_call'}, r)
    ctx.exhaustive = True
    ctx.assumptions += [
        'backend modules are recording fakes served by a meta-path finder; DEFAULT_BACKEND is patched to a fake so that the default can be observed',
        'whether use_environ=False also disables MIDO_BACKEND is left open: both answers are accepted in those cells',
    ]
