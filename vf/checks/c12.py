"""C12 - merge_tracks keeps every event at its absolute time.

G: MergeCheck: TLC enumerates track lists (<= MaxTracks x <= MaxEvents events,
   small deltas, end_of_track missing / repeated / mid-track), checks that the
   implementation pipeline equals the declarative Merge and the Shape
   invariant, and emits (tracks, expected result); each is merged by the real
   merge_tracks (both skip_checks values) and MidiFile.merged_track, and the
   inputs are compared with copies taken before.
V: random larger inputs merged by the real code and validated by TLC
   (MergeTrace: result = Merge(tracks)).
"""
import json
import os
import random

from .. import core


def parse_row(ints):
    p = 0
    k = ints[p]
    p += 1
    tracks = []
    for _ in range(k):
        n = ints[p]
        p += 1
        tracks.append([(ints[p + 2 * i], ints[p + 2 * i + 1]) for i in range(n)])
        p += 2 * n
    n = ints[p]
    p += 1
    merged = [(ints[p + 2 * i], ints[p + 2 * i + 1]) for i in range(n)]
    return tracks, merged


def mk0(dt, ident):
    """A distinct message per id, of varying type (so that a sort that looks at
    anything but the time is noticed)."""
    import mido
    if ident == 0:
        return mido.MetaMessage('end_of_track', time=dt)
    k, n = ident % 8, ident // 8
    if k == 0:
        return mido.Message('note_on', channel=(n // 128) % 16, note=n % 128, time=dt)
    if k == 1:
        # the release of the very note that id - 1 (a note_on) strikes: on one tick the order
        # attack, release must survive (a zero-length note)
        return mido.Message('note_off' if n % 2 else 'note_on', channel=(n // 128) % 16, note=n % 128,
                            velocity=0, time=dt)
    if k == 2:
        return mido.Message('pitchwheel', pitch=n % 8192, time=dt)
    if k == 3:
        # text or track name (also the empty-looking one); the name of a track is a message like any other
        if n % 3:
            return mido.MetaMessage('track_name', name=str(n), time=dt)
        return mido.MetaMessage('text', text=str(n), time=dt)
    if k == 4:
        return mido.Message('sysex', data=[n % 128, (n // 128) % 128], time=dt)
    if k == 5:
        return mido.Message('aftertouch', channel=(n // 128) % 16, value=n % 128, time=dt)
    if k == 7:
        return mido.UnknownMetaMessage(0x60 + n % 4, data=[(n // 4) % 128, (n // 512) % 128], time=dt)
    return mido.MetaMessage('set_tempo', tempo=n, time=dt)


def ident_of0(m):
    t = m.type
    try:
        if t == 'end_of_track':
            return 0
        if t == 'note_on' and m.velocity != 0:
            return 8 * (m.note + 128 * m.channel)
        if (t == 'note_off' or (t == 'note_on' and m.velocity == 0)):
            if m.velocity != 0 or (t == 'note_off') != bool(m.note % 2):
                return -1
            return 8 * (m.note + 128 * m.channel) + 1
        if t == 'pitchwheel':
            return 8 * m.pitch + 2
        if t == 'text':
            return 8 * int(m.text) + 3 if int(m.text) % 3 == 0 else -1
        if t == 'track_name':
            return 8 * int(m.name) + 3 if int(m.name) % 3 else -1
        if t == 'sysex':
            return 8 * (m.data[0] + 128 * m.data[1]) + 4
        if t == 'aftertouch':
            return 8 * (m.value + 128 * m.channel) + 5
        if t == 'set_tempo':
            return 8 * m.tempo + 6
        if t == 'unknown_meta':
            return 8 * ((m.type_byte - 0x60) + 4 * m.data[0] + 512 * m.data[1]) + 7
    except Exception:
        pass
    return -1


mk, ident_of = mk0, ident_of0


def check_merge(tracks, merged):
    import mido
    # rotate the message kinds with the row, so that every kind (unknown meta
    # messages included) occurs in the enumerated inputs
    off = 8 * ((len(tracks) + sum(dt for t in tracks for dt, _ in t)) % 8)
    off += (sum(len(t) for t in tracks) * 3) % 8

    def mk(dt, i, _mk=mk0):
        return _mk(dt, i + off if i else 0)

    def ident_of(m, _io=ident_of0):
        r = _io(m)
        return r - off if r > 0 else r
    real = [mido.MidiTrack(mk(dt, i) for dt, i in t) for t in tracks]
    if (off // 8) % 3 == 2:
        # immutable (frozen) messages as input
        from mido.frozen import freeze_message
        real = [mido.MidiTrack(freeze_message(m) for m in t) for t in real]
    # (a snapshot that does not go through the library's own copy())
    snapshot = [[(id(m), type(m), dict(vars(m)), hash(m) if (off // 8) % 3 == 2 else 0) for m in t] for t in real]
    outs = []
    try:
        outs.append(('merge_tracks', mido.merge_tracks(real)))
        outs.append(('merge_tracks/skip_checks', mido.merge_tracks(real, skip_checks=True)))
        outs.append(('merge_tracks/lists', mido.merge_tracks([list(t) for t in real])))
        outs.append(('merge_tracks/generator-of-tuples', mido.merge_tracks(tuple(t) for t in real)))
        outs.append(('merged_track', mido.MidiFile(tracks=real).merged_track))
    except Exception as e:
        return 'raises/' + type(e).__name__, repr(e)
    for how, res in outs:
        if not isinstance(res, mido.MidiTrack):
            return 'type', '%s returned %r' % (how, type(res))
        got = [(m.time, ident_of(m)) for m in res]
        if got != merged:
            return 'wrong-result', '%s gave %r expected %r' % (how, got, merged)
    # the same message OBJECT may occur several times (track * 2, one object appended
    # repeatedly): merging must treat the occurrences like equal but distinct messages
    if any(real):
        shared = [mido.MidiTrack(list(t) * 2) for t in real]
        distinct = [mido.MidiTrack(m.copy() for m in t) for t in shared]
        for sk in (False, True):
            try:
                a = [(m.time, ident_of(m)) for m in mido.merge_tracks(shared, skip_checks=sk)]
                b = [(m.time, ident_of(m)) for m in mido.merge_tracks(distinct, skip_checks=sk)]
            except Exception as e:
                return 'raises/' + type(e).__name__, repr(e)
            if a != b:
                return ('repeated-objects', 'tracks with repeated message objects (skip_checks=%s) merge to %r, '
                        'with distinct copies to %r' % (sk, a, b))
    # the caller owns the results: modifying them must not influence anything else
    for how, res in outs:
        for m in res:
            try:
                m.time += 1000
            except (AttributeError, ValueError):
                pass                       # a frozen result
    # inputs untouched
    for t, snap in zip(real, snapshot):
        if len(t) != len(snap):
            return 'input-modified', 'track length changed'
        for m, (oid, ty, vd, h) in zip(t, snap):
            if id(m) != oid or type(m) is not ty or dict(vars(m)) != vd or (h and hash(m) != h):
                return 'input-modified', 'input message changed to %s (was %s %r)' % (core.srepr(m), ty.__name__, vd)
    return None


def check_special_inputs():
    """Inputs the model's ids cannot express: events that are equal (every one of them is kept),
    and delta times that are no integers (kept exactly; only save() needs integers)."""
    import mido
    M, MM = mido.Message, mido.MetaMessage
    out = []
    same = [MM('set_tempo', tempo=500000, time=0), MM('time_signature', numerator=3, denominator=4, time=0),
            MM('key_signature', key='D', time=0), M('note_on', note=60, time=0)]
    t1 = mido.MidiTrack([m.copy() for m in same] + [M('note_on', note=1, time=5), MM('set_tempo', tempo=500000, time=0)])
    t2 = mido.MidiTrack([m.copy() for m in same] + [m.copy() for m in same] + [MM('set_tempo', tempo=500000, time=5)])
    for sk in (False, True):
        try:
            r = mido.merge_tracks([t1, t2], skip_checks=sk)
        except Exception as e:
            out.append(('raises/%s/identical-events' % type(e).__name__, repr(e)))
            continue
        kinds = sorted((m.type, m.time) for m in r)
        exp = sorted([(m.type, 0) for m in same] * 3 + [('note_on', 5), ('set_tempo', 0), ('set_tempo', 0), ('end_of_track', 0)])
        if kinds != exp:
            out.append(('wrong-result/identical-events', 'equal events on one tick: merged to %r expected %r' % (kinds, exp)))
    a = mido.MidiTrack([M('note_on', note=1, time=0.5), M('note_on', note=2, time=0.5), M('note_on', note=3, time=0.1 + 0.2)])
    b = mido.MidiTrack([M('note_on', note=4, time=0.25), M('note_on', note=5, time=1.5), MM('end_of_track', time=2.5)])
    try:
        r = mido.merge_tracks([a, b])
        got = [(getattr(m, 'note', 0), m.time) for m in r]
        exp = [(4, 0.25), (1, 0.25), (2, 0.5), (3, (0.5 + 0.5 + (0.1 + 0.2)) - 1.0), (5, 1.75 - (1.0 + (0.1 + 0.2))), (0, 2.5)]
        if [g[0] for g in got] != [e[0] for e in exp] or any(abs(g[1] - e[1]) > 1e-9 for g, e in zip(got, exp)):
            out.append(('wrong-result/fractional-times', 'tracks with fractional delta times merged to %r expected %r' % (got, exp)))
    except Exception as e:
        out.append(('raises/%s/fractional-times' % type(e).__name__, repr(e)))
    return out[:3]


def check_million(n=(1 << 20) + 1):
    """Scale: more than 2**20 messages in one merge.  The input has a shape whose
    merge is immediate: track A has n-3 notes one tick apart, track B three
    controller messages at ticks 5 (a tie with A, A first), n+5 and n+12."""
    import mido
    core.stir()
    M = mido.Message
    a = mido.MidiTrack(M('note_on', note=i % 128, time=1) for i in range(n - 3))
    b = mido.MidiTrack([M('control_change', control=1, time=5), M('control_change', control=2, time=n),
                        M('control_change', control=3, time=7)])
    try:
        r = mido.merge_tracks([a, b], skip_checks=True)
    except Exception as e:
        return 'raises/%s/scale' % type(e).__name__, 'merging %d messages raised %r' % (n, e)
    if len(r) != n + 1:
        return 'wrong-result/scale', 'merging %d messages gave %d' % (n, len(r))
    k = 0
    for pos, m in enumerate(r):
        if pos == 5:
            ok = m.type == 'control_change' and m.control == 1 and m.time == 0
        elif pos == n - 2:
            ok = m.type == 'control_change' and m.control == 2 and m.time == 8
        elif pos == n - 1:
            ok = m.type == 'control_change' and m.control == 3 and m.time == 7
        elif pos == n:
            ok = m.type == 'end_of_track' and m.time == 0
        else:
            ok = m.type == 'note_on' and m.note == k % 128 and m.time == 1
            k += 1
        if not ok:
            return 'wrong-result/scale', 'merging %d messages: message %d of the result is %s' % (n, pos, core.srepr(m))
    if any(m.time != 1 for m in a[:1000]) or len(a) != n - 3 or b[1].time != n:
        return 'input-modified/scale', 'inputs changed'
    return None


def worker(lines):
    res = {'n': 0, 'viol': [], 'samples': [], 'counts': {'with_mid_track_eot': 0}}
    for line in lines:
        tracks, merged = parse_row(core.ints_of(line))
        res['n'] += 1
        if any(i == 0 and k < len(t) - 1 for t in tracks for k, (d, i) in enumerate(t)):
            res['counts']['with_mid_track_eot'] += 1
        r = check_merge(tracks, merged)
        if r and len(res['viol']) < 10:
            res['viol'].append(('merge/' + r[0], {'tracks': tracks, 'merged': merged},
                                r[1] + ' for tracks %r' % (tracks,)))
    if lines:
        res['samples'].append({'tracks': tracks, 'expected': merged})
    return res


def replay(case):
    if case.get('kind') == 'special':
        v = check_special_inputs()
        return v and '%s: %s' % v[0]
    if case.get('kind') == 'million':
        r = check_million()
        return r and '%s: %s' % r
    if case.get('random'):
        rng = random.Random(case['rseed'])
        tracks = random_tracks(rng)
        rec = run_real(tracks)
        ctx = core.Ctx('C12', 'quick', 0)
        rej = validate(ctx, [rec])
        return rej and 'merge of %r gave %r' % (tracks, rec['result'])
    r = check_merge([[tuple(x) for x in t] for t in case['tracks']], [tuple(x) for x in case['merged']])
    return r and '%s: %s' % r


def random_tracks(rng):
    nt = rng.choice([0, 1, 2, 3, 4, 6])
    tracks = []
    ident = 1
    big = 2 if rng.random() < 0.3 else 0         # absolute times beyond 2**28 ticks
    for t in range(nt):
        evs = []
        for _ in range(rng.choice([0, 1, 3, 10, 40])):
            dt = rng.choice([0, 0, 1, 2, 480, rng.randrange(1000), rng.randrange(10 ** 6)])
            if big and rng.random() < 0.2:
                big -= 1
                dt = rng.choice([0x0fffffff, 200000000, 0x0ffffff0])
            if rng.random() < 0.12:
                evs.append((dt, 0))
            else:
                evs.append((dt, ident))
                ident += 1
        tracks.append(evs)
    return tracks


def run_real(tracks):
    import mido
    real = [mido.MidiTrack(mk(dt, i) for dt, i in t) for t in tracks]
    try:
        res = mido.merge_tracks(real)
        result = [[int(m.time), ident_of(m)] for m in res]
    except Exception as e:
        result = [[-1, -1]]
    return {'tracks': [[list(e) for e in t] for t in tracks], 'result': result}


def validate(ctx, recs):
    work = core.scratch('trace')
    path = os.path.join(work, 'merge.json')
    with open(path, 'w') as f:
        json.dump(recs, f)
    rejected = []

    def on_print(val):
        if isinstance(val, list) and val and val[0] == 'REJECTED':
            rejected.append(val[1] - 1)
    res = core.run_tlc('MergeTrace', "SPECIFICATION Spec\nINVARIANT Judge\nCHECK_DEADLOCK FALSE\n",
                       on_print=on_print, env={'TRACE_FILE': path})
    ctx.add_tlc(res, 'MergeTrace')
    ctx.validated += len(recs)
    return rejected


def run(ctx):
    thorough = ctx.tier == 'thorough'
    # scale (runs in its own process while TLC works)
    import multiprocessing as mp_
    scale_pool = mp_.get_context('fork').Pool(1)
    scale_job = scale_pool.apply_async(check_million)
    plans = [(2, 3, '{0, 1, 2}')] if not thorough else [(2, 3, '{0, 1, 2, 5}'), (3, 2, '{0, 1, 2}')]
    for mt, me, dl in plans:
        pr = core.ParallelReplay(ctx, worker, batch_size=2000)
        res = core.run_tlc('MergeCheck', """SPECIFICATION Spec
CONSTANTS
 MaxTracks = %d
 MaxEvents = %d
 Deltas = %s
INVARIANT PipelineAgrees
INVARIANT Shape
INVARIANT Emit
CHECK_DEADLOCK FALSE
""" % (mt, me, dl), on_emit=pr.push, raw_ints=True, timeout=3000, heap='16g')
        n = pr.finish()
        ctx.add_tlc(res, 'MergeCheck tracks<=%d events<=%d deltas %s' % (mt, me, dl))
        if n != res.distinct:
            raise core.Machinery('replayed %d rows, TLC found %d states' % (n, res.distinct))
    rng = random.Random(ctx.seed + 12)
    seeds = [rng.randrange(1 << 30) for _ in range(400 if thorough else 120)]
    recs = [run_real(random_tracks(random.Random(s))) for s in seeds]
    for i in validate(ctx, recs):
        ctx.violation('merge/trace-rejected', {'random': True, 'rseed': seeds[i]},
                      'merge_tracks result not the merge of its inputs: %r -> %r' % (
                          recs[i]['tracks'], recs[i]['result'][:20]))
    ctx.sample({'random_trace': {'tracks': [t[:4] for t in recs[0]['tracks'][:3]], 'result': recs[0]['result'][:6]}})
    ctx.exhaustive = True
    ctx.constants = {'plans': plans}
    ctx.assumptions += ['message content is represented by a distinct note_on per event; end_of_track by the real meta message']
    for key, msg in check_special_inputs():
        ctx.violation('merge/' + key, {'kind': 'special'}, msg)
    ctx.replayed += 3
    r = scale_job.get(timeout=1800)
    scale_pool.close()
    ctx.replayed += 1
    ctx.note('largest_merge_messages', (1 << 20) + 1)
    if r:
        ctx.violation('merge/' + r[0], {'kind': 'million'}, r[1])
    # re-entrancy: two threads inside these functions at once, a switch possible before every statement
    from .. import conc
    conc.run_scenarios(ctx, 'C12', 2 if ctx.tier == 'thorough' else 1)
