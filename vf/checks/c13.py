"""C13 - playback timing follows the tempo map.

G: Playback: TLC enumerates files (tracks x events x deltas x tempo changes at
   every position, end_of_track anywhere), checks that the iteration times are
   the tempo-map integral (CumulativeOK) and, for play(), NeverEarly / NoDrift
   over all consumer-delay patterns, and emits per file the expected merged
   messages with their exact delta (in us*tick) and per play behaviour the
   expected sleep amounts and yield times.  The driver builds the real
   MidiFile for several ticks_per_beat values, iterates it, reads .length and
   runs play(now=clock) with mido.midifiles.midifiles.time replaced by a shim
   whose sleep() advances the fake clock; results are compared with exact
   rationals within 1e-9 relative tolerance.
Driver-level (not decided by the specification): tick2second / second2tick
   are mutually inverse on a grid of (tick, ticks_per_beat, tempo).
"""
import random
from fractions import Fraction

from .. import core

KIND = {1: 'n', 2: 'x', 3: 't1', 4: 't2', 5: 't3', 6: 'e', 7: 't0', 8: 'u'}
TEMPO = {'t0': 500000, 't1': 1, 't2': 16777215, 't3': 250000}
START = 7


def close(a, b):
    a, b = float(a), float(b)
    return abs(a - b) <= 1e-9 * max(abs(a), abs(b)) + 1e-12


def mk(kind, dt, ident):
    import mido
    if kind == 'n':
        return mido.Message('note_on', channel=ident // 10, note=ident % 10, time=dt)
    if kind == 'x':
        if ident % 2:
            # a time signature is notation: it never changes what a tick lasts
            return mido.MetaMessage('time_signature', numerator=[6, 2, 12, 3][ident % 4], denominator=[8, 2, 16, 4][(ident // 2) % 4],
                                    clocks_per_click=ident % 256, notated_32nd_notes_per_beat=8, time=dt)
        return mido.MetaMessage('marker', text=str(ident), time=dt)
    if kind == 'e':
        return mido.MetaMessage('end_of_track', time=dt)
    if kind == 'u':
        return mido.UnknownMetaMessage(0x60, data=(ident % 128, ident // 128), time=dt)
    return mido.MetaMessage('set_tempo', tempo=TEMPO[kind], time=dt)


def ident_of(m):
    if m.type == 'end_of_track':
        return 0
    if m.type == 'note_on':
        return m.channel * 10 + m.note
    if m.type == 'marker':
        return int(m.text)
    if m.type == 'time_signature':
        return m.clocks_per_click
    if m.type == 'unknown_meta':
        return m.data[0] + 128 * m.data[1]
    return None      # set_tempo: identified by position only


def parse_row(ints, with_play):
    p = 0
    nt = ints[p]
    p += 1
    tracks = []
    for _ in range(nt):
        n = ints[p]
        p += 1
        tracks.append([(ints[p + 2 * i], KIND[ints[p + 2 * i + 1]]) for i in range(n)])
        p += 2 * n
    n = ints[p]
    p += 1
    it = [(ints[p + 2 * i], ints[p + 2 * i + 1]) for i in range(n)]
    p += 2 * n
    play = None
    if with_play:
        meta = bool(ints[p])
        nd = ints[p + 1]
        delays = ints[p + 2:p + 2 + nd]
        p += 2 + nd
        ns = ints[p]
        sleeps = ints[p + 1:p + 1 + ns]
        p += 1 + ns
        ny = ints[p]
        yields = [(ints[p + 1 + 2 * i], ints[p + 2 + 2 * i]) for i in range(ny)]
        play = (meta, delays, sleeps, yields)
    return tracks, it, play


def build(tracks, tpb, ftype=1):
    import mido
    if len(tracks) % 2:
        mid = mido.MidiFile(type=ftype, ticks_per_beat=tpb)
    else:
        mid = mido.MidiFile(type=ftype, ticks_per_beat=tpb * 2 + 1)
        mid.ticks_per_beat = tpb             # the resolution is an ordinary attribute
    for t, tr in enumerate(tracks):
        mid.tracks.append(mido.MidiTrack(mk(k, dt, 10 * (t + 1) + i + 1) for i, (dt, k) in enumerate(tr)))
    return mid


class FakeTime:
    def __init__(self, scale, origin=START):
        self.scale = scale        # Fraction: seconds per unit
        self.now = Fraction(origin) * scale
        self.sleeps = []

    def time(self):
        return float(self.now)

    def sleep(self, x):
        self.sleeps.append(x)
        self.now += Fraction(x)


def check_iter(tracks, it, tpb):
    mid = build(tracks, tpb)
    unit = Fraction(1, 10 ** 6 * tpb)
    try:
        got = list(mid)
        length = mid.length
    except Exception as e:
        return 'iter-raises/' + type(e).__name__, repr(e)
    if len(got) != len(it):
        return 'iter-count', '%d messages expected %d' % (len(got), len(it))
    total = Fraction(0)
    for j, (m, (ident, du)) in enumerate(zip(got, it)):
        gid = ident_of(m)
        if gid is not None and gid != ident:
            return 'iter-order', 'message %d is %r expected id %d' % (j, m, ident)
        if not close(m.time, du * unit):
            return 'iter-time', 'message %d (%s) has time %r expected %r (tpb %d)' % (
                j, m.type, m.time, float(du * unit), tpb)
        total += du * unit
    if not close(length, total):
        return 'length', 'length %r expected %r' % (length, float(total))
    # what iteration yields are copies the consumer may change at once ("you can safely
    # modify them"): the tempo map is the file's, whatever the consumer does to its copies
    try:
        j = 0
        for m in mid:
            if j < len(it) and not close(m.time, it[j][1] * unit):
                return 'iter-time-with-mutating-consumer', 'message %d (%s) has time %r expected %r when the consumer ' \
                    'changes every message it is given' % (j, m.type, m.time, float(it[j][1] * unit))
            j += 1
            if m.type == 'set_tempo':
                m.tempo = 777777
            m.time = 123.0
    except Exception as e:
        return 'iter-raises-with-mutating-consumer/' + type(e).__name__, repr(e)
    # the tempo map is whatever the file holds NOW: change every set_tempo in place (the
    # file has been iterated and measured above) and measure again
    ticks = max([sum(dt for dt, k in tr) for tr in tracks] or [0])
    for tempo in (250000, 500000, 3, 0):      # (0 is a documented tempo value)
        n = 0
        for tr in mid.tracks:
            for m in tr:
                if m.type == 'set_tempo':
                    m.tempo = tempo
                    n += 1
        if not n:
            break
        # every set_tempo now has the same value; before the first one the default applies
        first = min(sum(dt for dt, k in tr[:i + 1]) for tr in tracks for i, (d_, k) in enumerate(tr)
                    if k.startswith('t'))
        exp = (Fraction(first) * 500000 + Fraction(ticks - first) * tempo) * unit
        try:
            length2 = mid.length
            total2 = sum(m.time for m in mid)
        except Exception as e:
            return 'iter-raises-after-edit/' + type(e).__name__, repr(e)
        if not close(length2, exp) or not close(total2, exp):
            return ('length-after-tempo-edit', 'after setting every set_tempo to %d in place: length %r, '
                    'sum of times %r, expected %r' % (tempo, length2, total2, float(exp)))
    return None


def check_play(tracks, it, play, tpb, origin=START):
    """origin: what the supplied clock reads when play() starts (the model uses
    START; any other origin only shifts the expected yield times)."""
    import mido.midifiles.midifiles as mm
    meta, delays, sleeps, yields = play
    yields = [(i, c - START + origin) for i, c in yields]
    mid = build(tracks, tpb)
    unit = Fraction(1, 10 ** 6 * tpb)
    ft = FakeTime(unit, origin)
    saved = mm.time
    mm.time = ft
    try:
        got = []
        k = 0
        try:
            for m in mid.play(meta_messages=meta, now=ft.time):
                got.append((m, ft.now))
                ft.now += delays[k] * unit if k < len(delays) else 0
                k += 1
        except Exception as e:
            return 'play-raises/' + type(e).__name__, repr(e)
    finally:
        mm.time = saved
    if len(got) != len(yields):
        return 'play-count', 'play yielded %d messages expected %d (meta_messages=%s)' % (
            len(got), len(yields), meta)
    for j, ((m, at), (ident, clock)) in enumerate(zip(got, yields)):
        gid = ident_of(m)
        if gid is not None and gid != ident:
            return 'play-order', 'yield %d is %r expected id %d' % (j, m, ident)
        if not meta and m.is_meta:
            return 'play-meta', 'meta message yielded without meta_messages'
        if not close(at, clock * unit):
            return ('play-early' if at < clock * unit else 'play-late',
                    'yield %d at %r, scheduled %r' % (j, float(at), float(clock * unit)))
    exp_sleeps = [s * unit for s in sleeps]
    real = [s for s in ft.sleeps if s > 1e-12]     # float noise is not a sleep
    if len(real) != len(exp_sleeps) or any(not close(a, b) for a, b in zip(real, exp_sleeps)):
        return 'play-sleeps', 'slept %r expected %r' % (real, [float(x) for x in exp_sleeps])
    return None


def check_long_rest(delta, tpb, tempo, consumer_delay=0):
    """One rest of weeks or years (huge delta, slow tempo, coarse resolution): the
    message after it is still yielded at its scheduled time, never before."""
    import mido
    import mido.midifiles.midifiles as mm
    mid = mido.MidiFile(ticks_per_beat=tpb)
    mid.tracks.append(mido.MidiTrack([mido.MetaMessage('set_tempo', tempo=tempo, time=0),
                                      mido.Message('note_on', note=1, time=delta),
                                      mido.Message('note_on', note=2, time=1)]))
    per_tick = Fraction(tempo, 10 ** 6 * tpb)
    exp = [delta * per_tick, (delta + 1) * per_tick]
    ft = FakeTime(Fraction(1), 0)
    saved = mm.time
    mm.time = ft
    try:
        at = []
        try:
            for m in mid.play(now=ft.time):
                at.append(ft.now)
                ft.now += consumer_delay
        except Exception as e:
            return 'play-raises/' + type(e).__name__, 'rest of %r s: %r' % (float(exp[0]), e)
    finally:
        mm.time = saved
    if len(at) != 2:
        return 'play-count', 'yielded %d messages' % len(at)
    for j in range(2):
        if not close(at[j], max(exp[j], at[j - 1] + consumer_delay if j else 0)):
            return ('play-early' if at[j] < exp[j] else 'play-late',
                    'after a rest of %r s (delta %d, tempo %d, %d ticks per beat) message %d was yielded at %r s, scheduled %r s' % (
                        float(exp[0]), delta, tempo, tpb, j, float(at[j]), float(exp[j])))
    return None


LONG_RESTS = [(9000000, 1, 500000), (1 << 23, 24, 16777215), ((1 << 28) - 1, 1, 16777215), (3, 1, 16777215),
              (17179869, 2, 500000), (17179870, 2, 500000)]

_WITH_PLAY = False
_TPBS = [1, 480, 32767]


def _init(with_play):
    global _WITH_PLAY
    _WITH_PLAY = with_play


def worker(lines):
    res = {'n': 0, 'viol': [], 'samples': [], 'counts': {'with_tempo_change': 0}}
    for line in lines:
        ints = core.ints_of(line)
        tracks, it, play = parse_row(ints, _WITH_PLAY)
        res['n'] += 1
        if any(k.startswith('t') for tr in tracks for dt, k in tr):
            res['counts']['with_tempo_change'] += 1
        tpb = _TPBS[sum(ints) % 3]
        r = check_iter(tracks, it, tpb)
        if r is None and play is not None:
            # the supplied clock may start anywhere, also at exactly zero
            r = check_play(tracks, it, play, tpb, origin=[START, 0, 10 ** 9][sum(ints) % 3])
        if r and len(res['viol']) < 10:
            res['viol'].append(('playback/' + r[0], {'tracks': tracks, 'it': it, 'play': play, 'tpb': tpb},
                                r[1] + ' for tracks %r' % (tracks,)))
    if lines:
        res['samples'].append({'tracks': tracks, 'expected_deltas_us_tick': it, 'play': play})
    return res


def replay(case):
    if 'long_rest' in case:
        r = check_long_rest(*case['long_rest'])
        return r and '%s: %s' % r
    if case.get('kind') == 'units':
        return check_units_one(*case['args'])
    if case.get('kind') == 'type2':
        r = check_type2()
        return r and r[1]
    tracks = [[tuple(x) for x in t] for t in case['tracks']]
    it = [tuple(x) for x in case['it']]
    r = check_iter(tracks, it, case['tpb'])
    if r is None and case.get('play'):
        meta, delays, sleeps, yields = case['play']
        r = check_play(tracks, it, (meta, delays, sleeps, [tuple(y) for y in yields]), case['tpb'])
    return r and '%s: %s' % r


def check_type2():
    """However a file came to be of type 2 - constructor, assignment, loaded from bytes - and
    however many tracks it has: length, iteration and play are refused; the same file as type
    0 / 1 is not."""
    import io
    import mido

    def files():
        for ntracks in (1, 2, 0):
            def fill(mid):
                for _ in range(ntracks):
                    mid.tracks.append(mido.MidiTrack([mido.Message('note_on', time=1)]))
                return mid
            yield 'constructor/%d tracks' % ntracks, fill(mido.MidiFile(type=2))
            m = fill(mido.MidiFile(type=1))
            m.type = 2
            yield 'assigned/%d tracks' % ntracks, m
            if ntracks:
                buf = io.BytesIO()
                fill(mido.MidiFile(type=2)).save(file=buf)
                yield 'loaded/%d tracks' % ntracks, mido.MidiFile(file=io.BytesIO(buf.getvalue()))
                m = mido.MidiFile(file=io.BytesIO(buf.getvalue()))
                m.type = 1
                m.type = 2
                yield 'loaded, set to 1 and back/%d tracks' % ntracks, m
    for how, mid in files():
        for what, f in (('length', lambda: mid.length), ('iteration', lambda: list(mid)),
                        ('play', lambda: list(mid.play(now=lambda: 0.0))), ('iteration again', lambda: list(mid))):
            try:
                f()
            except (TypeError, ValueError):
                continue
            except Exception as e:
                return 'type2-wrong-exception', '%s of a type 2 file (%s) raised %r' % (what, how, e)
            return 'type2-not-refused', '%s of a type 2 file (%s) did not raise' % (what, how)
        mid.type = 1 if len(mid.tracks) != 1 else 0
        try:
            if not isinstance(mid.length, (int, float)) or (mid.tracks and not list(mid)):
                return 'type2-sticky', 'after the type was changed from 2 to %d the file does not play (%s)' % (mid.type, how)
        except Exception as e:
            return 'type2-sticky', 'after the type was changed from 2 to %d: %r (%s)' % (mid.type, e, how)
    return None


def check_units_one(tick, tpb, tempo):
    import mido
    s = mido.tick2second(tick, tpb, tempo)
    back = mido.second2tick(s, tpb, tempo)
    if back != tick:
        return 'second2tick(tick2second(%d, %d, %d)) = %r' % (tick, tpb, tempo, back)
    exact = Fraction(tick * tempo, 10 ** 6 * tpb)
    if not close(s, exact):
        return 'tick2second(%d, %d, %d) = %r expected %r' % (tick, tpb, tempo, s, float(exact))
    return None


def run(ctx):
    thorough = ctx.tier == 'thorough'

    def cfg(mt, me, deltas, kinds, play):
        return """SPECIFICATION Spec
CONSTANTS
 MaxTracks = %d
 MaxEvents = %d
 Deltas = %s
 KindsUsed = %s
 WithPlay = %s
INVARIANT CumulativeOK
INVARIANT PlayInv
INVARIANT Emit
CHECK_DEADLOCK FALSE
""" % (mt, me, deltas, kinds, 'TRUE' if play else 'FALSE')
    allk = '{"n", "t0", "t1", "t2", "t3", "x", "e"}'
    if thorough:
        plans = [(2, 2, '{0, 1, 3}', allk, False), (1, 4, '{0, 1, 3}', '{"n", "t0", "t1", "t2", "e"}', False),
                 (1, 3, '{0, 1, 3}', '{"n", "t1", "t2", "x", "u", "e"}', True), (2, 2, '{0, 3}', '{"n", "t2", "x", "u"}', True)]
    else:
        plans = [(2, 2, '{0, 1, 3}', '{"n", "t0", "t2", "e"}', False),
                 (1, 3, '{1, 3}', '{"n", "t0", "t1"}', False),
                 (1, 2, '{0, 1, 3}', allk, True),
                 (2, 1, '{0, 3}', '{"n", "t2", "x", "u"}', True),
                 (1, 3, '{0, 1, 3}', '{"n"}', True)]        # three yields: drift after a slow consumer
    for mt, me, dl, kinds, play in plans:
        pr = core.ParallelReplay(ctx, worker, batch_size=1000, initializer=_init, initargs=(play,))
        res = core.run_tlc('Playback', cfg(mt, me, dl, kinds, play), on_emit=pr.push, raw_ints=True,
                           timeout=3400, heap='16g')
        n = pr.finish()
        ctx.add_tlc(res, 'Playback tracks<=%d events<=%d play=%s' % (mt, me, play))
        if n != res.distinct:
            raise core.Machinery('replayed %d rows, TLC found %d states' % (n, res.distinct))
    r = check_type2()
    ctx.replayed += 1
    if r:
        ctx.violation('playback/' + r[0], {'kind': 'type2'}, r[1])
    # unit conversions (float rounding: outside what TLA+ can decide)
    rng = random.Random(ctx.seed + 13)
    grid = [(t, b, m) for t in (0, 1, 2, 3, 479, 480, 481, 65535, 10 ** 6, 2 ** 31 - 1)
            for b in (1, 2, 96, 480, 960, 32767) for m in (1, 2, 250000, 500000, 500001, 16777215)]
    grid += [(rng.randrange(10 ** 7), rng.randrange(1, 32768), rng.randrange(1, 1 << 24))
             for _ in range(20000 if thorough else 3000)]
    for args in grid:
        r = check_units_one(*args)
        if r:
            ctx.violation('playback/units-not-inverse', {'kind': 'units', 'args': list(args)}, r)
    ctx.replayed += len(grid)
    ctx.note('unit_conversion_cases', len(grid))
    ctx.exhaustive = True
    ctx.constants = {'plans': [list(p) for p in plans], 'tempos': TEMPO, 'tpb': _TPBS}
    ctx.assumptions += [
        'floating-point results are compared with exact rationals within 1e-9 relative / 1e-12 absolute tolerance',
        'tick2second/second2tick inverse is evaluated by the driver (IEEE-754 rounding is not expressible in TLA+); the specification contributes nothing there',
        'the clock passed to play() and time.sleep are virtual; consumer delays are {0, 1000, 60000000} us*tick',
    ]
    for delta, tpb, tempo in LONG_RESTS:
        for cd in (0, 5):
            r = check_long_rest(delta, tpb, tempo, cd)
            ctx.replayed += 1
            if r:
                ctx.violation('playback/' + r[0], {'long_rest': [delta, tpb, tempo, cd]}, r[1])
    # re-entrancy: two threads inside these functions at once, a switch possible before every statement
    from .. import conc
    conc.run_scenarios(ctx, 'C13', 2 if ctx.tier == 'thorough' else 1)
