"""C15 - copy, freeze and thaw have value semantics.

G: MsgHeap: TLC explores every history of MaxOps operations (new, copy with
   and without overrides - valid and invalid -, freeze, thaw, attribute
   assignment, hashing two frozen objects, freeze/thaw of None) over a heap of
   up to 3 objects of the classes Message, MetaMessage (two types) and
   UnknownMetaMessage, checks Isolation, FrozenNeverChanges and
   FrozenRejectsMutation on the specification, and emits each history with the
   heap after every step.  The driver keeps index -> real object; after every
   step it compares class, frozen-ness and attributes of EVERY live object with
   the specified heap (aliasing shows as a change in an object the action did
   not name), object identity where the specification fixes it, and for copy
   with overrides the outcome of constructing the class afresh.
"""
from .. import core

CLS = {1: 'M', 2: 'MM', 3: 'SS', 4: 'UM', 5: 'RT', 6: 'SX'}
OPS = {1: 'new', 2: 'copy', 3: 'freeze', 4: 'thaw', 5: 'setattr', 6: 'hash', 7: 'freeze_none',
       8: 'thaw_none', 9: 'hashf', 10: 'delattr', 11: 'setnew', 12: 'hashd', 13: 'read'}
BAD = 999
TWIN = 777
INF = 888


def xval(cls, x):
    """Model value of x -> real attribute (name, value)."""
    if x == TWIN:
        x = 1.0
    if cls in ('M', 'RT'):
        return 'note', x           # a clock message has no such attribute (999 only with skip_checks)
    if cls == 'MM':
        return 'tempo', (1 << 24) if x == BAD else x
    if cls == 'SX':
        return 'data', [x]
    if cls == 'SS':
        return 'data', [x]         # the documented default of this attribute is a list
    return 'data', (x,)


def construct(cls, x, t, unchecked=False):
    import mido
    if t == INF:
        t = float('inf')
    name, v = xval(cls, x)
    if unchecked and cls == 'M':
        return mido.Message('note_on', note=v, time=t, skip_checks=True)
    if unchecked and cls == 'SX':
        return mido.Message('sysex', data=v, time=t, skip_checks=True)
    if cls == 'RT':
        return mido.Message('clock', time=t) if x == 1 else mido.Message('clock', note=v, time=t)
    if cls == 'M':
        return mido.Message('note_on', note=v, time=t)
    if cls == 'SX':
        return mido.Message('sysex', data=v, time=t)
    if cls == 'MM':
        return mido.MetaMessage('set_tempo', tempo=v, time=t)
    if cls == 'SS':
        return mido.MetaMessage('sequencer_specific', data=v, time=t)
    return mido.UnknownMetaMessage(0x60, data=v, time=t)


def _t(t):
    return INF if t == float('inf') else t


def describe(o):
    try:
        return _describe(o)
    except Exception as e:
        return 'cannot describe %s: %r' % (type(o).__name__, e)


def _describe(o):
    """Real object -> (cls, frozen, x, time) or a string describing a mismatch."""
    import mido
    from mido.frozen import is_frozen
    name = type(o).__name__
    fr = 1 if is_frozen(o) else 0
    base = name[6:] if name.startswith('Frozen') else name
    if (name.startswith('Frozen')) != bool(fr):
        return 'class %s but is_frozen=%r' % (name, fr)
    try:
        if base == 'Message' and o.type == 'clock':
            if set(vars(o)) != {'type', 'time'}:
                return 'unexpected %s' % core.srepr(vars(o))
            return (5, fr, 1, _t(o.time))
        if base == 'Message' and o.type == 'sysex':
            if type(o.data).__name__ != 'SysexData' or len(o.data) != 1:
                return 'sysex data is %s %r' % (type(o.data).__name__, o.data)
            return (6, fr, o.data[0], _t(o.time))
        if base == 'Message':
            if o.type != 'note_on' or o.channel != 0 or o.velocity != 64:
                return 'unexpected %s' % core.srepr(o)
            return (1, fr, o.note, _t(o.time))
        if base == 'UnknownMetaMessage':
            if o.type_byte != 0x60 or len(o.data) != 1:
                return 'unexpected %s' % core.srepr(o)
            return (4, fr, o.data[0], _t(o.time))
        if base == 'MetaMessage':
            if o.type == 'set_tempo':
                return (2, fr, BAD if o.tempo == (1 << 24) else o.tempo, _t(o.time))
            if o.type == 'sequencer_specific' and len(o.data) == 1:
                return (3, fr, o.data[0], _t(o.time))
    except Exception as e:
        return 'cannot read %r: %r' % (name, e)
    return 'unexpected object %s' % core.srepr(o)


def _r_hash(mido, a):
    return hash(a) if type(a).__name__.startswith('Frozen') else str(a)


def _r_text(mido, a):
    if isinstance(a, mido.Message):
        return mido.format_as_string(a, include_time=False), mido.format_as_string(a), str(a)
    return repr(a), str(a)


def _r_pickle(mido, a):
    import copy
    import pickle
    return pickle.dumps(a), copy.copy(a), copy.deepcopy(a)


_READERS = {1: _r_hash, 2: _r_text, 3: lambda mido, a: (a.dict(), dict(vars(a)).keys(), dir(a)),
            4: lambda mido, a: (a.bytes(), a.bin(), a.hex(), len(a) if isinstance(a, mido.Message) else 0),
            5: lambda mido, a: (a == a.copy(), a != a, a.is_cc(), a.is_realtime, a.is_meta, {a} if type(a).__name__.startswith('Frozen') else 0),
            6: _r_pickle}
_READER_NAMES = {1: 'hash / str', 2: 'format_as_string / repr', 3: 'dict / dir', 4: 'bytes / bin / hex / len', 5: 'comparison / predicates',
                 6: 'pickle / copy.copy / deepcopy'}


def parse_row(ints):
    n = ints[0]
    p = 1
    steps = []
    for _ in range(n):
        op, i, j, attr, v, ok, newid = ints[p:p + 7]
        p += 7
        k = ints[p]
        p += 1
        heap = [tuple(ints[p + 4 * a:p + 4 * a + 4]) for a in range(k)]
        p += 4 * k
        steps.append((OPS[op], i, j, {0: '', 1: 'x', 2: 'time'}[attr], v, bool(ok), newid, heap))
    return steps


def replay_history(steps):
    import mido
    from mido.frozen import freeze_message, thaw_message
    objs = []
    ALLOWED = (ValueError, TypeError, AttributeError)
    for n, (op, i, j, attr, v, ok, newid, heap) in enumerate(steps):
        where = 'step %d (%s)' % (n, op)
        try:
            if op == 'new':
                c, fr, x, t = heap[-1]
                # every second object carries its time as a float: 5 == 5.0, so equal
                # frozen messages must still hash equal and find each other in a dict
                objs.append(construct(CLS[c], x, float(t) if len(objs) % 2 else t, unchecked=(x == BAD)))
            elif op == 'copy':
                src = objs[i - 1]
                d0 = describe(src)
                if isinstance(d0, str):
                    return 'heap-mismatch/copy', '%s: source object: %s' % (where, d0)
                c = CLS[d0[0]]
                if attr == '':
                    ovr = {}
                elif attr == 'x':
                    name, val = xval(c, v)
                    ovr = {name: val}
                else:
                    ovr = {'time': v}
                try:
                    r = src.copy(**ovr)
                    got_ok = True
                except ALLOWED:
                    got_ok = False
                # the outcome of constructing the class afresh with the merged values
                d0 = describe(src)
                try:
                    if c == 'RT' and attr == 'x':
                        import mido as _m
                        fresh = _m.Message('clock', note=v, time=d0[3])      # no such attribute
                    else:
                        fresh = construct(c, v if attr == 'x' else d0[2], v if attr == 'time' else d0[3],
                                          unchecked=(not ovr and d0[2] == BAD and c in ('M', 'SX')))
                    fresh_ok = True
                except ALLOWED:
                    fresh_ok = False
                if got_ok != fresh_ok:
                    return ('copy-vs-constructor/' + c,
                            '%s: copy(%r) %s but constructing afresh %s' % (
                                where, ovr, 'succeeds' if got_ok else 'raises', 'succeeds' if fresh_ok else 'raises'))
                if got_ok != ok:
                    return ('copy-outcome/' + c, '%s: copy(%r) %s, specification says %s' % (
                        where, ovr, 'succeeds' if got_ok else 'raises', 'accept' if ok else 'reject'))
                if got_ok and c in ('M', 'SX', 'RT'):
                    # the unchecked spelling builds the same message
                    try:
                        r2 = src.copy(skip_checks=True, **ovr)
                    except Exception as e:
                        return 'copy-skip_checks-raises/' + c, '%s: copy(skip_checks=True, %r) raised %r' % (where, ovr, e)
                    if not (r2 == r) or type(r2) is not type(r) or isinstance(describe(r2), str):
                        return ('copy-skip_checks-differs/' + c, '%s: copy(skip_checks=True, %r) = %s (%s), checked copy = %s' % (
                            where, ovr, core.srepr(r2), describe(r2), core.srepr(r)))
                if got_ok:
                    if r is src:
                        return 'copy-same-object/' + c, '%s: copy returned the original object' % where
                    if type(r) is not type(src):
                        return 'copy-class/' + c, '%s: copy of %s is a %s' % (where, type(src).__name__, type(r).__name__)
                    if not ovr and not (r == src):
                        return 'copy-not-equal/' + c, '%s: copy != original' % where
                    if not (thaw_message(r) == fresh):
                        return 'copy-not-fresh/' + c, '%s: copy(%r) = %s, fresh construction gives %s' % (where, ovr, core.srepr(r), core.srepr(fresh))
                    objs.append(r)
            elif op == 'freeze':
                src = objs[i - 1]
                r = freeze_message(src)
                if newid == i:
                    if r is not src:
                        return 'freeze-frozen', '%s: freezing a frozen message returned another object' % where
                else:
                    if r is src:
                        return 'freeze-same-object', '%s: freeze returned the original' % where
                    if not (r == src):
                        return 'freeze-not-equal', '%s: frozen %s != original %s' % (where, core.srepr(r), core.srepr(src))
                    objs.append(r)
            elif op == 'thaw':
                src = objs[i - 1]
                r = thaw_message(src)
                if r is src:
                    return 'thaw-same-object', '%s: thaw returned the original' % where
                if not (r == src):
                    return 'thaw-not-equal', '%s: thawed %s != original %s' % (where, core.srepr(r), core.srepr(src))
                objs.append(r)
            elif op == 'setattr':
                o = objs[i - 1]
                if isinstance(describe(o), str):
                    return 'heap-mismatch/setattr', '%s: %s' % (where, describe(o))
                c = CLS[describe(o)[0]]
                name, val = xval(c, v) if attr == 'x' else ('time', float('inf') if v == INF else v)
                try:
                    setattr(o, name, val)
                    got_ok = True
                except ALLOWED:
                    got_ok = False
                if got_ok != ok:
                    kind = 'frozen-mutated' if (got_ok and describe(o)[1]) else 'setattr-outcome'
                    return ('%s/%s' % (kind, c), '%s: %s=%r on %s %s, specification says %s' % (
                        where, name, val, type(o).__name__, 'succeeds' if got_ok else 'raises',
                        'accept' if ok else 'reject'))
            elif op == 'delattr':
                o = objs[i - 1]
                d = describe(o)
                if isinstance(d, str):
                    return 'heap-mismatch/delattr', '%s: %s' % (where, d)
                name = xval(CLS[d[0]], 1)[0] if attr == 'x' else 'time'
                try:
                    delattr(o, name)
                    return ('attribute-deleted/%s%s' % ('frozen/' if d[1] else '', CLS[d[0]]),
                            '%s: del %s.%s succeeded' % (where, type(o).__name__, name))
                except ALLOWED:
                    pass
            elif op == 'setnew':
                o = objs[i - 1]
                before = dict(vars(o))
                for name in ('foo', 'text', 'channel', '_cache'):
                    if name in before:
                        continue
                    try:
                        setattr(o, name, 1)
                        return ('frozen-mutated/new-attribute/' + CLS[describe(o)[0]] if not isinstance(describe(o), str)
                                else 'frozen-mutated/new-attribute',
                                '%s: %s.%s = 1 was accepted on a frozen message' % (where, type(o).__name__, name))
                    except ALLOWED:
                        pass
                if dict(vars(o)) != before:
                    return 'frozen-mutated/new-attribute', '%s: attributes now %r' % (where, vars(o))
            elif op == 'hash':
                a, b = objs[i - 1], objs[j - 1]
                try:
                    ha, hb = hash(a), hash(b)
                except Exception as e:
                    return 'hash-raises', '%s: hash raised %r' % (where, e)
                if ok:
                    if not (a == b):
                        return 'equal-frozen-not-equal', '%s: %s != %s' % (where, core.srepr(a), core.srepr(b))
                    if ha != hb:
                        return 'hash-differs', '%s: equal frozen messages hash differently' % where
                    if {a: 1}.get(b) != 1:
                        return 'dict-key', '%s: equal frozen message not found as dictionary key' % where
                else:
                    if a == b:
                        return 'unequal-frozen-equal', '%s: %s == %s' % (where, core.srepr(a), core.srepr(b))
            elif op == 'hashf':
                a = objs[i - 1]
                d = describe(a)
                if isinstance(d, str):
                    return 'heap-mismatch/hashf', '%s: %s' % (where, d)
                t = d[3]
                if t == INF:
                    t = float('inf')
                other_t = t if t == float('inf') else int(t) if isinstance(t, float) else float(t)
                b = freeze_message(construct(CLS[d[0]], d[2], other_t))
                if not (a == b):
                    return 'equal-frozen-not-equal', '%s: %s != %s' % (where, core.srepr(a), core.srepr(b))
                if hash(a) != hash(b) or {a: 1}.get(b) != 1 or len({a, b}) != 1:
                    return ('hash-differs/numeric-type',
                            '%s: %s and %s are equal but do not hash equal / collide as keys' % (
                                where, core.srepr(a), core.srepr(b)))
            elif op == 'hashd':
                a = objs[i - 1]
                if a.is_meta:
                    b = freeze_message(type(thaw_message(a)).from_bytes(a.bytes()))
                    if a.time != b.time:
                        b = freeze_message(thaw_message(b).copy(time=a.time))
                else:
                    b = freeze_message(mido.Message.from_bytes(a.bytes(), time=a.time))
                if not (a == b):
                    return 'equal-frozen-not-equal', '%s: %s != its decoded twin %s' % (where, core.srepr(a), core.srepr(b))
                if hash(a) != hash(b) or {a: 1}.get(b) != 1 or len({a, b}) != 1:
                    return ('hash-differs/construction-route',
                            '%s: %s (constructed) and its decoded twin are equal but do not hash equal' % (where, core.srepr(a)))
            elif op == 'read':
                a = objs[i - 1]
                before = (list(vars(a)), dict(vars(a)))
                _READERS[v](mido, a)
                if (list(vars(a)), dict(vars(a))) != before:
                    return ('read-changes/%s' % _READER_NAMES[v], '%s: %s of %s changed its attributes from %s to %s' % (
                        where, _READER_NAMES[v], type(a).__name__, core.srepr(before[1], 120), core.srepr(dict(vars(a)), 120)))
            elif op == 'freeze_none':
                if freeze_message(None) is not None:
                    return 'freeze-none', 'freeze_message(None) is not None'
            elif op == 'thaw_none':
                if thaw_message(None) is not None:
                    return 'thaw-none', 'thaw_message(None) is not None'
        except Exception as e:
            return '%s-raises/%s' % (op, type(e).__name__), '%s raised %r' % (where, e)
        # every live object against the specified heap
        if len(objs) != len(heap):
            return 'driver-desync', '%s: %d objects, specification has %d' % (where, len(objs), len(heap))
        for k, (o, exp) in enumerate(zip(objs, heap)):
            got = describe(o)
            if got != tuple(exp):
                changed = 'the object the action named' if k + 1 == i else 'ANOTHER object (aliasing)'
                return ('heap-mismatch/%s' % op,
                        '%s: object %d is %r, specification says %r - %s' % (where, k + 1, got, tuple(exp), changed))
    return None


def check_text_values():
    """Value semantics for text meta messages whatever the text: a message read from a utf-8
    file lives on outside that file's load call."""
    import io
    import mido
    from mido.frozen import freeze_message, thaw_message
    out = []
    for text in ('\u20ac \u266a', '\u65e5\u672c', 'caf\xe9', ''):
        try:
            src = mido.MidiFile(charset='utf-8')
            src.tracks.append(mido.MidiTrack([mido.MetaMessage('lyrics', text='x', time=1)]))
            data = io.BytesIO()
            src.save(file=data)
            raw = data.getvalue().replace(b'\x01x', bytes([len(text.encode('utf-8'))]) + text.encode('utf-8'))
            raw = raw[:18] + (len(raw) - 22).to_bytes(4, 'big') + raw[22:]
            m = mido.MidiFile(file=io.BytesIO(raw), charset='utf-8').tracks[0][0]
            if m.text != text:
                out.append(('text-meta/load', 'loaded %r expected %r' % (m.text, text)))
                continue
            c1, c2, c3 = m.copy(), m.copy(time=9), m.copy(text=text + '!')
            f = freeze_message(m)
            t = thaw_message(f)
            ok = (c1 == m and c1 is not m and c2.text == text and c2.time == 9 and c3.text == text + '!' and
                  f == m and t == m and hash(f) == hash(freeze_message(c1)) and {f: 1}[freeze_message(t)] == 1 and
                  f.copy(time=4).time == 4)
            c1.text = 'changed'
            ok = ok and m.text == text
        except Exception as e:
            out.append(('text-meta/raises/%s' % type(e).__name__, 'text %r: %r' % (text, e)))
            continue
        if not ok:
            out.append(('text-meta/value', 'copy / freeze / thaw of a lyrics message with text %r are not value copies' % (text,)))
    # copy with overrides: every attribute name of every type, also the one called "name"; and an
    # override the type does not have is refused like the constructor refuses it
    for mk_, ovr in ((lambda: mido.MetaMessage('track_name', name='a'), {'name': 'b'}),
                     (lambda: mido.MetaMessage('instrument_name', name='a'), {'name': 'b', 'time': 2}),
                     (lambda: mido.MetaMessage('device_name', name='a'), {'name': ''}),
                     (lambda: mido.MetaMessage('key_signature', key='C'), {'key': 'Am'}),
                     (lambda: mido.MetaMessage('time_signature'), {'notated_32nd_notes_per_beat': 4, 'clocks_per_click': 12}),
                     (lambda: mido.Message('sysex', data=(1,)), {'data': (2, 3)}),
                     (lambda: mido.Message('songpos', pos=1), {'pos': 16383})):
        for frozen in (False, True):
            try:
                m = mk_()
                src = freeze_message(m) if frozen else m
                c = src.copy(**ovr)
                fresh = type(m)(m.type, **dict({k: v for k, v in vars(m).items() if k != 'type'}, **ovr))
                if not (thaw_message(c) == fresh) or type(c) is not type(src) or not (src == m):
                    out.append(('copy-overrides/' + m.type, 'copy(%r) = %s, fresh construction %s' % (ovr, core.srepr(c), core.srepr(fresh))))
            except Exception as e:
                out.append(('copy-overrides/%s/raises' % mk_().type, 'copy(%r) raised %r' % (ovr, e)))
    for mk_ in (lambda: mido.Message('sysex', data=(1,)), lambda: mido.Message('clock'), lambda: mido.Message('songpos'),
                lambda: mido.MetaMessage('set_tempo'), lambda: mido.MetaMessage('text', text='x'), lambda: mido.MetaMessage('end_of_track')):
        for ovr in ({'channel': 9}, {'channel': 9, 'time': 1}, {'channel': 'x'}, {'note': 1}, {'bogus': 0}):
            for frozen in (False, True):
                m = mk_()
                src = freeze_message(m) if frozen else m
                try:
                    c = src.copy(**ovr)
                except (ValueError, TypeError, AttributeError):
                    continue
                except Exception as e:
                    out.append(('copy-overrides/wrong-exception', '%s.copy(%r) raised %r' % (m.type, ovr, e)))
                    continue
                out.append(('copy-overrides/accepts-foreign-attribute', '%s.copy(%r) returned %s, the constructor refuses these values' % (
                    m.type, ovr, core.srepr(c))))
    # frozen messages are hashable whatever legal thing was assigned before freezing
    try:
        um = mido.UnknownMetaMessage(0x60, data=(1,))
        um.data = [4, 5, 6]                       # (this class checks nothing: a list stays a list)
        f = freeze_message(um)
        g = freeze_message(um.copy())
        if hash(f) != hash(g) or {f: 1}[g] != 1 or len({f, g}) != 1 or not (thaw_message(f) == um):
            out.append(('unknown-meta/list-data/hash', 'frozen unknown meta messages with list data: equal but not usable as keys'))
    except Exception as e:
        out.append(('unknown-meta/list-data/raises/%s' % type(e).__name__, 'freeze / hash of an unknown meta message with list data: %r' % (e,)))
    return out[:4]


def worker(lines):
    res = {'n': 0, 'viol': [], 'samples': [], 'counts': {}}
    for line in lines:
        steps = parse_row(core.ints_of(line))
        res['n'] += 1
        for s in steps:
            res['counts'][s[0]] = res['counts'].get(s[0], 0) + 1
        r = replay_history(steps)
        if r and len(res['viol']) < 10:
            res['viol'].append(('value/' + r[0], {'steps': steps}, r[1]))
    if lines:
        res['samples'].append({'history': [[s[0], s[1], s[2], s[3], s[4], s[5]] for s in steps]})
    return res


def replay(case):
    if case.get('kind') == 'text_values':
        v = check_text_values()
        return v and '%s: %s' % v[0]
    steps = [(s[0], s[1], s[2], s[3], s[4], s[5], s[6], [tuple(h) for h in s[7]]) for s in case['steps']]
    r = replay_history(steps)
    return r and '%s: %s' % r


def cfg(maxobjs, maxops, classes, newtimes='StdTimes'):
    return """SPECIFICATION Spec
CONSTANTS
 MaxObjs = %d
 MaxOps = %d
 Classes = %s
 NewTimes <- %s
PROPERTY Isolation
PROPERTY FrozenNeverChanges
INVARIANT FrozenRejectsMutation
INVARIANT AllValidOrUnknown
INVARIANT Emit
CHECK_DEADLOCK FALSE
""" % (maxobjs, maxops, classes, newtimes)


def run(ctx):
    thorough = ctx.tier == 'thorough'
    allc = '{"M", "MM", "SS", "UM", "RT", "SX"}'
    plans = [(3, 4, allc)] if thorough else [(3, 3, allc), (3, 4, '{"SS"}'), (2, 4, '{"UM"}'), (3, 4, '{"RT"}'), (3, 4, '{"SX"}')]
    # times -1 and -2 (equal hashes, unequal messages), four objects
    plans = plans + [(4, 4, '{"M"}', 'NegTimes'), (4, 4, '{"MM"}', 'NegTimes')]
    if thorough:
        # (4 objects x 5 operations over two classes does not finish within the hour any more -
        # it is simulated below instead)
        plans.append((4, 4, '{"M", "UM"}', 'NegTimes'))
    import threading
    from concurrent.futures import ThreadPoolExecutor
    lock = threading.Lock()

    def one(plan):
        mo, mp, classes = plan[:3]
        nt = plan[3] if len(plan) > 3 else 'StdTimes'
        pr = core.ParallelReplay(ctx, worker, batch_size=1000, procs=6)

        def push(line):
            pr.push(line)
        res = core.run_tlc('MsgHeap', cfg(mo, mp, classes, nt), on_emit=push, raw_ints=True,
                           timeout=3400, heap='8g', workers=5)
        with lock:
            pr.finish()
            ctx.add_tlc(res, 'MsgHeap objs<=%d ops=%d classes %s new times %s' % (mo, mp, classes, nt))
    with ThreadPoolExecutor(1 if thorough else 3) as ex:
        list(ex.map(one, plans))
    if thorough:
        pr = core.ParallelReplay(ctx, worker, batch_size=1000)
        res = core.run_tlc('MsgHeap', cfg(3, 10, allc), on_emit=pr.push, raw_ints=True, simulate=2000,
                           depth=11, seed=ctx.seed + 15, workers=8, timeout=1800)
        pr.finish()
        ctx.add_tlc(res, 'MsgHeap -simulate depth 10')
        pr = core.ParallelReplay(ctx, worker, batch_size=1000)
        res = core.run_tlc('MsgHeap', cfg(4, 5, '{"M", "UM"}', 'NegTimes'), on_emit=pr.push, raw_ints=True, simulate=4000,
                           depth=6, seed=ctx.seed + 16, workers=8, timeout=1800)
        pr.finish()
        ctx.add_tlc(res, 'MsgHeap -simulate objs<=4 ops=5 classes M, UM')
    ctx.exhaustive = True
    ctx.constants = {'plans': plans}
    ctx.assumptions += [
        'classes are represented by note_on, set_tempo, sequencer_specific and UnknownMetaMessage(0x60); values by {1, 2} plus one out-of-range value',
        'copy with overrides is judged against constructing the class afresh with the merged values (UnknownMetaMessage validates nothing)',
    ]
    for key, msg in check_text_values():
        ctx.violation('value/' + key, {'kind': 'text_values'}, msg)
    ctx.replayed += 4
    # re-entrancy: two threads inside these functions at once, a switch possible before every statement
    from .. import conc
    conc.run_scenarios(ctx, 'C15', 2 if ctx.tier == 'thorough' else 1)
