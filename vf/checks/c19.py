"""C19 - SYX files round-trip sysex messages.

G: SyxFile: TLC enumerates message lists (sysex of length 0, 1, 2 interleaved
   with channel, real-time and system common messages) x {binary, text x 9
   whitespace layouts}, binary files written elsewhere that hold other
   messages between the sysex ones, and 6 classes of malformed text; checks
   Read(Write(l)) = SysexOnly(l) on the specification (through the Tokenizer)
   and emits each case.  The driver writes real files with write_syx_file (and
   hand-laid-out text files), reads them with read_syx_file and compares.
V: random lists of up to 20 messages with payloads up to 5000 bytes written
   and read by the real code, validated by TLC (SyxTrace).
"""
import json
import os
import random
import shutil

from .. import core

SEPS = {1: ' ', 2: '\n', 3: '\t', 4: '\r\n', 5: '  ', 6: '\x0c', 7: '', 8: None, 9: ' '}
BAD = {1: 'F0 01 F', 2: 'F0 0G F7', 3: 'F0 0 1 F7', 4: '0xF0 0x01 0xF7', 5: 'F0,01,F7', 6: 'F0 01 F7 zz'}


def parse_row(ints):
    mode, layout, n = ints[0], ints[1], ints[2]
    p = 3
    encs = []
    for _ in range(n):
        ln = ints[p]
        encs.append(ints[p + 1:p + 1 + ln])
        p += 1 + ln
    k = ints[p]
    p += 1
    exp = []
    for _ in range(k):
        ln = ints[p]
        exp.append(ints[p + 1:p + 1 + ln])
        p += 1 + ln
    return mode, layout, encs, exp


def layout_text(data, layout):
    pairs = ['%02X' % b for b in data]
    if layout == 9:
        pairs = [p.lower() for p in pairs]
    if layout == 8:
        seps = [' ', '\n', '\t', '\r\n', '   ', '\n\n', '\x0b']
        out = '\n '
        for i, p in enumerate(pairs):
            out += p + seps[i % len(seps)]
        return out
    return SEPS[layout].join(pairs) + ('\n' if layout != 7 else '')


def check_case(mode, layout, encs, exp, d):
    import mido
    path = os.path.join(d, 'f.syx')
    msgs = [mido.Message.from_bytes(e) for e in encs] if mode != 3 else []
    if mode in (1, 2) and (len(encs) + layout) % 2 == 0:
        # "other messages are dropped": also messages that are no sysex but carry a data
        # attribute (a MIDI file track handed to write_syx_file holds such meta messages)
        extra = [mido.MetaMessage('sequencer_specific', data=(0x41, 0x10)), mido.UnknownMetaMessage(0x60, data=(1, 2, 3)),
                 mido.MetaMessage('text', text='F0 01 F7')]
        for k, x in enumerate(extra):
            msgs.insert(min(len(msgs), k * 2), x)
    if mode == 4:
        with open(path, 'w') as f:
            f.write(BAD[layout])
        try:
            r = mido.read_syx_file(path)
        except ValueError:
            return None
        except Exception as e:
            return 'badtext-wrong-exception/%d' % layout, 'read of %r raised %r' % (BAD[layout], e)
        return 'badtext-accepted/%d' % layout, 'read of %r returned %r' % (BAD[layout], r)
    if mode in (1, 2) and msgs:
        # writes that fail (no such directory; a list holding something that is no message)
        # must leave nothing behind that shows in a later write
        for bad_path, bad_list, pt in ((os.path.join(d, 'no-such-dir', 'f.syx'), msgs, False),
                                       (os.path.join(d, 'g.syx'), list(msgs) + [None], True),
                                       (os.path.join(d, 'no-such-dir', 'h.syx'), msgs, True)):
            try:
                mido.write_syx_file(bad_path, bad_list, plaintext=pt)
            except Exception:
                pass
    try:
        if mode == 1:
            mido.write_syx_file(path, msgs)
        elif mode == 2 and layout == 1:
            mido.write_syx_file(path, msgs, plaintext=True)
        elif mode == 2:
            flat = [b for e in encs if e[0] == 0xf0 for b in e]
            with open(path, 'w', newline='') as f:
                f.write(layout_text(flat, layout))
        elif mode == 3:
            with open(path, 'wb') as f:
                f.write(bytes(b for e in encs for b in e))
    except Exception as e:
        return 'write-raises/%s' % type(e).__name__, repr(e)
    # files of equal size and equal time stamp (a coarse file-system clock, cp -p, rsync -t)
    # are different files all the same
    try:
        os.utime(path, ns=(1_600_000_000 * 10 ** 9, 1_600_000_000 * 10 ** 9))
    except OSError:
        pass
    if mode == 1:
        try:
            with open(path, 'rb') as f:
                raw = list(f.read())
        except OSError as e:
            return 'file-not-written', 'write_syx_file left no file: %r' % (e,)
        if raw != [b for e in exp for b in e]:
            return 'binary-content', 'binary file holds %r expected %r' % (raw, exp)
    try:
        got = mido.read_syx_file(path)
    except Exception as e:
        return ('read-raises/%s/%s' % ({1: 'bin', 2: 'text', 3: 'foreign'}[mode], type(e).__name__),
                'read raised %r (layout %d, messages %r)' % (e, layout, encs))
    gb = [list(m.bytes()) for m in got]
    if gb != exp:
        return ('wrong-messages/%s' % {1: 'bin', 2: 'text', 3: 'foreign'}[mode],
                'read %r expected %r (layout %d)' % (gb, exp, layout))
    if any(m.type != 'sysex' for m in got):
        return 'non-sysex', repr(got)
    # the caller owns what it was given: changing it must not show anywhere else
    for m in got:
        m.data = (0x55, 0x2a)
        m.time = 9
    return None


def worker(lines):
    res = {'n': 0, 'viol': [], 'samples': [], 'counts': {}}
    d = core.scratch('syx')
    try:
        for line in lines:
            mode, layout, encs, exp = parse_row(core.ints_of(line))
            res['n'] += 1
            key = {1: 'bin', 2: 'text', 3: 'foreign_bin', 4: 'badtext'}[mode]
            res['counts'][key] = res['counts'].get(key, 0) + 1
            r = check_case(mode, layout, encs, exp, d)
            if r and len(res['viol']) < 10:
                res['viol'].append(('syx/' + r[0], {'row': [mode, layout, encs, exp]}, r[1]))
        if lines:
            res['samples'].append({'mode': key, 'layout': layout, 'messages': encs, 'expected': exp})
    finally:
        shutil.rmtree(d, ignore_errors=True)
    return res


def record(rng, d, many=False):
    import mido
    n = rng.choice([0, 1, 2, 5, 20])
    msgs = []
    if many:
        # more messages in one file than any plausible internal bound
        n = 0
        for k in range(1300):
            msgs.append(mido.Message('sysex', data=[k % 128, k // 128]))
            if k % 3 == 0:
                msgs.append(mido.Message('clock'))
    for _ in range(n):
        k = rng.random()
        if k < 0.6:
            ln = rng.choice([0, 1, 2, 127, 128, 1000, rng.randrange(5001)])
            msgs.append(mido.Message('sysex', data=[rng.randrange(128) for _ in range(ln)]))
        elif k < 0.8:
            msgs.append(mido.Message('note_on', note=rng.randrange(128)))
        else:
            msgs.append(mido.Message(rng.choice(['clock', 'tune_request', 'start'])))
    pb, pt = os.path.join(d, 'b.syx'), os.path.join(d, 't.syx')
    rec = {'msgs': [[int(b) for b in m.bytes()] for m in msgs], 'binfile': [], 'rbin': [[-1]], 'rtext': [[-1]],
           'rlay': [[-1]]}
    try:
        mido.write_syx_file(pb, msgs)
        mido.write_syx_file(pt, msgs, plaintext=True)
        with open(pb, 'rb') as f:
            rec['binfile'] = list(f.read())
        rec['rbin'] = [[int(b) for b in m.bytes()] for m in mido.read_syx_file(pb)]
        rec['rtext'] = [[int(b) for b in m.bytes()] for m in mido.read_syx_file(pt)]
        # the same sysex messages as text with another whitespace layout per message
        pl = os.path.join(d, 'l.syx')
        with open(pl, 'w', newline='') as f:
            for m in msgs:
                if m.type == 'sysex':
                    f.write(layout_text(list(m.bytes()), rng.choice([1, 2, 3, 4, 5, 6, 8, 9])))
                    f.write(rng.choice(['', '\n', '\r\n\r\n', ' \t']))
        rec['rlay'] = [[int(b) for b in m.bytes()] for m in mido.read_syx_file(pl)] \
            if any(m.type == 'sysex' for m in msgs) else []
    except Exception as e:
        rec['err'] = repr(e)
    return rec


def replay(case):
    if 'rseed' in case:
        d = core.scratch('syx')
        rec = record(random.Random(max(case['rseed'], 1)), d, many=case['rseed'] == -1)
        ctx = core.Ctx('C19', 'quick', 0)
        rej = validate(ctx, [rec])
        return rej and 'trace rejected: %r' % ({k: (v if k == 'err' else str(v)[:100]) for k, v in rec.items()},)
    d = core.scratch('syx')
    mode, layout, encs, exp = case['row']
    r = check_case(mode, layout, encs, exp, d)
    return r and '%s: %s' % r


def validate(ctx, recs):
    work = core.scratch('trace')
    path = os.path.join(work, 'syx.json')
    with open(path, 'w') as f:
        json.dump([{k: v for k, v in r.items() if k != 'err'} for r in recs], f)
    rejected = []

    def on_print(val):
        if isinstance(val, list) and val and val[0] == 'REJECTED':
            rejected.append(val[1] - 1)
    res = core.run_tlc('SyxTrace', "SPECIFICATION Spec\nINVARIANT Judge\nCHECK_DEADLOCK FALSE\n",
                       on_print=on_print, env={'TRACE_FILE': path}, timeout=1800)
    ctx.add_tlc(res, 'SyxTrace')
    ctx.validated += len(recs)
    return rejected


def run(ctx):
    thorough = ctx.tier == 'thorough'
    pr = core.ParallelReplay(ctx, worker, batch_size=300)
    res = core.run_tlc('SyxFile', """SPECIFICATION Spec
CONSTANTS
 MaxList = %d
INVARIANT SyxRoundTrip
INVARIANT NoSysexGivesEmpty
INVARIANT ForeignDropped
INVARIANT BinaryDetected
INVARIANT Emit
CHECK_DEADLOCK FALSE
""" % (4 if thorough else 3), on_emit=pr.push, raw_ints=True, timeout=3000)
    n = pr.finish()
    ctx.add_tlc(res, 'SyxFile')
    if n != res.distinct:
        raise core.Machinery('replayed %d rows, TLC found %d states' % (n, res.distinct))
    rng = random.Random(ctx.seed + 19)
    seeds = [rng.randrange(1 << 30) for _ in range(150 if thorough else 40)]
    d = core.scratch('syx')
    recs = [record(random.Random(s), d) for s in seeds]
    seeds.append(-1)
    recs.append(record(random.Random(1), d, many=True))
    for i in validate(ctx, recs):
        ctx.violation('syx/trace-rejected', {'rseed': seeds[i]},
                      'write/read of a random list rejected: %d messages, error %r' % (
                          len(recs[i]['msgs']), recs[i].get('err')))
    import mido
    path = os.path.join(d, 'big.syx')
    with open(path, 'wb') as f:
        f.write(bytes([0xf0, 1, 2, 0xf7, 0xf0, 3, 0xf7] + [0xf8] * 1500 + [0xf0, 4, 0xf7]))
    ctx.replayed += 1
    try:
        got = [list(m.bytes()) for m in mido.read_syx_file(path)]
    except Exception as e:
        got = repr(e)
    if got != [[0xf0, 1, 2, 0xf7], [0xf0, 3, 0xf7], [0xf0, 4, 0xf7]]:
        ctx.violation('syx/wrong-messages/foreign-many', {'row': [3, 0, [[0xf0, 1, 2, 0xf7], [0xf0, 3, 0xf7]] + [[0xf8]] * 1500 + [[0xf0, 4, 0xf7]],
                                                         [[0xf0, 1, 2, 0xf7], [0xf0, 3, 0xf7], [0xf0, 4, 0xf7]]]},
                      'a binary file with 3 sysex and 1500 clock messages read as %s' % (str(got)[:200],))
    ctx.note('random_lists', len(recs))
    ctx.note('random_bytes', sum(len(r['binfile']) for r in recs))
    ctx.exhaustive = True
    ctx.assumptions += [
        'whitespace layouts: single space, newline, tab, CRLF, two spaces, form feed, none, mixed (incl. vertical tab and leading whitespace), lower-case hex',
        'a binary file written elsewhere is assumed to start with a sysex message (format detection looks at the first byte)',
    ]
