"""C14 - text, dict and repr representations round-trip.

G: MsgText: TLC enumerates (a) lines built from a type word and up to two
   argument tokens (valid and every kind of malformed token), with the total
   Parse verdict; (b) the documented text format Render of every valid
   boundary state of every type, with the theorem Parse(Render(m)) = m;
   (c) streams of up to MaxLines lines over 12 line classes with the expected
   output of parse_string_stream (line numbers count every input line).
   Each row is replayed on parse_string / Message.from_str /
   parse_string_stream.
   The relations from_str(str(m)) = m, from_dict(m.dict()) = m and
   eval(repr(x)) = x are evaluated by the driver on specification-generated
   objects: the message domain of WireMsgs x time tokens, the meta messages of
   MetaCheck, the tracks and files of SmfFiles.
"""
import json
import random
import re

from .. import core, tlaval
from ..midi import TYPES
from . import c01, c03, c07, c09

TIMES = [0, -3, 0.5, 1e-05, 10 ** 30, 123456.789, -2.5e-07, 3,
         # floats whose shortest repr needs an exponent or many decimals
         1e-16, 5e-324, 1.2345678901234567e-05, -9.87654321e-11, 1e22, 1.7976931348623157e308, 0.1 + 0.2]


def tok_text(tok):
    n, eq, val = tok['n'], tok['eq'], tok['val']
    if not eq:
        return n
    k, v = val['k'], val['v']
    if k == 'lparen':
        return '%s=%s)' % (n, ','.join(str(i) for i in v))
    if k == 'rparen':
        return '%s=(%s' % (n, ','.join(str(i) for i in v))
    if k == 'empty':
        return '%s=' % n
    return c03.as_text(n, val)


def line_text(tw, args, deco='plain'):
    body = ' '.join([tw] + [tok_text(t) for t in args]).strip()
    if deco == 'comment_after':
        return body + '   # a comment'
    if deco == 'blank':
        return ''
    if deco == 'comment_only':
        return '# only a comment'
    if deco == 'spaces':
        return '   ' + body + ' \t'
    if deco == 'spaces_only':
        return '  \t '
    return body


def eval_repr(x):
    import mido
    ns = {'Message': mido.Message, 'MetaMessage': mido.MetaMessage,
          'UnknownMetaMessage': mido.UnknownMetaMessage, 'MidiTrack': mido.MidiTrack,
          'MidiFile': mido.MidiFile}
    import mido.frozen as fz
    for name in ('FrozenMessage', 'FrozenMetaMessage', 'FrozenUnknownMetaMessage'):
        ns[name] = getattr(fz, name)
    return eval(repr(x), ns)


def check_line(tw, args, ok, parsed):
    import mido
    text = line_text(tw, args)
    for how, f in (('parse_string', mido.parse_string), ('from_str', mido.Message.from_str)):
        try:
            m = f(text)
        except ValueError:
            if ok:
                return 'rejects-valid/' + how, '%s(%r) raised ValueError' % (how, text)
            continue
        except Exception as e:
            return ('wrong-exception/%s' % type(e).__name__, '%s(%r) raised %r' % (how, text, e))
        if not ok:
            return 'accepts-invalid/' + cls_of(tw, args), '%s(%r) returned %r' % (how, text, m)
        exp = c03.state_dict(tw, parsed)
        if not c03.same(c03.norm(m), exp):
            return 'wrong-message', '%s(%r) = %r expected %r' % (how, text, c03.norm(m), exp)
    return None


def cls_of(tw, args):
    if tw not in TYPES:
        return 'unknown-type'
    for a in args:
        if not a['eq']:
            return 'missing-eq'
        if a['val']['k'] in ('lparen', 'rparen', 'badseq', 'empty'):
            return 'data-syntax'
        if a['n'] == 'data' and a['val']['k'] == 'int':
            return 'data-syntax'
    return 'value'


def check_render(t, toks, st):
    import mido
    exp = c03.state_dict(t, st)
    text = line_text(t, toks)
    try:
        m = mido.Message.from_str(text)
    except Exception as e:
        return 'documented-format-rejected/' + t, 'from_str(%r) raised %r' % (text, e)
    if not c03.same(c03.norm(m), exp):
        return 'documented-format/' + t, 'from_str(%r) = %r expected %r' % (text, c03.norm(m), exp)
    # and the real str() of that message parses back
    return check_roundtrips(m)


def check_roundtrips(m):
    import mido
    t = m.type
    try:
        s = str(m)
        b = mido.Message.from_str(s)
    except Exception as e:
        key = 'from_str/sysex-empty' if (t == 'sysex' and len(m.data) == 0) else 'from_str/' + t
        return 'roundtrip/' + key, 'from_str(str(m)) raised %r for %r' % (e, m)
    if not (b == m) or type(b.time) is not type(m.time):
        return 'roundtrip/from_str/' + t, 'from_str(%r) = %r' % (s, b)
    # what a parse returned is the caller's: it is overwritten, and the same text parsed again
    core.scribble(b)
    try:
        b2 = mido.parse_string(s)
        b3 = mido.Message.from_str(s)
    except Exception as e:
        return 'roundtrip/from_str-second/' + t, 'second parse of %r raised %r' % (s, e)
    if not (b2 == m) or not (b3 == m) or b2 is b3 or b2 is b:
        return 'roundtrip/from_str-second/' + t, 'second parse of %r gave %r / %r' % (s, b2, b3)
    core.scribble([b2, b3])
    try:
        b = mido.Message.from_dict(m.dict())
    except Exception as e:
        return 'roundtrip/from_dict/' + t, 'from_dict(%r) raised %r' % (m.dict(), e)
    if not (b == m):
        return 'roundtrip/from_dict/' + t, 'from_dict(%r) = %r' % (m.dict(), b)
    core.scribble(b)
    core.scribble(m.dict())
    try:
        b = eval_repr(m)
    except Exception as e:
        return 'roundtrip/repr/' + t, 'eval(%r) raised %r' % (repr(m), e)
    if not (b == m) or type(b) is not type(m):
        return 'roundtrip/repr/' + t, 'eval(%r) = %r' % (repr(m), b)
    ps = mido.parse_string(mido.format_as_string(m))
    if not (ps == m):
        return 'roundtrip/format_as_string/' + t, repr(ps)
    # the immutable twin is a valid message too: same representations, also after it was
    # hashed / used as a dictionary key
    from mido.frozen import freeze_message
    try:
        fm = freeze_message(m)
        for stage in ('fresh', 'hashed'):
            if str(fm) != str(m) or fm.dict() != m.dict():
                return ('roundtrip/frozen-%s/text/%s' % (stage, t),
                        'frozen message renders as %r / %r, the message as %r / %r' % (str(fm), fm.dict(), str(m), m.dict()))
            if not (mido.Message.from_str(str(fm)) == fm) or not (mido.Message.from_dict(fm.dict()) == fm):
                return 'roundtrip/frozen-%s/%s' % (stage, t), 'from_str / from_dict of a frozen message differ from it'
            fb = eval_repr(fm)
            if not (fb == fm) or type(fb) is not type(fm):
                return 'roundtrip/frozen-%s/repr/%s' % (stage, t), 'eval(%r) = %r' % (repr(fm), fb)
            {fm: 1}[fm]
            hash(fm)
    except Exception as e:
        return 'roundtrip/frozen-raises/' + t, 'frozen twin of %r: %r' % (m, e)
    return None


def check_stream(lines, out, table):
    import mido
    texts = [line_text(*table[i - 1]) for i in lines]
    for variant in (texts, [t + '\n' for t in texts]):
        try:
            got = list(mido.parse_string_stream(iter(variant)))
        except Exception as e:
            return 'stream-raises/%s' % type(e).__name__, 'parse_string_stream(%r) raised %r' % (texts, e)
        if len(got) != len(out):
            return 'stream-length', 'stream %r yielded %d items expected %d: %r' % (texts, len(got), len(out), got)
        for (m, err), (kind, arg) in zip(got, out):
            if kind == 1:
                if m is None or err is not None:
                    return 'stream-item', 'expected a message for %r, got %r' % (texts, (m, err))
                exp = mido.parse_string(line_text(table[arg - 1][0], table[arg - 1][1]))
                if not (m == exp):
                    return 'stream-message', '%r != %r' % (m, exp)
            else:
                if m is not None or not isinstance(err, str):
                    return 'stream-item', 'expected (None, error) for %r, got %r' % (texts, (m, err))
                mo = re.search(r'line (\d+)', err)
                if not mo or int(mo.group(1)) != arg:
                    return 'stream-line-number', 'error %r should name line %d (stream %r)' % (err, arg, texts)
    return None


_TABLE = None


def worker(lines):
    res = {'n': 0, 'viol': [], 'samples': [], 'counts': {}}
    for line in lines:
        row = tlaval.parse(json.loads(line))[1:]
        res['n'] += 1
        kind = row[0]
        res['counts'][kind] = res['counts'].get(kind, 0) + 1
        if kind == 'line':
            r = check_line(row[1], row[2], row[3], row[4])
        elif kind == 'render':
            r = check_render(row[1], row[2], row[3])
        else:
            r = check_stream(row[1], row[2], LINE_TABLE)
        if r and len(res['viol']) < 10:
            res['viol'].append(('text/' + r[0], {'row': row}, r[1]))
    if lines:
        res['samples'].append({'row': row if len(str(row)) < 300 else str(row)[:300]})
    return res


def I(n):
    return {'k': 'int', 'v': [n]}


def T(n, eq, val):
    return {'n': n, 'eq': eq, 'val': val}


# mirrors MsgText.LineTable (type word, tokens, decoration); checked against the
# specification at run time through the stream rows (a mismatch shows as a failure)
LINE_TABLE = [
    ('note_on', [T('note', True, I(60))], 'plain'),
    ('note_on', [T('channel', True, I(15))], 'comment_after'),
    ('', [], 'blank'),
    ('', [], 'comment_only'),
    ('foo', [], 'plain'),
    ('note_on', [T('note', False, I(0))], 'plain'),
    ('note_on', [T('note', True, {'k': 'str', 'v': []})], 'plain'),
    ('note_on', [T('bogus', True, I(1))], 'plain'),
    ('sysex', [T('data', True, {'k': 'lparen', 'v': [1, 2]})], 'plain'),
    ('note_on', [T('note', True, I(128))], 'spaces'),
    ('sysex', [T('data', True, {'k': 'seq', 'v': [1, 2]})], 'spaces'),
    ('', [], 'spaces_only'),
]


def domain_worker(lines):
    """WireMsgs rows x time tokens: the three message round trips."""
    import mido
    from ..midi import attrs_of
    res = {'n': 0, 'viol': [], 'samples': [], 'counts': {}}
    for line in lines:
        ints = core.ints_of(line)
        type_, v, bs = c01.parse_row(ints)
        for k in range(2):
            t = TIMES[(sum(ints) + 3 * k) % len(TIMES)]
            m = mido.Message(type_, time=t, **attrs_of(type_, v))
            res['n'] += 1
            r = check_roundtrips(m)
            if r and len(res['viol']) < 10:
                res['viol'].append(('text/' + r[0], {'msg': {'type': type_, 'v': v, 'time': repr(t)}}, r[1]))
    return res


def meta_worker(lines):
    res = {'n': 0, 'viol': [], 'samples': [], 'counts': {}}
    for line in lines:
        if '\\"A\\"' not in line[:24] or len(line) > 20000:
            continue
        row = tlaval.parse(json.loads(line))[1:]
        _, t, v, bs = row
        if t == 'smpte_offset' and v[1] > 31:
            continue
        try:
            m = c09.build(t, v, time=[0, 5, 0.25][len(v) % 3])
            b = eval_repr(m)
        except Exception as e:
            res['viol'].append(('text/roundtrip/repr/meta-' + t, {'row': row}, 'eval(repr) raised %r' % (e,)))
            continue
        res['n'] += 1
        if not (b == m) or type(b) is not type(m):
            if len(res['viol']) < 10:
                res['viol'].append(('text/roundtrip/repr/meta-' + t, {'row': row}, 'eval(%r) = %r' % (repr(m), b)))
    return res


DOC_ATTRS = {'sequence_number': ['number'], 'channel_prefix': ['channel'], 'midi_port': ['port'], 'set_tempo': ['tempo'],
             'smpte_offset': ['frame_rate', 'hours', 'minutes', 'seconds', 'frames', 'sub_frames'],
             'time_signature': ['numerator', 'denominator', 'clocks_per_click', 'notated_32nd_notes_per_beat'],
             'key_signature': ['key'], 'sequencer_specific': ['data'], 'text': ['text'], 'copyright': ['text'],
             'track_name': ['name'], 'instrument_name': ['name'], 'lyrics': ['text'], 'marker': ['text'],
             'cue_marker': ['text'], 'device_name': ['name'], 'end_of_track': []}


def check_default_metas():
    """Every meta type built without arguments (all attributes at their documented
    defaults), and with only a time: eval(repr(x)) == x, also inside a track and a file."""
    import mido
    from mido.midifiles.meta import _META_SPEC_BY_TYPE
    out = []
    for t in sorted(_META_SPEC_BY_TYPE):
        for kw in ({}, {'time': 7}):
            try:
                m = mido.MetaMessage(t, **kw)
                b = eval_repr(m)
                tr = mido.MidiTrack([m, m.copy()])
                tb = eval_repr(tr)
                ok = (b == m) and type(b) is type(m) and list(tb) == list(tr) and \
                    (mido.MetaMessage.from_bytes(m.bytes()) == m.copy(time=0))
            except Exception as e:
                out.append(('roundtrip/repr/default-meta-' + t, 'default %s: %r' % (t, e)))
                continue
            if not ok:
                out.append(('roundtrip/repr/default-meta-' + t, 'eval(%r) = %r' % (repr(m), b)))
    # every attribute of every meta type assigned after construction (to another legal value):
    # what repr shows is what the message holds
    for t in sorted(_META_SPEC_BY_TYPE):
        try:
            m = mido.MetaMessage(t)
            # (the attribute names are the documented ones, not whatever the library lists today)
            for name in DOC_ATTRS.get(t, list(_META_SPEC_BY_TYPE[t].attributes)):
                cur = getattr(m, name)
                new = (cur + 1 if isinstance(cur, int) and not isinstance(cur, bool) and name not in ('denominator', 'frame_rate')
                       else cur + 'x' if isinstance(cur, str) and name != 'key' else
                       'Eb' if name == 'key' else 8 if name == 'denominator' else 25 if name == 'frame_rate' else
                       tuple(cur) + (9,) if isinstance(cur, (tuple, list)) else cur)
                setattr(m, name, new)
                if getattr(m, name) != new:
                    out.append(('roundtrip/repr/assigned-meta-' + t, '%s.%s = %r reads back %r' % (t, name, new, getattr(m, name))))
            b = eval_repr(m)
            if not (b == m) or vars(b) != vars(m) or not (mido.MetaMessage.from_bytes(m.bytes()) == m):
                out.append(('roundtrip/repr/assigned-meta-' + t, 'after assigning every attribute: eval(%r) = %r, holds %r' % (
                    repr(m), b, vars(m))))
        except Exception as e:
            out.append(('roundtrip/repr/assigned-meta-' + t, 'assigning the attributes of %s: %r' % (t, e)))
    # tracks of any length
    try:
        big = mido.MidiTrack(mido.Message('note_on', note=k % 128, time=k % 3) for k in range(1501))
        eb = eval_repr(big)
        if not isinstance(eb, mido.MidiTrack) or list(eb) != list(big):
            out.append(('roundtrip/repr/track-len1501', 'eval(repr(track of 1501 messages)) has %d items' % len(eb)))
    except Exception as e:
        out.append(('roundtrip/repr/track-len1501', repr(e)))
    # any str is a legal text, whatever charset some file may be written in later
    for text in ('\u20ac \u266a', '\u65e5\u672c\u8a9e', 'caf\xe9', '\U0001f3b9', '', ' ', "it's", 'a"b', 'x\ny', '\\'):
        for t, attr in (('text', 'text'), ('track_name', 'name'), ('lyrics', 'text'), ('marker', 'text')):
            try:
                m = mido.MetaMessage(t, time=2, **{attr: text})
                b = eval_repr(m)
                c = m.copy(time=5)
                tr = eval_repr(mido.MidiTrack([m, c]))
                mid = mido.MidiFile(charset='utf-8')
                mid.tracks.append(mido.MidiTrack([m]))
                fb = eval_repr(mid)
                ok = (b == m and getattr(c, attr) == text and list(tr) == [m, c] and list(fb.tracks[0]) == [m])
            except Exception as e:
                out.append(('roundtrip/repr/meta-text/' + t, '%s with text %r: %r' % (t, text, e)))
                break
            if not ok:
                out.append(('roundtrip/repr/meta-text/' + t, 'eval(%r) = %r' % (repr(m), b)))
                break
    return out[:6]


def file_worker(lines):
    import mido
    res = {'n': 0, 'viol': [], 'samples': [], 'counts': {'tracks_len0': 0, 'tracks_len1': 0, 'tracks_len2+': 0}}
    for line in lines:
        ints = core.ints_of(line)
        if ints[0] != 1:
            continue
        ftype, tpb, storable, tracks, norm, canon = c07.parse_file_row(ints)
        try:
            mid = c07.build_file(ftype, tpb, tracks)
        except Exception:
            continue
        res['n'] += 1
        for tr in mid.tracks:
            key = 'tracks_len%s' % (len(tr) if len(tr) < 2 else '2+')
            res['counts'][key] += 1
            try:
                b = eval_repr(tr)
                ok = isinstance(b, mido.MidiTrack) and list(b) == list(tr) and \
                    all(type(x) is type(y) for x, y in zip(b, tr))
            except Exception as e:
                ok, b = False, e
            if not ok and len(res['viol']) < 10:
                res['viol'].append(('text/roundtrip/repr/track-len%d' % min(len(tr), 2), {'file': [ftype, tpb, tracks]},
                                    'eval(repr(track)) gave %r for %r' % (b, repr(tr))))
        try:
            b = eval_repr(mid)
            ok = (isinstance(b, mido.MidiFile) and b.type == mid.type and
                  b.ticks_per_beat == mid.ticks_per_beat and len(b.tracks) == len(mid.tracks) and
                  all(list(x) == list(y) for x, y in zip(b.tracks, mid.tracks)))
        except Exception as e:
            ok, b = False, e
        if not ok and len(res['viol']) < 10:
            res['viol'].append(('text/roundtrip/repr/file', {'file': [ftype, tpb, tracks]},
                                'eval(repr(file)) gave %r for %r' % (b, repr(mid)[:200])))
    return res


def replay(case):
    if case.get('kind') == 'default_metas':
        v = check_default_metas()
        return v and '%s: %s' % v[0]
    import mido
    if 'row' in case and case['row'][0] in ('line', 'render', 'stream'):
        row = case['row']
        if row[0] == 'line':
            r = check_line(row[1], row[2], row[3], row[4])
        elif row[0] == 'render':
            r = check_render(row[1], row[2], row[3])
        else:
            r = check_stream(row[1], row[2], LINE_TABLE)
        return r and '%s: %s' % r
    if 'special_text' in case:
        text = case['special_text']
        mid = mido.MidiFile(type=1, ticks_per_beat=96)
        mid.tracks.append(mido.MidiTrack([mido.MetaMessage('lyrics', text=text, time=1)]))
        try:
            b = eval_repr(mid)
            return None if list(b.tracks[0]) == list(mid.tracks[0]) else 'eval(repr(file)) differs'
        except Exception as e:
            return 'eval(repr(file)) raised %r' % (e,)
    if 'msg' in case:
        from ..midi import attrs_of
        m = mido.Message(case['msg']['type'], time=eval(case['msg']['time']),
                         **attrs_of(case['msg']['type'], case['msg']['v']))
        r = check_roundtrips(m)
        return r and '%s: %s' % r
    if 'file' in case:
        ftype, tpb, tracks = case['file']
        mid = c07.build_file(ftype, tpb, [[tuple(x) for x in t] for t in tracks])
        for tr in mid.tracks:
            try:
                b = eval_repr(tr)
                if list(b) != list(tr):
                    return 'eval(repr(track)) != track: %r' % repr(tr)
            except Exception as e:
                return 'eval(repr(track)) raised %r for %r' % (e, repr(tr))
        b = eval_repr(mid)
        return None
    if 'row' in case:
        row = case['row']
        m = c09.build(row[1], row[2])
        b = eval_repr(m)
        return None if b == m else 'eval(repr) != message'


def run(ctx):
    thorough = ctx.tier == 'thorough'
    pr = core.ParallelReplay(ctx, worker, batch_size=500)
    res = core.run_tlc('MsgText', """SPECIFICATION Spec
CONSTANTS
 MaxLines = %d
INVARIANT RenderParses
INVARIANT ParsedIsValid
INVARIANT StreamShape
INVARIANT Emit
CHECK_DEADLOCK FALSE
""" % (4 if thorough else 3), on_emit=pr.push, raw_ints=True, timeout=3000, heap='16g')
    n = pr.finish()
    ctx.add_tlc(res, 'MsgText lines, documented format, streams')
    if n != res.distinct:
        raise core.Machinery('replayed %d rows, TLC found %d states' % (n, res.distinct))
    # message round trips over the WireMsgs domain x time tokens
    pr = core.ParallelReplay(ctx, domain_worker, batch_size=2000)
    res = core.run_tlc('WireMsgs', c01.QUICK_CFG if thorough else c01.QUICK_CFG.replace(
        'Data = {0,1,2,3,31,32,33,63,64,65,95,96,97,125,126,127}', 'Data = {0,1,64,126,127}'),
        on_emit=pr.push, raw_ints=True, timeout=3000)
    pr.finish()
    ctx.add_tlc(res, 'WireMsgs domain for from_str / from_dict / repr round trips')
    # long sysex, driver level
    import mido
    rng = random.Random(ctx.seed + 14)
    for ln in (0, 1, 2, 127, 128, 1000, 5000):
        m = mido.Message('sysex', data=[rng.randrange(128) for _ in range(ln)], time=rng.choice(TIMES))
        r = check_roundtrips(m)
        ctx.replayed += 1
        if r:
            ctx.violation('text/' + r[0], {'msg': {'type': 'sysex', 'v': list(m.data), 'time': repr(m.time)}}, r[1])
    # files and tracks whose meta text contains characters that are special in format
    # strings, string literals or reprs
    for text in ('{chorus}', '{}', 'a } b', '{{verse}}', '{0}', "it's", 'say "hi"', 'back\\slash', 'new\nline',
                 '%s %d', '\x00', 'caf\xe9', ''):
        mid = mido.MidiFile(type=1, ticks_per_beat=96)
        mid.tracks.append(mido.MidiTrack([mido.MetaMessage('lyrics', text=text, time=1),
                                          mido.Message('note_on', time=2)]))
        mid.tracks.append(mido.MidiTrack([mido.MetaMessage('track_name', name=text)]))
        ctx.replayed += 1
        try:
            b = eval_repr(mid)
            ok = (b.type == 1 and b.ticks_per_beat == 96 and len(b.tracks) == 2 and
                  all(list(x) == list(y) for x, y in zip(b.tracks, mid.tracks)))
            for tr in mid.tracks:
                ok = ok and list(eval_repr(tr)) == list(tr) and eval_repr(tr[0]) == tr[0]
        except Exception as e:
            ok, b = False, e
        if not ok:
            ctx.violation('text/roundtrip/repr/file-special-text', {'special_text': text},
                          'eval(repr(x)) failed for a file with meta text %r: %s' % (text, core.srepr(b)))
    # meta messages
    pr = core.ParallelReplay(ctx, meta_worker, batch_size=300)
    res = core.run_tlc('MetaCheck', """SPECIFICATION Spec
CONSTANTS
 SeqNums <- QuickSeq
 ByteVals <- QuickByte
 Exponents <- FullExp
 TextLens = {0, 1, 127, 128}
INVARIANT Emit
CHECK_DEADLOCK FALSE
""", on_emit=pr.push, raw_ints=True, timeout=3000)
    pr.finish()
    ctx.add_tlc(res, 'MetaCheck domain for eval(repr(meta))')
    # tracks and files
    pr = core.ParallelReplay(ctx, file_worker, batch_size=500)
    res = core.run_tlc('SmfFiles', c07.cfg('{1,2,3,4,6,8,9,10,11,12,13,14,16}', '{0,1,128}', 2, False),
                       on_emit=pr.push, raw_ints=True, timeout=3000)
    pr.finish()
    ctx.add_tlc(res, 'SmfFiles domain for eval(repr(track)) / eval(repr(file))')
    ctx.exhaustive = True
    ctx.assumptions += [
        'from_str(str(m)), from_dict(m.dict()) and eval(repr(x)) are relations over real objects evaluated by the driver; the specifications supply the object space',
        'MidiFile defines no __eq__: files are compared structurally (class, type, ticks_per_beat, tracks)',
        'duplicated attributes in a line are not generated (their status is left open); times are finite',
    ]
    for key, msg in check_default_metas():
        ctx.violation('text/' + key, {'kind': 'default_metas'}, msg)
    ctx.replayed += 40
    # re-entrancy: two threads inside these functions at once, a switch possible before every statement
    from .. import conc
    conc.run_scenarios(ctx, 'C14', 2 if ctx.tier == 'thorough' else 1)
    conc.first_use(ctx, 'C14', 120 if ctx.tier == 'thorough' else 40)
