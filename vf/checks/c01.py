"""C01 - message byte codec round-trips every valid message.

G: TLC enumerates the message domain (WireMsgs), checks RoundTrip on the
   specification and emits (message, bytes) rows; each row is replayed into
   the real Message class.
V: messages outside the enumerated constants (random full-range values, long
   sysex payloads) are run through the real codec, logged, and validated by
   TLC against MidiWire (WireTrace).
"""
import json
import os
import random

from .. import core
from ..midi import TYPES, VALUE_NAMES, attrs_of, values_of

TIMES = [0, 7, 2 ** 40, 0.5, 1e-9, -3, 123456.789]

QUICK_CFG = """SPECIFICATION Spec
CONSTANTS
 Chans <- FullChans
 Data = {0,1,2,3,31,32,33,63,64,65,95,96,97,125,126,127}
 Pitches <- BoundaryPitches
 Positions <- BoundaryPositions
 SysexAlpha = {0,1,127}
 SysexMaxLen = 3
 EmitRows = TRUE
INVARIANT RoundTripInv
INVARIANT EmitInv
CHECK_DEADLOCK FALSE
"""

# quick tier, second run: the complete 14-bit ranges on two channels (stateful
# defects such as caches keyed too coarsely need neighbouring values)
QUICK_14BIT_CFG = """SPECIFICATION Spec
CONSTANTS
 Chans = {0, 9}
 Data = {5}
 Pitches <- FullPitches
 Positions <- FullPositions
 SysexAlpha = {0}
 SysexMaxLen = 0
 EmitRows = TRUE
INVARIANT RoundTripInv
INVARIANT EmitInv
CHECK_DEADLOCK FALSE
"""

THOROUGH_CFG = """SPECIFICATION Spec
CONSTANTS
 Chans <- FullChans
 Data <- FullData
 Pitches <- FullPitches
 Positions <- FullPositions
 SysexAlpha = {0,1,127}
 SysexMaxLen = 4
 EmitRows = TRUE
INVARIANT RoundTripInv
INVARIANT EmitInv
CHECK_DEADLOCK FALSE
"""


def parse_row(ints):
    tidx, nv = ints[0], ints[1]
    return TYPES[tidx - 1], ints[2:2 + nv], ints[2 + nv:]


def check_row(type_, v, bs, t):
    """Replay one specification row on the real class.
    Returns None or (which, detail)."""
    import mido
    Message = mido.Message
    attrs = attrs_of(type_, v)
    # the ORDER in which the attributes are given rotates with the row (MidiWire.Encode is a function of
    # the values only): documented order, reversed, time first / last, alphabetical
    kw = dict(attrs, time=t)
    names = list(kw)
    k = (sum(bs) + len(bs)) % 5
    order = [names, names[::-1], ['time'] + [n for n in names if n != 'time'], sorted(names), sorted(names, reverse=True)][k]
    try:
        m = Message(type_, **{n: kw[n] for n in order})
    except Exception as e:
        return 'construct', 'constructor raised %r' % (e,)
    try:
        b = m.bytes()
        if list(b) != bs or not all(type(x) is int for x in b):
            return 'bytes', 'bytes()=%r expected %r' % (b, bs)
        if m.bin() != bytearray(bs) or not isinstance(m.bin(), bytearray):
            return 'bin', 'bin()=%r' % (m.bin(),)
        hx = m.hex()
        if hx != ' '.join('%02X' % x for x in bs):
            return 'hex', 'hex()=%r' % (hx,)
        if len(m) != len(bs):
            return 'len', 'len()=%r expected %d' % (len(m), len(bs))
        for sep in (':', '', ' - ', '\n'):
            hs = m.hex(sep)
            if hs != sep.join('%02X' % x for x in bs):
                return 'hex-sep', 'hex(%r)=%r' % (sep, hs)
            back = Message.from_hex(hs, time=t, sep=sep or None)
            if list(back.bytes()) != bs or not (back == m):
                return 'from_hex-sep', 'from_hex(%r, sep=%r) gave %r' % (hs, sep, back)
        low = Message.from_hex(hx.lower().replace(' ', '\t'), time=t)
        if not (low == m):
            return 'from_hex-lowercase', 'from_hex(lower case, tabs) gave %r' % (low,)
    except Exception as e:
        return 'encode-exc', 'encoding raised %r' % (e,)
    exp = dict(attrs)
    exp['type'] = type_
    exp['time'] = t
    # looking at a message does not change it: every read-only accessor is used before the
    # comparisons, and what bytes()/bin()/dict() returned is overwritten
    try:
        looked = (m.is_realtime, m.is_meta, m.is_cc(), m.is_cc(7), len(m), str(m), repr(m), m.dict(), m.hex(), m == m)
        for view in (m.bytes(), m.bin(), m.dict()):
            core.scribble(view)
        st = {k: (tuple(v) if k == 'data' else v) for k, v in vars(m).items()}
        if st != exp:
            return 'changed-by-looking', 'after reading its properties the message holds %r expected %r' % (st, exp)
        if list(m.bytes()) != bs:
            return 'changed-by-looking/bytes', 'second bytes()=%r expected %r' % (m.bytes(), bs)
    except Exception as e:
        return 'accessor-raises', repr(e)
    for how, arg in (('from_bytes/list', bs), ('from_bytes/bytes', bytes(bs)),
                     ('from_bytes/bin', m.bin()), ('from_hex', None),
                     ('from_bytes/positional-time', tuple(bs)), ('from_hex/positional-time', None)):
        try:
            if how == 'from_hex':
                d = Message.from_hex(hx, time=t)
            elif how == 'from_hex/positional-time':
                d = Message.from_hex(hx, t)
            elif how == 'from_bytes/positional-time':
                d = Message.from_bytes(arg, t)              # documented signature: from_bytes(data, time=0)
            else:
                d = Message.from_bytes(arg, time=t)
        except Exception as e:
            return how, '%s raised %r' % (how, e)
        dv = dict(vars(d))
        if 'data' in dv:
            dv['data'] = tuple(dv['data'])
        if dv != exp:
            return how, '%s gave %r expected %r' % (how, dv, exp)
        if type(d.time) is not type(t):
            return how + '/time', 'time type %r' % (type(d.time),)
        if not (d == m):
            return how + '/eq', 'decoded != original'
        if any(type(x) is not int for k, x in dv.items() if k not in ('type', 'time', 'data')):
            return how + '/type', 'non-int attribute in %r' % (dv,)
        # the decoded message belongs to the caller: stamping it must not show up anywhere else
        try:
            d.time = 424242
        except Exception as e:
            return how + '/time-assign', 'assigning time on the decoded message raised %r' % (e,)
    if m.time != t or type(m.time) is not type(t):
        return 'aliasing', 'the original message changed when a decoded one was modified'
    # the encoding follows the message: change it in place, encode again (same object, nothing
    # else encoded in between), and change it back
    try:
        if 'channel' in attrs:
            nc = (attrs['channel'] + 5) % 16
            m.channel = nc
            if list(m.bytes()) != [(bs[0] & 0xf0) | nc] + bs[1:] or m.hex()[1] != '%X' % nc:
                return 'stale-encoding/channel', 'after channel=%d bytes()=%r' % (nc, m.bytes())
            m.channel = attrs['channel']
        elif type_ == 'sysex':
            m.data += (5,)
            if list(m.bytes()) != bs[:-1] + [5, 0xf7] or len(m) != len(bs) + 1:
                return 'stale-encoding/data', 'after data += (5,) bytes()=%r' % (m.bytes(),)
            m.data = attrs['data']
        elif type_ == 'song_select':
            m.song = (attrs['song'] + 1) % 128
            if list(m.bytes()) != [bs[0], (attrs['song'] + 1) % 128]:
                return 'stale-encoding/song', 'after song changed bytes()=%r' % (m.bytes(),)
            m.song = attrs['song']
        if list(m.bytes()) != bs:
            return 'stale-encoding/back', 'after changing the message back bytes()=%r expected %r' % (m.bytes(), bs)
    except Exception as e:
        return 'in-place-edit-raises', repr(e)
    if type_ == 'sysex':
        # the payload handed to the constructor as any kind of sequence (the empty one included)
        payload0 = list(attrs['data'])
        for kind, seq in (('list', list(payload0)), ('bytes', bytes(payload0)), ('bytearray', bytearray(payload0)),
                          ('tuple', tuple(payload0)), ('generator', (x for x in payload0)), ('range-or-iter', iter(payload0))):
            try:
                c = Message('sysex', data=seq, time=t)
                if not (c == m) or type(c.data) is not type(m.data) or not (Message.from_bytes(c.bytes(), time=t) == c) \
                        or not (Message.from_dict(c.dict()) == c):
                    return 'constructed-from/' + kind, 'sysex built from a %s of %d items: %s' % (kind, len(payload0), core.srepr(c))
            except Exception as e:
                return 'constructed-from-raises/' + kind, repr(e)
        # the same message built in two steps: the payload assigned afterwards, from every kind of sequence
        payload = list(attrs['data'])
        for kind, seq in (('list', list(payload)), ('bytes', bytes(payload)), ('bytearray', bytearray(payload)),
                          ('tuple', tuple(payload)), ('generator', (x for x in payload))):
            try:
                a = Message('sysex', time=t)
                a.data = seq
                if kind == 'generator':
                    continue             # (a one-shot iterable is used up by the check: documented quirk)
                if not (a == m) or list(a.bytes()) != bs or not (Message.from_bytes(a.bytes(), time=t) == a):
                    return 'assigned-data/' + kind, 'sysex with data assigned from a %s: %s, bytes %r' % (
                        kind, core.srepr(a), a.bytes())
                if isinstance(seq, (list, bytearray)):
                    seq[:] = [0x90, 0x10][:len(seq)]        # the caller's buffer stays the caller's
                    if list(a.bytes()) != bs:
                        return 'assigned-data-aliased/' + kind, 'changing the %s afterwards changed the message to %r' % (
                            kind, a.bytes())
            except Exception as e:
                return 'assigned-data-raises/' + kind, repr(e)
    return None


def worker(lines):
    out = {'n': 0, 'viol': [], 'samples': [], 'counts': {}}
    for line in lines:
        ints = core.ints_of(line)
        type_, v, bs = parse_row(ints)
        t = TIMES[(sum(ints) + len(ints)) % len(TIMES)]
        r = check_row(type_, v, bs, t)
        if r is None and t != 0 and (len(bs) <= 2 or sum(ints) % 4 == 0):
            r = check_row(type_, v, bs, 0)        # the default time, too
        out['n'] += 1
        out['counts'][type_] = out['counts'].get(type_, 0) + 1
        if r and len(out['viol']) < 20:
            out['viol'].append(('codec/%s/%s' % (type_, r[0]),
                                {'type': type_, 'v': v, 'bytes': bs, 'time': t}, r[1]))
    if lines:
        ints = core.ints_of(lines[0])
        type_, v, bs = parse_row(ints)
        out['samples'].append({'type': type_, 'values': v[:8], 'bytes': bs[:12]})
    return out


def replay(case):
    r = check_row(case['type'], case['v'], case['bytes'], case['time'])
    return r and '%s: %s' % r


def record_traces(rng, n_plain, n_sysex, max_sysex):
    """Run random full-range messages through the real codec and log them."""
    import mido
    recs = []
    cases = []
    for k in range(n_plain + n_sysex):
        if k < n_plain:
            type_ = rng.choice([t for t in TYPES if t != 'sysex'])
            names = VALUE_NAMES[type_]
            v = []
            for nm in names:
                if nm == 'channel':
                    v.append(rng.randrange(16))
                elif nm == 'pitch':
                    v.append(rng.randrange(-8192, 8192))
                elif nm == 'pos':
                    v.append(rng.randrange(16384))
                elif nm == 'frame_type':
                    v.append(rng.randrange(8))
                elif nm == 'frame_value':
                    v.append(rng.randrange(16))
                else:
                    v.append(rng.randrange(128))
        else:
            type_ = 'sysex'
            ln = rng.choice([0, 1, 2, 127, 128, 129, rng.randrange(max_sysex + 1)])
            v = [rng.choice([0, 127, rng.randrange(128)]) for _ in range(ln)]
        t = rng.choice(TIMES)
        rec = {'t': type_, 'v': v, 'b': [], 'dt': 'error', 'dv': [], 'len': -1}
        try:
            m = mido.Message(type_, time=t, **attrs_of(type_, v))
            rec['b'] = [int(x) for x in m.bytes()]
            rec['len'] = len(m)
            d = mido.Message.from_bytes(m.bin(), time=t)
            rec['dt'] = d.type
            rec['dv'] = [int(x) for x in values_of(d)]
            if d.time != t or type(d.time) is not type(t):
                rec['dt'] = 'time-lost'
        except Exception as e:
            rec['dt'] = 'raised ' + type(e).__name__
        recs.append(rec)
        cases.append({'type': type_, 'v': v, 'time': t})
    return recs, cases


TRACE_CFG = """SPECIFICATION Spec
INVARIANT Judge
CHECK_DEADLOCK FALSE
"""


def validate_traces(ctx, recs, cases, label):
    work = core.scratch('trace')
    path = os.path.join(work, 'wire.json')
    with open(path, 'w') as f:
        json.dump(recs, f)
    rejected = []

    def on_print(val):
        if isinstance(val, list) and val and val[0] == 'REJECTED':
            rejected.append(val[1])
    res = core.run_tlc('WireTrace', TRACE_CFG, on_print=on_print,
                       env={'TRACE_FILE': path})
    ctx.add_tlc(res, label)
    ctx.validated += len(recs)
    for i in rejected:
        rec, case = recs[i - 1], cases[i - 1]
        ctx.violation('codec/%s/trace' % rec['t'],
                      {'type': rec['t'], 'v': rec['v'], 'bytes': None, 'time': case['time'],
                       'logged': rec if len(rec['v']) < 64 else None},
                      'real codec trace rejected by MidiWire: bytes=%r decoded=%s %r' % (
                          rec['b'][:16], rec['dt'], rec['dv'][:16]))
    return rejected


def run(ctx):
    thorough = ctx.tier == 'thorough'
    cfg = THOROUGH_CFG if thorough else QUICK_CFG
    ctx.constants = {'cfg': cfg.split('\n')[2:8]}
    pr = core.ParallelReplay(ctx, worker, batch_size=5000)
    res = core.run_tlc('WireMsgs', cfg, on_emit=pr.push, raw_ints=True, timeout=3000)
    pr.finish()
    ctx.add_tlc(res, 'WireMsgs domain + RoundTrip')
    if pr.n != res.distinct:
        raise core.Machinery('replayed %d rows but TLC found %d states' % (pr.n, res.distinct))
    n_rows = pr.n
    if not thorough:
        pr = core.ParallelReplay(ctx, worker, batch_size=5000, procs=4)
        res = core.run_tlc('WireMsgs', QUICK_14BIT_CFG, on_emit=pr.push, raw_ints=True, timeout=3000)
        pr.finish()
        ctx.add_tlc(res, 'WireMsgs complete 14-bit ranges on two channels')
        n_rows += pr.n
    ctx.exhaustive = thorough
    ctx.note('domain_rows', n_rows)
    # V: beyond the constants
    rng = random.Random(ctx.seed * 7919 + 1)
    recs, cases = record_traces(rng, 20000 if thorough else 3000,
                                400 if thorough else 80, 4096)
    validate_traces(ctx, recs, cases, 'WireTrace random full-range + long sysex')
    ctx.sample({'trace': {k: (v[:10] if isinstance(v, list) else v) for k, v in recs[-1].items()}})
    ctx.assumptions += [
        'time is an opaque pass-through token (checked for %d concrete values)' % len(TIMES),
        'MidiWire.tla is the reference for the MIDI 1.0 wire layout',
        'sysex payloads: exhaustive up to length %d over {0,1,127} in TLC, random lengths up to 4096 via trace validation' % (4 if thorough else 3),
    ]
    # re-entrancy: two threads inside these functions at once, a switch possible before every statement
    from .. import conc
    conc.run_scenarios(ctx, 'C01', 2 if ctx.tier == 'thorough' else 1)
    conc.first_use(ctx, 'C01', 120 if ctx.tier == 'thorough' else 40)
