"""C09 - meta message codec accepts and preserves every documented value.

G: MetaCheck: TLC enumerates the documented attribute domains (sequence
   numbers, byte-valued attributes, 256 denominator exponents, 30 keys, tempo
   and smpte limits, text / data payloads at the length boundaries), checks
   MetaRoundTrip on the specification (MetaWire) and emits accept rows
   (message, bytes) and probe rows (value at / beyond a limit, in-domain?).
   Each row is replayed on the real MetaMessage / UnknownMetaMessage:
   constructor verdict, bytes(), from_bytes and a read through a one-event
   track.
V: random meta messages run through the real codec and validated by TLC
   (MetaTrace).
"""
import io
import json
import os
import random

from .. import core, tlaval

RATES = [24, 25, 29.97, 30]
KEYS = ['Cb', 'Gb', 'Db', 'Ab', 'Eb', 'Bb', 'F', 'C', 'G', 'D', 'A', 'E', 'B', 'F#', 'C#',
        'Abm', 'Ebm', 'Bbm', 'Fm', 'Cm', 'Gm', 'Dm', 'Am', 'Em', 'Bm', 'F#m', 'C#m', 'G#m',
        'D#m', 'A#m']
TEXT_ATTR = {'text': 'text', 'copyright': 'text', 'lyrics': 'text', 'marker': 'text',
             'cue_marker': 'text', 'track_name': 'name', 'instrument_name': 'name',
             'device_name': 'name'}
ATTRS = {'sequence_number': ['number'], 'channel_prefix': ['channel'], 'midi_port': ['port'],
         'end_of_track': [], 'set_tempo': ['tempo'],
         'smpte_offset': ['frame_rate', 'hours', 'minutes', 'seconds', 'frames', 'sub_frames'],
         'time_signature': ['numerator', 'denominator', 'clocks_per_click',
                            'notated_32nd_notes_per_beat'],
         'key_signature': ['key'], 'sequencer_specific': ['data']}


_ORDER = [0]


def real_attrs(t, v):
    """Spec values -> keyword arguments of the real class."""
    if t in TEXT_ATTR:
        return {TEXT_ATTR[t]: bytes(v).decode('latin1')}
    if t == 'smpte_offset':
        d = dict(zip(ATTRS[t], v))
        d['frame_rate'] = RATES[v[0]]
        return d
    if t == 'time_signature':
        d = dict(zip(ATTRS[t], v))
        d['denominator'] = 2 ** v[1]
        return d
    if t == 'key_signature':
        return {'key': KEYS[v[0] - 1]}
    if t == 'sequencer_specific':
        # every kind of sequence the documentation allows (a list is the documented form)
        k = (len(v) + sum(v)) % 7
        return {'data': list(v) if k == 0 else tuple(v) if k == 1 else bytes(v) if k == 2 else bytearray(v) if k == 3
                else (b for b in v) if k == 4 else iter(list(v)) if k == 5 else map(int, v)}
    return dict(zip(ATTRS[t], v))


def spec_values(msg):
    """Real message -> (t, v) in the conventions of MetaWire; None if not representable."""
    t = msg.type
    if t == 'unknown_meta':
        return t, [msg.type_byte] + list(msg.data)
    if t in TEXT_ATTR:
        return t, list(getattr(msg, TEXT_ATTR[t]).encode('latin1'))
    if t == 'smpte_offset':
        return t, [RATES.index(msg.frame_rate), msg.hours, msg.minutes, msg.seconds, msg.frames,
                   msg.sub_frames]
    if t == 'time_signature':
        d = msg.denominator
        e = d.bit_length() - 1
        if d <= 0 or (1 << e) != d:
            return None
        return t, [msg.numerator, e, msg.clocks_per_click, msg.notated_32nd_notes_per_beat]
    if t == 'key_signature':
        return t, [KEYS.index(msg.key) + 1]
    if t == 'sequencer_specific':
        return t, list(msg.data)
    return t, [getattr(msg, a) for a in ATTRS[t]]


def build(t, v, time=0):
    import mido
    if t == 'unknown_meta':
        return mido.UnknownMetaMessage(v[0], data=tuple(v[1:]), time=time)
    # (the order in which the attributes are given rotates: MetaWire.MetaEncode is a function of the values)
    kw = dict(real_attrs(t, v), time=time)
    names = list(kw)
    _ORDER[0] += 1
    order = [names, names[::-1], ['time'] + names[:-1], sorted(names)][_ORDER[0] % 4]
    return mido.MetaMessage(t, **{n: kw[n] for n in order})


def through_track(msg_bytes, delta, **kw):
    """Read the event back from a one-event type-1 file."""
    import mido
    from mido.midifiles.meta import encode_variable_int
    body = bytes(encode_variable_int(delta)) + bytes(msg_bytes) + b'\x00\xff\x2f\x00'
    data = (b'MThd' + (6).to_bytes(4, 'big') + (1).to_bytes(2, 'big') + (1).to_bytes(2, 'big') +
            (480).to_bytes(2, 'big') + b'MTrk' + len(body).to_bytes(4, 'big') + body)
    mid = mido.MidiFile(file=io.BytesIO(data), **kw)
    return mid.tracks[0][0]


def sig(t, v):
    if t == 'smpte_offset' and v[1] > 31:
        return 'smpte_offset/hours32-255'
    if t in TEXT_ATTR or t in ('sequencer_specific', 'unknown_meta'):
        n = len(v) - (1 if t == 'unknown_meta' else 0)
        return '%s/len%s' % (t, n if n in (0, 1, 127, 128, 129, 16383, 16384) else 'N')
    if t == 'time_signature':
        return 'time_signature/denominator'
    return t


def check_accept(t, v, bs):
    import mido
    try:
        msg = build(t, v, time=0)
    except Exception as e:
        return 'rejects-documented/' + sig(t, v), 'constructor raised %r for %s %r' % (e, t, v[:8])
    try:
        b = msg.bytes()
    except Exception as e:
        return 'bytes-raises/' + sig(t, v), 'bytes() raised %r' % (e,)
    if not all(type(x) is int and 0 <= x <= 255 for x in b):
        return 'non-byte/' + sig(t, v), 'bytes() has a non-byte item: %r' % (b[:12],)
    if bs and list(b) != bs:
        return 'wrong-bytes/' + sig(t, v), 'bytes()=%r expected %r' % (b[:16], bs[:16])
    try:
        d = mido.MetaMessage.from_bytes(list(b))
    except Exception as e:
        return 'from_bytes-raises/' + sig(t, v), 'from_bytes raised %r' % (e,)
    if not (d == msg) or type(d) is not type(msg):
        return 'roundtrip/' + sig(t, v), 'from_bytes gave %r for %r' % (_short(d), _short(msg))
    for how, arg in (('bytes', bytes(b)), ('tuple', tuple(b)), ('bytearray', bytearray(b))):
        try:
            d = mido.MetaMessage.from_bytes(arg)
        except Exception as e:
            return 'from_bytes-raises/%s/%s' % (how, sig(t, v)), 'from_bytes(%s) raised %r' % (how, e)
        if not (d == msg):
            return 'roundtrip/%s/%s' % (how, sig(t, v)), 'from_bytes(%s) gave %r' % (how, _short(d))
    try:
        # meta payloads are 8-bit: clip (which concerns MIDI data bytes) must not touch them
        rc = through_track(b, 5, clip=True)
        if not (rc == msg.copy(time=5)):
            return 'track-roundtrip-clip/' + sig(t, v), 'track read with clip=True gave %r for %r' % (
                _short(rc), _short(msg))
    except Exception as e:
        return 'track-read-raises/clip/' + sig(t, v), 'reading from a track with clip=True raised %r' % (e,)
    try:
        r = through_track(b, 5)
    except Exception as e:
        return 'track-read-raises/' + sig(t, v), 'reading from a track raised %r' % (e,)
    if not (r == msg.copy(time=5)) or type(r) is not type(msg):
        return 'track-roundtrip/' + sig(t, v), 'track read gave %r for %r' % (_short(r), _short(msg))
    # what bytes() returned is the caller's list (a file writer prepends the delta time to it ...)
    keep = list(b)
    core.scribble(b)
    try:
        b2 = msg.bytes()
    except Exception as e:
        return 'bytes-raises/second/' + sig(t, v), 'second bytes() raised %r' % (e,)
    if list(b2) != keep or b2 is b:
        return 'bytes-aliased/' + sig(t, v), 'after the caller changed the list bytes() returned, bytes()=%r expected %r' % (
            b2[:16], keep[:16])
    core.scribble(d)
    if t == 'sequencer_specific':
        # the payload items are bytes (0..255), also when the message is extended in place
        try:
            ext = build(t, v, time=0)
            ext.data += (255, 128)
            ext.data = ext.data + (0,)
            if list(ext.data) != list(v) + [255, 128, 0] or list(ext.bytes()[-3:]) != [255, 128, 0]:
                return 'extend/' + sig(t, v), 'after data += (255, 128); data = data + (0,): %r' % (ext.data[-6:],)
        except Exception as e:
            return 'extend-raises/' + sig(t, v), 'data += (255, 128) raised %r' % (e,)
    return None


def _short(m):
    s = repr(m)
    return s if len(s) < 160 else s[:160] + '...'


def check_probe(t, idx, x, indomain):
    import mido
    attr = ATTRS[t][idx - 1]
    outcomes = []
    try:
        mido.MetaMessage(t, **{attr: x})
        outcomes.append(('ctor', True, None))
    except (ValueError, TypeError) as e:
        outcomes.append(('ctor', False, None))
    except Exception as e:
        outcomes.append(('ctor', False, e))
    base = mido.MetaMessage(t)
    before = dict(vars(base))
    try:
        setattr(base, attr, x)
        outcomes.append(('setattr', True, None))
    except (ValueError, TypeError):
        outcomes.append(('setattr', False, None))
        if vars(base) != before:
            return 'rejected-but-changed/%s/%s' % (t, attr), 'setattr rejected %r but changed the message' % (x,)
    except Exception as e:
        outcomes.append(('setattr', False, e))
    try:
        mido.MetaMessage(t).copy(**{attr: x})
        outcomes.append(('copy', True, None))
    except (ValueError, TypeError):
        outcomes.append(('copy', False, None))
    except Exception as e:
        outcomes.append(('copy', False, e))
    for how, acc, exc in outcomes:
        if exc is not None:
            return 'wrong-exception/%s/%s' % (t, attr), '%s with %s=%r raised %r' % (how, attr, x, exc)
        if acc != indomain:
            return ('%s/%s/%s' % ('rejects-documented' if indomain else 'accepts-undocumented', t, attr),
                    '%s %s %s=%r' % (how, 'accepted' if acc else 'rejected', attr, x))
    return None


import array as _array

ILL_TYPED = [
    ('sequence_number', 'number', [1.5, '1', None]),
    ('channel_prefix', 'channel', [1.0, '1', None]),
    ('midi_port', 'port', [0.5, None]),
    ('set_tempo', 'tempo', [500000.0, '500000', None]),
    ('smpte_offset', 'hours', [1.5, None]),
    ('smpte_offset', 'frame_rate', [23, 29.0, '24', None, 31]),
    ('time_signature', 'numerator', [4.0, None]),
    ('time_signature', 'denominator', [0, 3, 6, 12, 2 ** 256, -4, 4.0, None, 2 ** 255 + 1]),
    ('key_signature', 'key', ['H', 'c', 'Cm#', '', 5, None]),
    ('text', 'text', [5, b'x', None, ['a']]),
    ('track_name', 'name', [5, b'x', None]),
    ('sequencer_specific', 'data', [[256], [-1], ['a'], [1.5], [0, 300, 0], 3, 0, True, None,
                                    _array.array('H', [256, 1000]), _array.array('i', [-1]),
                                    memoryview(_array.array('H', [300])), 'abc', [b'a'], [[1]]]),
    ('text', 'text', [5.0, ('a',)]),
    ('marker', 'text', [0, None]),
    ('set_tempo', 'tempo', [True and 2 ** 24, -1, 1e6]),
]


def check_ill_typed(t, attr, x):
    import mido
    for how in ('ctor', 'setattr', 'copy'):
        try:
            if how == 'ctor':
                m = mido.MetaMessage(t, **{attr: x})
            elif how == 'setattr':
                m = mido.MetaMessage(t)
                setattr(m, attr, x)
            else:
                m = mido.MetaMessage(t).copy(**{attr: x})
        except (ValueError, TypeError):
            continue
        except Exception as e:
            return 'wrong-exception/%s/%s' % (t, attr), '%s with %s=%r raised %r' % (how, attr, x, e)
        return 'accepts-undocumented/%s/%s' % (t, attr), '%s accepted %s=%r' % (how, attr, x)
    return None


def worker(lines):
    res = {'n': 0, 'viol': [], 'samples': [], 'counts': {}}
    for line in lines:
        row = tlaval.parse(json.loads(line))[1:]
        res['n'] += 1
        if row[0] == 'A':
            _, t, v, bs = row
            r = check_accept(t, v, bs)
            res['counts'][t] = res['counts'].get(t, 0) + 1
        elif row[0] == 'P':
            _, t, idx, x, indom = row
            r = check_probe(t, idx, x, indom)
            res['counts']['probe'] = res['counts'].get('probe', 0) + 1
        else:
            _, n, vq = row
            from mido.midifiles.meta import encode_variable_int
            got = encode_variable_int(n)
            r = None if list(got) == vq else ('vlq', 'encode_variable_int(%d)=%r expected %r' % (n, got, vq))
        if r and len(res['viol']) < 20:
            short = [x if not isinstance(x, list) or len(x) < 40 else x[:8] + ['...', len(x)] for x in row]
            res['viol'].append(('meta/' + r[0], {'row': row if len(line) < 4000 else None, 'short': short}, r[1]))
    if lines and len(lines[0]) < 400:
        res['samples'].append({'row': tlaval.parse(json.loads(lines[0]))[1:]})
    return res


def replay(case):
    if case.get('kind') == 'text_values':
        v = check_text_values()
        return v and '%s: %s' % v[0]
    if case.get('kind') == 'custom_spec':
        v = check_custom_spec()
        return v and '%s: %s' % v[0]
    row = case.get('row')
    if row is None:
        return 'replay needs the full row (payload too long to store); rerun the check'
    if row[0] == 'A':
        r = check_accept(row[1], row[2], row[3])
    elif row[0] == 'P':
        r = check_probe(row[1], row[2], row[3], row[4])
    elif row[0] == 'ill':
        r = check_ill_typed(row[1], row[2], row[3])
    elif row[0] == 'big':
        r = check_big(row[1], row[2])
    else:
        return None
    return r and '%s: %s' % r


def check_big(n, vq):
    """Text of n bytes: FF 01 <vlq(n)> data, read back through a track."""
    import mido
    msg = mido.MetaMessage('text', text='x' * n)
    b = msg.bytes()
    if b[:2 + len(vq)] != [0xff, 1] + vq or len(b) != 2 + len(vq) + n:
        return 'wrong-bytes/text/len%d' % n, 'header %r expected %r' % (b[:8], [0xff, 1] + vq)
    try:
        r = through_track(b, 0)
    except Exception as e:
        return 'track-read-raises/text/len%d' % n, repr(e)
    if not (r == msg):
        return 'track-roundtrip/text/len%d' % n, 'text of %d bytes read back with %d' % (n, len(r.text))
    d = mido.MetaMessage.from_bytes(b)
    if not (d == msg):
        return 'roundtrip/text/len%d' % n, 'from_bytes gave %d chars' % len(d.text)
    return None


def record_random(rng, n):
    """V: random messages through the real codec."""
    import mido
    recs, cases = [], []
    for _ in range(n):
        t = rng.choice(['set_tempo', 'sequence_number', 'time_signature', 'smpte_offset', 'text',
                        'track_name', 'marker', 'sequencer_specific', 'unknown_meta', 'key_signature',
                        'channel_prefix'])
        if t == 'set_tempo':
            v = [rng.randrange(1 << 24)]
        elif t == 'sequence_number':
            v = [rng.randrange(1 << 16)]
        elif t == 'time_signature':
            v = [rng.randrange(256), rng.randrange(256), rng.randrange(256), rng.randrange(256)]
        elif t == 'smpte_offset':
            v = [rng.randrange(4), rng.randrange(32), rng.randrange(60), rng.randrange(60),
                 rng.randrange(256), rng.randrange(100)]
        elif t == 'key_signature':
            v = [rng.randrange(1, 31)]
        elif t == 'channel_prefix':
            v = [rng.randrange(256)]
        elif t == 'unknown_meta':
            v = [rng.choice([8, 10, 0x22, 0x50, 0x60, 0x7e])] + \
                [rng.randrange(256) for _ in range(rng.choice([0, 1, 5, 127, 128, 300]))]
        else:
            v = [rng.randrange(256) for _ in range(rng.choice([0, 1, 2, 10, 127, 128, 129, 400]))]
        rec = {'t': t, 'v': v, 'b': [], 'dt': 'error', 'dv': [], 'tt': 'error', 'tv': []}
        try:
            msg = build(t, v)
            rec['b'] = [int(x) for x in msg.bytes()]
            d = mido.MetaMessage.from_bytes(list(rec['b']))
            sv = spec_values(d)
            if sv:
                rec['dt'], rec['dv'] = sv[0], [int(x) for x in sv[1]]
            r = through_track(rec['b'], 0)
            sv = spec_values(r)
            if sv:
                rec['tt'], rec['tv'] = sv[0], [int(x) for x in sv[1]]
        except Exception as e:
            rec['dt'] = 'raised ' + type(e).__name__
        recs.append(rec)
        cases.append({'row': ['A', t, v, []]})
    return recs, cases


def check_text_values():
    """Texts are decoded with the charset in force (latin1 here), whatever else their bytes
    could be taken for."""
    import mido
    out = []
    for text in ('\xc2\xa9 2024', '\xc3\xa9', 'na\xc3\xafve', '\xe2\x82\xac', 'S\xc3\xa3o Paulo', '\xc4\xb0', 'Piano\x00', '\x00',
                 '\xff\xfe', 'a\r\nb', ' lead ', '\x7f'):
        for t, attr in (('text', 'text'), ('track_name', 'name'), ('lyrics', 'text'), ('cue_marker', 'text'), ('device_name', 'name')):
            try:
                m = mido.MetaMessage(t, **{attr: text})
                b = m.bytes()
                enc = list(text.encode('latin1'))
                d = mido.MetaMessage.from_bytes(b)
                r = through_track(b, 3)
                if list(b[3:]) != enc or not (d == m) or not (r == m.copy(time=3)) or d.type != t:
                    out.append(('text-value/' + t, '%s with text %r: bytes %r, decoded %s, read from a track %s' % (
                        t, text, b, core.srepr(d), core.srepr(r))))
                    break
            except Exception as e:
                out.append(('text-value-raises/' + t, '%s with text %r: %r' % (t, text, e)))
                break
    return out[:3]


def check_custom_spec():
    """The documented extension point (docs/meta_message_types.rst): a meta type
    registered with add_meta_spec encodes to FF <type> <len> <payload> and decodes
    back to an equal message - from bytes and from a track."""
    import mido
    from mido.midifiles.meta import MetaSpec, add_meta_spec
    from .. import smf

    class MetaSpec_vf_light(MetaSpec):
        type_byte = 0x70
        attributes = ['r', 'g', 'b']
        defaults = [0, 0, 0]

        def decode(self, message, data):
            (message.r, message.g, message.b) = data

        def encode(self, message):
            return [message.r, message.g, message.b]

        def check(self, name, value):
            if not isinstance(value, int):
                raise TypeError('%s must be an integer' % name)
            if not 0 <= value <= 255:
                raise ValueError('%s must be in range 0..255' % name)
    out = []
    try:
        add_meta_spec(MetaSpec_vf_light)
        m = mido.MetaMessage('vf_light', r=120, g=60, b=255, time=3)
        if list(m.bytes()) != [0xff, 0x70, 3, 120, 60, 255]:
            out.append(('custom-spec/bytes', 'bytes() = %r' % (list(m.bytes()),)))
        back = mido.MetaMessage.from_bytes([0xff, 0x70, 3, 120, 60, 255])
        if type(back) is not mido.MetaMessage or back != m.copy(time=0):
            out.append(('custom-spec/from_bytes', 'from_bytes gave %s' % core.srepr(back)))
        mid = mido.MidiFile()
        mid.tracks.append(mido.MidiTrack([m, mido.Message('note_on', time=1), m.copy(r=1, time=0)]))
        data = smf.save_bytes(mid)
        body = b'\x03\xff\x70\x80\x03\x78\x3c\xff\x01\x90\x00\x40\x00\xff\x70\x03\x01\x3c\xff\x00\xff\x2f\x00'
        for label, d in (('saved', data),
                         ('padded', data[:14] + b'MTrk' + len(body).to_bytes(4, 'big') + body)):
            for kw in ({}, {'clip': True}):
                t = smf.load_bytes(d, **kw).tracks[0]
                exp = [m, mido.Message('note_on', time=1), m.copy(r=1, time=0), mido.MetaMessage('end_of_track')]
                if not smf.tracks_equal([t], [exp]):
                    out.append(('custom-spec/track-read/' + label, 'track loaded as %s' % core.srepr(list(t))))
        for bad in (300, -1, 1.5):
            try:
                m.copy(r=bad)
                out.append(('custom-spec/check-not-called', 'copy(r=%r) accepted' % (bad,)))
            except (ValueError, TypeError):
                pass
        unk = mido.MetaMessage.from_bytes([0xff, 0x71, 1, 5])
        if type(unk).__name__ != 'UnknownMetaMessage':
            out.append(('custom-spec/unregistered', 'type byte 0x71 decoded as %s' % core.srepr(unk)))
    except Exception as e:
        out.append(('custom-spec/raises/%s' % type(e).__name__, repr(e)))
    return out[:3]


def run(ctx):
    thorough = ctx.tier == 'thorough'
    cfg = """SPECIFICATION Spec
CONSTANTS
 SeqNums <- %s
 ByteVals <- %s
 Exponents <- FullExp
 TextLens = %s
INVARIANT RoundTripInv
INVARIANT VlqInv
INVARIANT Emit
CHECK_DEADLOCK FALSE
""" % (('FullSeq', 'FullByte', '{0, 1, 127, 128, 129, 16383, 16384}') if thorough else
       ('QuickSeq', 'QuickByte', '{0, 1, 127, 128, 129}'))
    pr = core.ParallelReplay(ctx, worker, batch_size=300)
    vlq = {}

    def on_emit(line):
        if line.startswith('"<<\\"EMIT\\", \\"V\\"'):
            row = tlaval.parse(json.loads(line))[1:]
            vlq[row[1]] = row[2]
        pr.push(line)
    res = core.run_tlc('MetaCheck', cfg, on_emit=on_emit, raw_ints=True, timeout=3000, heap='16g')
    n = pr.finish()
    ctx.add_tlc(res, 'MetaCheck domains')
    if n != res.distinct:
        raise core.Machinery('replayed %d rows, TLC found %d states' % (n, res.distinct))
    # ill-typed and structurally invalid values (driver-level constants)
    for t, attr, xs in ILL_TYPED:
        for x in xs:
            r = check_ill_typed(t, attr, x)
            ctx.replayed += 1
            if r:
                ctx.violation('meta/' + r[0], {'row': ['ill', t, attr, x]}, r[1])
    # the same text under different charsets in one process (payload = text.encode(charset))
    from mido.midifiles.meta import meta_charset
    for text, charsets in (('caf\xe9', ['latin1', 'utf-8', 'cp1252', 'latin1']), ('日本', ['utf-8', 'shift_jis', 'utf-8'])):
        for cs in charsets:
            ctx.replayed += 1
            try:
                with meta_charset(cs):
                    msg = __import__('mido').MetaMessage('marker', text=text)
                    b = msg.bytes()
                    back = __import__('mido').MetaMessage.from_bytes(list(b))
                pay = list(text.encode(cs))
                if list(b)[:2] != [0xff, 6] or list(b)[-len(pay):] != pay or not (back == msg):
                    ctx.violation('meta/charset-payload/%s' % cs, {'row': ['cs', text, cs]},
                                  'marker %r under charset %s encodes to %r, decodes to %r' % (text, cs, list(b), back))
            except Exception as e:
                ctx.violation('meta/charset-payload/%s' % cs, {'row': ['cs', text, cs]},
                              'marker %r under charset %s raised %r' % (text, cs, e))
    # payloads up to the reader's one-million-byte limit
    for nbytes in ([999999, 1000000] if thorough else [1000000]):
        r = check_big(nbytes, vlq[nbytes])
        ctx.replayed += 1
        if r:
            ctx.violation('meta/' + r[0], {'row': ['big', nbytes, vlq[nbytes]]}, r[1])
    # V
    rng = random.Random(ctx.seed + 9)
    recs, cases = record_random(rng, 3000 if thorough else 600)
    work = core.scratch('trace')
    path = os.path.join(work, 'meta.json')
    with open(path, 'w') as f:
        json.dump(recs, f)
    rejected = []

    def on_print(val):
        if isinstance(val, list) and val and val[0] == 'REJECTED':
            rejected.append(val[1])
    res = core.run_tlc('MetaTrace', "SPECIFICATION Spec\nINVARIANT Judge\nCHECK_DEADLOCK FALSE\n",
                       on_print=on_print, env={'TRACE_FILE': path})
    ctx.add_tlc(res, 'MetaTrace random messages')
    ctx.validated += len(recs)
    for i in rejected:
        rec = recs[i - 1]
        ctx.violation('meta/trace/%s' % sig(rec['t'], rec['v']), cases[i - 1],
                      'real codec trace rejected by MetaWire: %s %r -> bytes %r -> %s %r / track %s %r' % (
                          rec['t'], rec['v'][:8], rec['b'][:12], rec['dt'], rec['dv'][:8], rec['tt'], rec['tv'][:8]))
    ctx.exhaustive = thorough
    ctx.constants = {'cfg': cfg.split('\n')[2:6]}
    ctx.assumptions += [
        'text is modelled as the byte sequence of its encoding; the driver instantiates it with latin1 (the default charset), C17 covers other charsets',
        'sequencer_specific data is given as list, tuple, bytes, bytearray, generator, iterator or map object in turn',
        'values of the wrong type are driver-level constants, the specification only states that they are outside every domain',
    ]
    for key, msg in check_text_values():
        ctx.violation('meta/' + key, {'kind': 'text_values'}, msg)
    ctx.replayed += 60
    for key, msg in check_custom_spec():
        ctx.violation('meta/' + key, {'kind': 'custom_spec'}, msg)
    ctx.replayed += 1
    # re-entrancy: two threads inside these functions at once, a switch possible before every statement
    from .. import conc
    conc.run_scenarios(ctx, 'C09', 2 if ctx.tier == 'thorough' else 1)
    conc.first_use(ctx, 'C09', 120 if ctx.tier == 'thorough' else 40)
