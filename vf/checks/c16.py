"""C16 - a MidiFile always reflects its current contents.

Spec : MidiFileObj: edits and observations of one MidiFile; the property
       ObservationIsFunctionOfContents is a state predicate.  With
       Memo = "stale" (the original caching rule) TLC produces the shortest
       history that shows old contents; with Memo = "none" the invariant holds.
G    : every history of MaxOps operations ending in an observation (Memo =
       "none") is replayed on ONE real MidiFile object; after every step the
       live contents are compared with the specification's, and every
       observation (iterate, length, merged_track, play, save) is compared
       with the specification value and with the same observation on a
       freshly built MidiFile with identical contents.
"""
from .. import core, smf
from . import c13

OPS = {1: 'add_track', 2: 'tracks_append', 3: 'tracks_remove', 4: 'msg_append', 5: 'msg_insert',
       6: 'msg_delete', 7: 'msg_time', 8: 'set_tpb', 9: 'set_type', 10: 'iterate', 11: 'length',
       12: 'merged_track', 13: 'save', 14: 'play', 15: 'msg_attr', 16: 'msg_replace', 17: 'msg_swap', 18: 'track_slice', 19: 'track_name', 20: 'track_double', 21: 'iter_nested', 22: 'flatten', 23: 'tracks_reverse'}
ALL_OPS = '{"add_track", "tracks_append", "tracks_remove", "msg_append", "msg_insert", "msg_delete", "msg_time", "msg_attr", "msg_replace", "msg_swap", "track_slice", "track_name", "track_double", "flatten", "tracks_reverse", "set_tpb", "set_type", "iterate", "length", "merged_track", "play", "iter_nested", "save"}'


def cfg(maxops, memo, opset, emit=True):
    return """SPECIFICATION Spec
CONSTANTS
 MaxOps = %d
 Memo = "%s"
 OpSet = %s
INVARIANT ObservationIsFunctionOfContents
%sCHECK_DEADLOCK FALSE
""" % (maxops, memo, opset, 'INVARIANT Emit\n' if emit else '')


def mk(dt, ident):
    import mido
    if ident == 0:
        return mido.MetaMessage('end_of_track', time=dt)
    if ident == 200:
        return mido.MetaMessage('track_name', name='a name', time=dt)
    if ident % 3 == 0:
        return mido.MetaMessage('set_tempo', tempo=250000 + ident, time=dt)
    return mido.Message('note_on', channel=ident // 128, note=ident % 128, time=dt)


def ident_of(m):
    if m.type == 'end_of_track':
        return 0
    if m.type == 'track_name':
        return 200
    if m.type == 'set_tempo':
        return m.tempo - 250000
    if m.type == 'note_on':
        return m.note + 128 * m.channel
    return -1


def parse_row(ints):
    n = ints[0]
    p = 1
    hist = []
    for _ in range(n):
        op, a, b, c, ftype, tpb = ints[p:p + 6]
        p += 6
        nt = ints[p]
        p += 1
        tracks = []
        for _ in range(nt):
            k = ints[p]
            p += 1
            tracks.append([(ints[p + 2 * i], ints[p + 2 * i + 1]) for i in range(k)])
            p += 2 * k
        k = ints[p]
        p += 1
        seen = [(ints[p + 2 * i], ints[p + 2 * i + 1]) for i in range(k)]
        p += 2 * k
        hist.append((OPS[op], a, b, c, ftype, tpb, tracks, seen))
    return hist


def fresh(ftype, tpb, tracks, frozen=False):
    import mido
    from mido.frozen import freeze_message
    mid = mido.MidiFile(type=ftype, ticks_per_beat=tpb)
    for tr in tracks:
        mid.tracks.append(mido.MidiTrack((freeze_message(mk(dt, i)) if frozen else mk(dt, i)) for dt, i in tr))
    return mid


def observe(mid, op):
    """-> comparable value or ('raises', class name)."""
    import mido.midifiles.midifiles as mm
    try:
        if op == 'iterate':
            return [(ident_of(m), m.time, type(m).__name__) for m in mid]
        if op == 'iter_nested':
            # another observation is made while this iteration is suspended
            out = []
            for k, m in enumerate(mid):
                out.append((ident_of(m), m.time, type(m).__name__))
                if k == 0:
                    mid.length
            return out
        if op == 'length':
            return mid.length
        if op == 'merged_track':
            return [(ident_of(m), m.time) for m in mid.merged_track]
        if op == 'save':
            return smf.save_bytes(mid)
        if op == 'play':
            from fractions import Fraction
            ft = c13.FakeTime(Fraction(1, 1000))
            saved = mm.time
            mm.time = ft
            try:
                out = []
                for m in mid.play(meta_messages=True, now=ft.time):
                    out.append((ident_of(m), round(float(ft.now), 9)))
                out.append('without meta messages')
                t0 = ft.now
                for m in mid.play(now=ft.time):
                    out.append((ident_of(m), round(float(ft.now - t0), 9)))
                return out
            finally:
                mm.time = saved
    except Exception as e:
        return ('raises', type(e).__name__)


def nested_play(mid):
    """play() during which the length is read after the first yielded message."""
    import mido.midifiles.midifiles as mm
    from fractions import Fraction
    ft = c13.FakeTime(Fraction(1, 1000))
    saved = mm.time
    mm.time = ft
    try:
        out = []
        for k, m in enumerate(mid.play(meta_messages=True, now=ft.time)):
            out.append((ident_of(m), round(float(ft.now), 9)))
            if k == 0:
                mid.length
        out.append('without meta messages')
        t0 = ft.now
        for k, m in enumerate(mid.play(now=ft.time)):
            out.append((ident_of(m), round(float(ft.now - t0), 9)))
            if k == 0:
                mid.length
        return out
    finally:
        mm.time = saved


def check_edit_during_pass():
    """A pass (iteration, play) is suspended, the file is edited, the pass is resumed.  The
    property does not say which contents such a pass sees - those at its start or those at the
    time of the edit - but it is the pass over ONE of them: no message twice, none skipped."""
    import mido
    out = []
    tracks = [[(1, 11), (1, 12), (1, 13), (1, 14), (1, 15)], [(3, 21)]]
    for label, edit in (('delete-before-cursor', lambda mid: mid.tracks[0].__delitem__(0)),
                        ('insert-before-cursor', lambda mid: mid.tracks[0].insert(0, mk(1, 16))),
                        ('delete-after-cursor', lambda mid: mid.tracks[0].__delitem__(3)),
                        ('append', lambda mid: mid.tracks[0].append(mk(1, 17))),
                        ('attribute-after-cursor', lambda mid: setattr(mid.tracks[0][3], 'time', 5)),
                        ('remove-track', lambda mid: mid.tracks.__delitem__(1))):
        for how in ('iterate', 'play'):
            try:
                mid = fresh(1, 480, tracks)
                before = observe(fresh(1, 480, tracks), how)
                if how == 'iterate':
                    it = iter(mid)
                    got = [next(it), next(it)]
                    edit(mid)
                    got += list(it)
                    got = [(ident_of(m), m.time, type(m).__name__) for m in got]
                    after = observe(mid, 'iterate')
                else:
                    import mido.midifiles.midifiles as mm
                    from fractions import Fraction
                    ft = c13.FakeTime(Fraction(1, 1000))
                    saved = mm.time
                    mm.time = ft
                    try:
                        got = []
                        for k, m in enumerate(mid.play(meta_messages=True, now=ft.time)):
                            got.append((ident_of(m), round(float(ft.now), 9)))
                            if k == 1:
                                edit(mid)
                    finally:
                        mm.time = saved
                    after = observe_play_meta(mid)
                    before = observe_play_meta(fresh(1, 480, tracks))
            except Exception as e:
                out.append(('edit-during-pass/%s/%s/raises' % (how, label), repr(e)))
                continue
            if got != before and got != after:
                out.append(('edit-during-pass/%s/%s' % (how, label),
                            'a %s suspended after two messages and resumed after the edit gave %s; the pass over the contents '
                            'before the edit is %s, after it %s' % (how, _short(got), _short(before), _short(after))))
    return out[:3]


def observe_play_meta(mid):
    import mido.midifiles.midifiles as mm
    from fractions import Fraction
    ft = c13.FakeTime(Fraction(1, 1000))
    saved = mm.time
    mm.time = ft
    try:
        return [(ident_of(m), round(float(ft.now), 9)) for m in mid.play(meta_messages=True, now=ft.time)]
    finally:
        mm.time = saved


def replay_history(hist):
    import mido
    # the user hands its own (still empty) list of tracks to the constructor and goes on editing
    # through it (only assigning a new list to mid.tracks makes that reference stale)
    # in histories that never assign to a message, every second one builds its tracks from FROZEN
    # messages: what a file shows is a function of its contents, whatever class carries them - and
    # observing it must leave those (immutable) messages exactly as they were
    from mido.frozen import freeze_message
    frozen = len(hist) % 4 < 2 and not any(h[0] in ('msg_time', 'msg_attr', 'msg_swap', 'track_name') for h in hist)

    def mk_(dt, ident):
        return freeze_message(mk(dt, ident)) if frozen else mk(dt, ident)
    held = []
    mid = mido.MidiFile(type=1, ticks_per_beat=480, tracks=held)
    if len(hist) % 2:
        held = mid.tracks              # (every other history fetches the list from the file instead)
    for n, (op, a, b, c, ftype, tpb, tracks, seen) in enumerate(hist):
        try:
            if op == 'add_track':
                mid.add_track()
            elif op == 'tracks_append':
                held.append(mido.MidiTrack([mk_(a, b)]))
            elif op == 'tracks_remove':
                del held[a - 1]
            elif op == 'msg_append':
                # the three spellings of "add a message to this track"
                t_ = held[a - 1]
                if (b + c) % 3 == 0:
                    t_.append(mk_(b, c))
                elif (b + c) % 3 == 1:
                    t_ += [mk_(b, c)]            # in place: the file's own track grows
                else:
                    t_.extend(x for x in [mk_(b, c)])
            elif op == 'msg_insert':
                mid.tracks[a - 1].insert(0, mk_(b, c))
            elif op == 'msg_delete':
                del mid.tracks[a - 1][b - 1]
            elif op == 'msg_time':
                mid.tracks[a - 1][b - 1].time = c
            elif op == 'msg_attr':
                m = mid.tracks[a - 1][b - 1]
                if m.type == 'set_tempo':
                    m.tempo = 250000 + c
                else:
                    m.note, m.channel = c % 128, c // 128
            elif op == 'msg_replace':
                mid.tracks[a - 1][b - 1] = mk_(mid.tracks[a - 1][b - 1].time, c)
            elif op == 'tracks_reverse':
                mid.tracks = list(reversed(mid.tracks))
                held = mid.tracks
            elif op == 'flatten':
                held[:] = [mid.merged_track]
            elif op == 'track_double':
                held[a - 1] = held[a - 1] * 2
            elif op == 'track_slice':
                mid.tracks[a - 1] = mid.tracks[a - 1][1:]
                if type(mid.tracks[a - 1]) is not mido.MidiTrack:
                    return 'slice-type', 'step %d: a slice of a MidiTrack is a %s' % (n, type(mid.tracks[a - 1]).__name__)
            elif op == 'track_name':
                mid.tracks[a - 1].name = 'a name'
                if mid.tracks[a - 1].name == '':
                    return 'track-name', 'step %d: name not set' % n
            elif op == 'msg_swap':
                x, y = mid.tracks[a - 1][b - 1], mid.tracks[a - 1][b]
                x.time, y.time = y.time, x.time
            elif op == 'set_tpb':
                mid.ticks_per_beat = a
            elif op == 'set_type':
                mid.type = a
        except Exception as e:
            return 'edit-raises/' + op, 'step %d (%s): %r (history %s)' % (n, op, e, ' '.join(h[0] for h in hist[:n + 1]))
        # the live contents are what the specification says they are
        live = [[(m.time, ident_of(m)) for m in t] for t in mid.tracks]
        if live != tracks or mid.type != ftype or mid.ticks_per_beat != tpb:
            key = 'observation-changed-contents/' + op if op in ('iterate', 'length', 'merged_track', 'save', 'play', 'iter_nested') \
                else 'edit-effect/' + op
            return key, 'step %d (%s): live contents %r, specification %r' % (n, op, live, tracks)
        if op in ('iterate', 'length', 'merged_track', 'save', 'play', 'iter_nested'):
            if op == 'save':
                # an attempt to save that fails half-way (a delta time that cannot be stored in the
                # LAST message) and is repaired must leave nothing behind on the object
                last = [t[-1] for t in mid.tracks if len(t)]
                if last and not frozen:
                    old = last[-1].time
                    last[-1].time = 0.5
                    try:
                        smf.save_bytes(mid)
                    except Exception:
                        pass
                    finally:
                        last[-1].time = old
            got = observe(mid, op)
            ref = observe(fresh(ftype, tpb, tracks, frozen), 'iterate' if op == 'iter_nested' else op)
            if got != ref:
                ops = [h[0] for h in hist[:n + 1]]
                return ('stale/' + op, 'step %d: %s gave %r, a fresh file with the same contents gives %r (history %s)' % (
                    n, op, _short(got), _short(ref), ' '.join(ops)))
            if op in ('iterate', 'merged_track', 'iter_nested') and ftype != 2:
                ids = [x[0] for x in got]
                if ids != [i for dt, i in seen]:
                    return 'order/' + op, 'step %d: %s ids %r, specification %r' % (n, op, ids, seen)
                if op == 'merged_track' and [(x[1], x[0]) for x in got] != seen:
                    return 'merged/' + op, 'step %d: merged_track %r, specification %r' % (n, got, seen)
            if ftype == 2 and op in ('iterate', 'length', 'merged_track', 'play', 'iter_nested') and \
                    not (isinstance(got, tuple) and got[0] == 'raises'):
                return 'type2/' + op, 'step %d: %s on a type 2 file did not raise' % (n, op)
    return None


def _short(x):
    s = repr(x)
    return s if len(s) < 200 else s[:200] + '...'


def worker(lines):
    res = {'n': 0, 'viol': [], 'samples': [], 'counts': {'observations': 0}}
    for line in lines:
        hist = parse_row(core.ints_of(line))
        res['n'] += 1
        res['counts']['observations'] += sum(1 for h in hist if h[0] in ('iterate', 'length', 'merged_track', 'save', 'play', 'iter_nested'))
        r = replay_history(hist)
        if r and len(res['viol']) < 10:
            res['viol'].append(('fileobj/' + r[0], {'hist': hist}, r[1]))
    if lines:
        res['samples'].append({'history': [[h[0], h[1], h[2], h[3]] for h in hist]})
    return res


def replay(case):
    if case.get('edit_during_pass'):
        v = check_edit_during_pass()
        return v and '%s: %s' % v[0]
    if 'fixed' in case:
        tracks = [[tuple(x) for x in t] for t in case['fixed']]
        for op in ('iter_nested', 'play'):
            mid = fresh(1, 480, tracks)
            got = observe(mid, op) if op != 'play' else nested_play(mid)
            ref = observe(fresh(1, 480, tracks), 'iterate' if op == 'iter_nested' else op)
            if got != ref:
                return '%s interleaved with another observation differs from a fresh file' % op
        return None
    hist = [(h[0], h[1], h[2], h[3], h[4], h[5], [[tuple(x) for x in t] for t in h[6]],
             [tuple(x) for x in h[7]]) for h in case['hist']]
    r = replay_history(hist)
    return r and '%s: %s' % r


def run(ctx):
    thorough = ctx.tier == 'thorough'
    # design level: the original caching rule violates the property, the repaired one does not
    res = core.run_tlc('MidiFileObj', cfg(4, 'stale', ALL_OPS, emit=False), expect_error=True, timeout=600)
    ctx.add_tlc(res, 'MidiFileObj Memo=stale (expected to violate the invariant)')
    if res.ok or 'ObservationIsFunctionOfContents' not in (res.error or ''):
        raise core.Machinery('the stale-memo design should violate ObservationIsFunctionOfContents: %r' % res.error)
    ctx.note('stale_memo_counterexample_found', 1)
    plans = [(5, ALL_OPS)] if thorough else [(4, ALL_OPS)]
    if thorough:
        plans.append((6, '{"tracks_append", "msg_append", "msg_time", "msg_attr", "msg_delete", "iterate", "length", "save"}'))
    for maxops, opset in plans:
        pr = core.ParallelReplay(ctx, worker, batch_size=500)
        res = core.run_tlc('MidiFileObj', cfg(maxops, 'none', opset), on_emit=pr.push, raw_ints=True,
                           timeout=3400, heap='16g')
        pr.finish()
        ctx.add_tlc(res, 'MidiFileObj Memo=none ops=%d' % maxops)
    # tempo maps (two set_tempo values, the first after tick 0) observed while another
    # observation of the same file is suspended
    for tracks in ([[(0, 12), (480, 11), (0, 15), (480, 13), (0, 0)]],
                   [[(240, 12), (240, 11), (240, 18), (240, 14)], [(100, 13), (700, 16)]],
                   [[(0, 11), (480, 12), (480, 13)]]):
        hist = [('iter_nested', 0, 0, 0, 1, 480, tracks, [])]
        mid = fresh(1, 480, tracks)
        for op in ('iter_nested', 'play', 'iterate'):
            got = observe(mid, op) if op != 'play' else nested_play(mid)
            ref = observe(fresh(1, 480, tracks), 'iterate' if op == 'iter_nested' else op)
            ctx.replayed += 1
            if got != ref:
                ctx.violation('fileobj/stale/%s-during-other-observation' % op, {'fixed': tracks},
                              '%s interleaved with another observation gave %s, a fresh file gives %s' % (
                                  op, _short(got), _short(ref)))
    for key, msg in check_edit_during_pass():
        ctx.violation('fileobj/' + key, {'edit_during_pass': True}, msg)
    ctx.replayed += 12
    ctx.exhaustive = True
    ctx.constants = {'plans': plans}
    ctx.assumptions += ['observations are compared with a freshly built MidiFile of identical contents and with the specification value (merge order)',
                        'play() is observed on a virtual clock, with and without meta messages']
