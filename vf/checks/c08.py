"""C08 - file bytes conform to the Standard MIDI File format in both directions.

Write direction (V): the real save() is run on the files TLC enumerates in
   SmfFiles and on random larger files; the bytes it writes are logged with
   the in-memory contents and TLC validates them with the independent
   reference decoder SmfWire.RefRead (exact chunk lengths, minimal VLQs,
   running status only where legal, F0 <len> data F7, FF 2F 00 last), which
   must return exactly the normal form of the in-memory file.
Read direction (G): SmfEnc: TLC enumerates every legal encoding of every
   event list (running status used or not at each legal opportunity, padded
   VLQs, longer header chunk), checks on the specification that the reference
   decoder returns the event list, and emits (events, bytes); each encoding is
   loaded by the real MidiFile with clip on/off and debug on/off.  Corrupted
   encodings (one data byte > 127) must raise without clip and load with that
   byte equal to 127 with clip.
"""
from .. import core, smf
from . import c07


def enc_cfg(kinds, deltas, maxev, maxpad):
    return """SPECIFICATION Spec
CONSTANTS
 KindSet = %s
 DeltaSet = %s
 MaxEv = %d
 MaxPad = %d
INVARIANT LegalDecodes
INVARIANT CorruptRejected
INVARIANT Emit
CHECK_DEADLOCK FALSE
""" % (kinds, deltas, maxev, maxpad)


def sig(evs):
    ks = sorted({e[1] for e in evs})
    return '+'.join(ks)


def check_legal(evs, data, variant):
    """Every legal encoding loads to exactly the event list."""
    combos = [(False, False), (True, False), (False, True), (True, True)]
    for clip, debug in (combos if variant % 3 == 0 else [combos[variant % 4]]):
        try:
            if debug:
                mid, out = smf.quiet_load(data, clip=clip, debug=True)
            else:
                mid = smf.load_bytes(data, clip=clip)
        except Exception as e:
            return ('rejects-legal/clip=%s/debug=%s/%s' % (clip, debug, sig(evs)),
                    'loading raised %r' % (e,))
        if len(mid.tracks) != 1 or mid.type != 1 or mid.ticks_per_beat != 480:
            return 'header', 'type %r tpb %r tracks %d' % (mid.type, mid.ticks_per_beat, len(mid.tracks))
        got = smf.abstract_track(mid.tracks[0])
        if got != evs:
            return ('wrong-events/clip=%s/debug=%s/%s' % (clip, debug, sig(evs)),
                    'loaded %r expected %r' % (got, evs))
    return None


def check_corrupt(clipped_evs, data):
    """A data byte > 127: error without clip; with clip it reads as 127."""
    try:
        smf.load_bytes(data, clip=False)
    except Exception:
        pass
    else:
        return 'accepts-data-byte>127/' + sig(clipped_evs), 'loaded without clip'
    for debug in (False, True):
        try:
            mid = smf.quiet_load(data, clip=True, debug=True)[0] if debug else smf.load_bytes(data, clip=True)
        except Exception as e:
            return 'clip-raises/' + sig(clipped_evs), 'clip=True raised %r' % (e,)
        got = smf.abstract_track(mid.tracks[0])
        if got != clipped_evs:
            return 'clip-changes-more/' + sig(clipped_evs), 'clip=True loaded %r expected %r' % (got, clipped_evs)
    return None


def check_header_words():
    """The three 16-bit header words in both directions: format 0..2, track counts, and
    every kind of division - ticks per beat 1..32767 and the SMPTE form (bit 15 set),
    which mido holds as a negative ticks_per_beat."""
    import mido
    out = []
    for tpb in (1, 2, 96, 480, 0x7fff, -6360, -1, -0x8000, -7424 + 40):
        for ftype, ntracks in ((0, 1), (1, 0), (1, 3), (2, 2)):
            word = tpb & 0xffff
            data = (b'MThd' + (6).to_bytes(4, 'big') + ftype.to_bytes(2, 'big') + ntracks.to_bytes(2, 'big') +
                    word.to_bytes(2, 'big') + b'MTrk\x00\x00\x00\x04\x00\xff\x2f\x00' * ntracks)
            for kw in ({}, {'clip': True}):
                try:
                    mid = smf.load_bytes(data, **kw)
                except Exception as e:
                    out.append(('rejects-legal/header', {'kind': 'header'},
                                'header type %d, %d tracks, division %04X: load raised %r' % (ftype, ntracks, word, e)))
                    break
                if (mid.type, len(mid.tracks), mid.ticks_per_beat) != (ftype, ntracks, tpb):
                    out.append(('wrong-header', {'kind': 'header'},
                                'division word %04X (type %d, %d tracks) loaded as type %r, %d tracks, ticks_per_beat %r' % (
                                    word, ftype, ntracks, mid.type, len(mid.tracks), mid.ticks_per_beat)))
                    break
                try:
                    again = smf.save_bytes(mid)
                except Exception as e:
                    out.append(('smfwrite/save-raises/header', {'kind': 'header'},
                                'a file loaded with division word %04X cannot be saved: %r' % (word, e)))
                    break
                if again[:14] != data[:14]:
                    out.append(('smfwrite/header-bytes', {'kind': 'header'},
                                'header written as %r, loaded from %r' % (again[:14], data[:14])))
                    break
    return out[:3]


META_EVENTS = [
    # (constructor arguments, the event bytes after the delta time) - written out by hand from the SMF specification
    (('sequence_number', {'number': 258}), [0xff, 0x00, 2, 1, 2]),
    (('text', {'text': 'ab'}), [0xff, 0x01, 2, 0x61, 0x62]),
    (('copyright', {'text': 'c'}), [0xff, 0x02, 1, 0x63]),
    (('track_name', {'name': 'n'}), [0xff, 0x03, 1, 0x6e]),
    (('instrument_name', {'name': 'i'}), [0xff, 0x04, 1, 0x69]),
    (('lyrics', {'text': 'l'}), [0xff, 0x05, 1, 0x6c]),
    (('marker', {'text': 'm'}), [0xff, 0x06, 1, 0x6d]),
    (('cue_marker', {'text': 'q'}), [0xff, 0x07, 1, 0x71]),
    (('device_name', {'name': 'd'}), [0xff, 0x09, 1, 0x64]),
    (('channel_prefix', {'channel': 5}), [0xff, 0x20, 1, 5]),
    (('midi_port', {'port': 3}), [0xff, 0x21, 1, 3]),
    (('set_tempo', {'tempo': 0x07a120}), [0xff, 0x51, 3, 0x07, 0xa1, 0x20]),
    (('smpte_offset', {'frame_rate': 24, 'hours': 1, 'minutes': 2, 'seconds': 3, 'frames': 4, 'sub_frames': 5}),
     [0xff, 0x54, 5, 1, 2, 3, 4, 5]),
    (('smpte_offset', {'frame_rate': 30, 'hours': 23, 'minutes': 59, 'seconds': 59, 'frames': 29, 'sub_frames': 99}),
     [0xff, 0x54, 5, 0x60 | 23, 59, 59, 29, 99]),
    (('time_signature', {'numerator': 6, 'denominator': 8, 'clocks_per_click': 36, 'notated_32nd_notes_per_beat': 8}),
     [0xff, 0x58, 4, 6, 3, 36, 8]),
    (('key_signature', {'key': 'F#m'}), [0xff, 0x59, 2, 3, 1]),
    (('key_signature', {'key': 'Cb'}), [0xff, 0x59, 2, 0xf9, 0]),
    (('sequencer_specific', {'data': (0x41, 0xff, 0)}), [0xff, 0x7f, 3, 0x41, 0xff, 0]),
]


def check_meta_events_in_files():
    """Every built-in meta event type inside a track, in both directions, against bytes written
    out by hand."""
    import mido
    out = []
    for (t, kw), ev in META_EVENTS:
        try:
            msg = mido.MetaMessage(t, time=3, **kw)
            mid = mido.MidiFile(type=1, ticks_per_beat=96)
            mid.tracks.append(mido.MidiTrack([msg]))
            data = smf.save_bytes(mid)
            body = bytes([3] + ev + [0, 0xff, 0x2f, 0])
            want = (b'MThd' + (6).to_bytes(4, 'big') + b'\x00\x01\x00\x01\x00\x60' + b'MTrk' + len(body).to_bytes(4, 'big') + body)
            if data != want:
                out.append(('smfwrite/meta-event/' + t, {'kind': 'metaevents'}, '%s written as %r expected %r' % (t, list(data[22:]), list(body))))
                continue
            for kwl in ({}, {'clip': True}):
                back = smf.load_bytes(want, **kwl)
                if not smf.tracks_equal(back.tracks, [[msg, mido.MetaMessage('end_of_track')]]):
                    out.append(('smfread/meta-event/' + t, {'kind': 'metaevents'}, '%r loaded as %s' % (list(body), core.srepr(list(back.tracks[0])))))
                    break
        except Exception as e:
            out.append(('smfread/meta-event-raises/' + t, {'kind': 'metaevents'}, '%s %r: %r' % (t, kw, e)))
    return out[:3]


def worker(lines):
    res = {'n': 0, 'viol': [], 'samples': [], 'counts': {'legal': 0, 'corrupt': 0, 'with_running_status': 0,
                                                           'with_padding': 0}}
    for line in lines:
        ints = core.ints_of(line)
        mode, n = ints[0], ints[1]
        evs, p = smf.parse_evflat(ints, 2, n)
        data = ints[p + 1:p + 1 + ints[p]]
        res['n'] += 1
        if mode == 1:
            res['counts']['legal'] += 1
            r = check_legal(evs, data, sum(data))
        else:
            res['counts']['corrupt'] += 1
            r = check_corrupt(evs, data)
        if r and len(res['viol']) < 10:
            res['viol'].append(('smfread/' + r[0], {'kind': 'enc', 'mode': mode, 'evs': evs, 'data': data},
                                r[1] + ' (bytes %r)' % (data[14:],)))
    if lines:
        res['samples'].append({'events': evs, 'track_bytes': data[22:]})
    return res


def write_worker(lines):
    """SmfFiles rows: run the real save() and log (contents, bytes)."""
    out = {'n': 0, 'viol': [], 'samples': [], 'counts': {}, 'recs': []}
    for line in lines:
        ints = core.ints_of(line)
        if ints[0] != 1:
            continue
        ftype, tpb, storable, tracks, norm, canon = c07.parse_file_row(ints)
        if not storable:
            # a save that fails must not influence what later saves write
            try:
                smf.save_bytes(c07.build_file(ftype, tpb, tracks))
            except Exception:
                pass
            continue
        mid = c07.build_file(ftype, tpb, tracks)
        try:
            data = smf.save_bytes(mid)
        except Exception as e:
            out['viol'].append(('smfwrite/save-raises', {'kind': 'file', 'row': [ftype, tpb, storable, tracks, norm, canon]},
                                'save raised %r' % (e,)))
            continue
        # the immutable twins of the messages are written byte for byte like the messages, also
        # after a caller has overwritten the lists their bytes() returned
        try:
            from mido.frozen import freeze_message
            fz = c07.mido_file_with(ftype, tpb, [[freeze_message(m) for m in t] for t in mid.tracks])
            for t in fz.tracks:
                for m in t:
                    core.scribble(m.bytes())
            if smf.save_bytes(fz) != data:
                out['viol'].append(('smfwrite/frozen-written-differently', {'kind': 'file', 'row': [ftype, tpb, storable, tracks, norm, canon]},
                                    'the same file holding frozen messages is written as other bytes'))
        except Exception as e:
            out['viol'].append(('smfwrite/frozen-save-raises', {'kind': 'file', 'row': [ftype, tpb, storable, tracks, norm, canon]}, repr(e)))
        out['n'] += 1
        out['recs'].append({'type': ftype, 'tpb': tpb, 'tracks': [smf.abstract_track(t) for t in mid.tracks],
                            'bytes': list(data), 'src': [ftype, tpb, tracks]})
    return out


class Collect(core.ParallelReplay):
    def __init__(self, *a, **k):
        core.ParallelReplay.__init__(self, *a, **k)
        self.recs = []

    def _collect(self, ar):
        r = ar.get(timeout=3600)
        self.recs.extend(r.pop('recs', []))
        self.n += r.get('n', 0)
        for key, case, msg in r.get('viol', []):
            self.ctx.violation(key, case, msg)


def replay(case):
    if case['kind'] == 'metaevents':
        v = check_meta_events_in_files()
        return v and v[0][2]
    if case['kind'] == 'header':
        v = check_header_words()
        return v and v[0][2]
    if case['kind'] == 'custom_spec':
        from . import c09
        v = c09.check_custom_spec()
        return v and '%s: %s' % v[0]
    if case['kind'] == 'enc':
        if case['mode'] == 1:
            r = check_legal(case['evs'], case['data'], 0)
        else:
            r = check_corrupt(case['evs'], case['data'])
        return r and '%s: %s' % r
    if case['kind'] == 'written':
        ftype, tpb, tracks = case['src']
        mid = c07.build_file(ftype, tpb, [[tuple(x) for x in t] for t in tracks])
        data = smf.save_bytes(mid)
        rec = {'type': ftype, 'tpb': tpb, 'tracks': [smf.abstract_track(t) for t in mid.tracks], 'bytes': list(data)}
        ctx = core.Ctx('C08', 'quick', 0)
        rej = c07.validate_records(ctx, [rec])
        return rej and 'bytes written by save() rejected by the reference decoder: %s' % rej[0][1]
    return c07.replay(case)


def run(ctx):
    thorough = ctx.tier == 'thorough'
    # ---- read direction
    pr = core.ParallelReplay(ctx, worker, batch_size=1000)
    if thorough:
        plans = [('{1,2,3,4,6,8,9,10,11,12,13,15,16}', '{0,128}', 2, 2), ('{1,2,4,8,10,11,13}', '{0,128}', 3, 1)]
    else:
        plans = [('{1,2,3,4,6,8,9,10,11,12,13,15,16}', '{0,128}', 2, 1)]
    for kinds, deltas, me, mp in plans:
        res = core.run_tlc('SmfEnc', enc_cfg(kinds, deltas, me, mp), on_emit=pr.push, raw_ints=True,
                           timeout=3400, heap='16g')
        ctx.add_tlc(res, 'SmfEnc kinds %s events<=%d pad<=%d' % (kinds, me, mp))
    n = pr.finish()
    ctx.note('encodings_loaded', n)
    # ---- write direction: real save() on the enumerated files, validated by TLC
    col = Collect(ctx, write_worker, batch_size=500)
    kinds = '{1,2,3,4,5,6,7,8,9,10,11,12,13,14,15,16}' if thorough else '{1,2,3,4,6,7,8,9,10,11,12,13,14,15,16}'
    res = core.run_tlc('SmfFiles', c07.cfg(kinds, '{0,1,128}', 3 if thorough else 2, False),
                       on_emit=col.push, raw_ints=True, timeout=3000, heap='16g')
    col.finish()
    ctx.add_tlc(res, 'SmfFiles (inputs for the write direction)')
    recs = col.recs
    for part in core.chunks(recs, 4000):
        clean = [{k: v for k, v in r.items() if k != 'src'} for r in part]
        for i, why in c07.validate_records(ctx, clean, 'SmfTrace: bytes written by the real save()'):
            ctx.violation('smfwrite/nonconformant/' + why.replace(' ', '-'),
                          {'kind': 'written', 'src': part[i]['src']},
                          'save() wrote %r: %s' % (part[i]['bytes'][14:], why))
    ctx.note('written_files_validated', len(recs))
    if recs:
        ctx.sample({'written': {'tracks': recs[len(recs) // 2]['tracks'], 'bytes': recs[len(recs) // 2]['bytes'][14:]}})
    c07.run_random(ctx, 300 if thorough else 60, keyprefix='smfwrite')
    for key, case, msg in check_meta_events_in_files():
        ctx.violation(key, case, msg)
    ctx.replayed += len(META_EVENTS)
    for key, case, msg in check_header_words():
        ctx.violation(key if key.startswith('smfwrite') else 'smfread/' + key, case, msg)
    ctx.replayed += 72
    # a meta type registered through the documented extension point is read and written like the built-in ones
    from . import c09
    for key, msg in c09.check_custom_spec():
        ctx.violation('smfread/' + key, {'kind': 'custom_spec'}, msg)
    ctx.replayed += 1
    ctx.exhaustive = True
    ctx.constants = {'enc_plans': plans}
    ctx.assumptions += [
        'system common events (F1, F2, F3, F6) are treated as storable events with fixed data lengths that cancel running status',
        'legal alternative encodings: running status, up to 2 padding bytes per VLQ, header chunk length 6, 7 or 9',
        'byte-for-byte equality with a canonical writer is not required; conformance is judged by the reference decoder',
    ]
