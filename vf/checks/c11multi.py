"""Replay of PortLifeMulti histories on a real MultiPort over two device
doubles (part of C11)."""
from .. import core
from . import c11


class _Shuffle:
    """Stands in for the `random` module inside mido.ports: shuffle() puts the
    member ports in the order the replayed behaviour dictates."""

    def __init__(self):
        self.afirst = True
        self.a = None

    def shuffle(self, ports):
        ports.sort(key=lambda p: (p is self.a) != self.afirst)


def cfg(maxscript, maxcalls):
    return """SPECIFICATION Spec
CONSTANTS
 MaxScript = %d
 MaxCalls = %d
INVARIANT DrainBeforeStop
INVARIANT NonBlockingNeverWaits
INVARIANT SendAfterCloseRaises
INVARIANT IterEndsCleanly
INVARIANT Conservation
INVARIANT Emit
CHECK_DEADLOCK FALSE
""" % (maxscript, maxcalls)


def run_tlc(ctx, pr, thorough):
    ms, mc = (3, 4) if thorough else (2, 3)
    res = core.run_tlc('PortLifeMulti', cfg(ms, mc), on_emit=pr.push, raw_ints=True, timeout=3000,
                       heap='16g')
    ctx.add_tlc(res, 'PortLifeMulti script<=%d calls=%d' % (ms, mc))


def replay_row(row):
    import mido.ports as mp
    _, _, scripts, hist, fclosed, fq, flog = row
    wa, wb = c11.World(scripts[0]), c11.World(scripts[1])
    wb.nextid = 51
    sleeps = [0]
    saved = (mp.sleep, mp.random)
    sh = _Shuffle()

    def sleep_hook():
        sleeps[0] += 1
        if sleeps[0] > 60:
            raise c11.Hang()
    mp.sleep = sleep_hook
    mp.random = sh
    try:
        InD, OutD, IOD = c11.make_doubles()
        # two devices of the same kind with the same name (two units of one product)
        a = IOD('dev', world=wa, who='a')
        b = IOD('dev', world=wb, who='b')
        sh.a = a
        # every second history hands the member ports over as a one-shot iterable
        # every third history asks for (port, message) pairs: the port named must be the member
        # the message arrived on
        yp = (sum(len(x) for x in scripts) + 2 * len(hist) + sum(len(h['op']) for h in hist)) % 3 == 0
        kw = {'yield_ports': True} if yp else {}
        port = mp.MultiPort([a, b], **kw) if sum(len(x) for x in scripts) % 2 else mp.MultiPort((p for p in (a, b)), **kw)
        sent = []
        wrong = []

        def aid(r):
            if not yp:
                return c11.arrival_id(r)
            if not (isinstance(r, tuple) and len(r) == 2 and (r[0] is a or r[0] is b)):
                wrong.append('with yield_ports=True %s came out' % core.srepr(r))
                return -1
            i = c11.arrival_id(r[1])
            if (r[0] is b) != (i >= 51):
                wrong.append('message %d came out with member %s' % (i, 'b' if r[0] is b else 'a'))
            return i
        for n, h in enumerate(hist):
            op, exp = h['op'], h['r']
            sh.afirst = h['afirst']
            s0, p0 = sleeps[0], wa.polls + wb.polls
            got_k, got_v = None, []
            try:
                if op == 'send':
                    m = exp['v'][0] if exp['v'] else 100 + n
                    msg = c11.user_msg(m)
                    port.send(msg)
                    got_k, got_v = 'ok', [m]
                    sent.append(m)
                    msg.value = (msg.value + 1) % 128
                elif op == 'receive':
                    r = port.receive()
                    got_k, got_v = ('none', []) if r is None else ('msg', [aid(r)])
                elif op == 'poll':
                    r = port.poll()
                    got_k, got_v = ('none', []) if r is None else ('msg', [aid(r)])
                elif op == 'iterate':
                    got_k, got_v = 'list', [aid(r) for r in port]
                elif op == 'iter_pending':
                    got_k, got_v = 'list', [aid(r) for r in port.iter_pending()]
                elif op == 'close':
                    port.close()
                    got_k = 'ok'
            except c11.Hang:
                return 'hang/' + op, 'step %d: %s did not return within 60 sleeps (expected %r)' % (n, op, exp)
            except Exception as e:
                got_k, got_v = type(e).__name__, []
            if wrong:
                return 'yield-ports/' + op, 'step %d: %s' % (n, wrong[0])
            ds, dp = sleeps[0] - s0, wa.polls + wb.polls - p0
            ek = exp['k']
            if ek == 'raise':
                ok = got_k in ('ValueError', 'OSError')
            else:
                ok = got_k == ek and (got_v == exp['v'] or op == 'send')
            if not ok:
                return ('result/%s/%s-instead-of-%s' % (op, got_k, ek),
                        'step %d: %s gave %s %r, expected %s %r' % (n, op, got_k, got_v, ek, exp['v']))
            if ds != h['sleeps']:
                return 'sleeps/' + op, 'step %d: %s slept %d times, expected %d' % (n, op, ds, h['sleeps'])
            if dp != h['polls']:
                return 'polls/' + op, 'step %d: %s polled the devices %d times, expected %d' % (
                    n, op, dp, h['polls'])
        if bool(port.closed) != fclosed:
            return 'closed-flag', 'closed=%r expected %r' % (port.closed, fclosed)
        rq = [aid(m) for m in list(port._messages)]
        if rq != fq:
            return 'final-queue', 'queue %r expected %r' % (rq, fq)
        # every member saw a copy of every message sent, in order
        for w, name in ((wa, 'a'), (wb, 'b')):
            got = [x[2] for x in w.log if x[1] == 'send']
            if got != [c11.user_msg(m) for m in sent]:
                return 'device-log', 'member %s saw %r, sent ids %r' % (name, got, sent)
            if any(x[1] == 'close' for x in w.log):
                return 'device-log', 'member %s was closed by the MultiPort' % name
        if len(flog) != 2 * len(sent):
            return 'device-log', 'specification expected %r' % (flog,)
        return None
    finally:
        mp.sleep, mp.random = saved
