"""C18 - socket ports deliver exactly the complete messages before a disconnect.

G: SocketLink: TLC enumerates message sequences x every cut offset x every
   segmentation of the bytes before the cut (peer writes and the peer's close
   grouped freely between receiver steps) x two consumption patterns, checks
   PrefixComplete / NeverMore / AllValid / ClosedAfterEof on the
   specification, and emits each behaviour.  Each is replayed on a real
   socket.socketpair(): the driver performs the peer's writes and close at the
   points the behaviour dictates (before the receiver starts, or from the
   mido.ports.sleep hook while the receiver blocks).
   SocketAddr: format/parse of host:port addresses.
   Extra (driver level, listed in the evidence): closing a SocketPort is seen
   by the peer as EOF; a PortServer on the loopback interface hands out the
   messages of two clients and poll() never blocks.
"""
import json
import socket

from .. import core, tlaval


class Hang(Exception):
    pass


def cfg(maxmsgs, mode):
    return """SPECIFICATION Spec
CONSTANTS
 MaxMsgs = %d
 Mode = "%s"
INVARIANT PrefixComplete
INVARIANT NeverMore
INVARIANT AllValid
INVARIANT ClosedAfterEof
INVARIANT Emit
CHECK_DEADLOCK FALSE
""" % (maxmsgs, mode)


def replay_link(mode, stream, cut, acts, delivered, polls):
    import mido.ports as mp
    from mido.sockets import SocketPort
    a, b = socket.socketpair()
    a.settimeout(8.0)         # a read that would block for ever raises instead
    port = None
    state = {'pos': 0, 'group': 0, 'sleeps': 0}
    groups = [list(g) for g in acts]

    def do_group():
        g = groups[state['group']]
        state['group'] += 1
        for k in g:
            if k == 0:
                b.close()
            else:
                b.sendall(bytes(stream[state['pos']:state['pos'] + k]))
                state['pos'] += k

    def sleep_hook():
        state['sleeps'] += 1
        if state['group'] >= len(groups):
            raise Hang()
        do_group()
    saved = mp.sleep
    mp.sleep = sleep_hook
    try:
        port = SocketPort('peer', 1, conn=a)
        closes = []
        real_close = port._close

        def counting_close():
            closes.append(1)
            return real_close()
        port._close = counting_close
        if mode == 'iterate':
            do_group()
            got = []
            try:
                for m in port:
                    got.append(list(m.bytes()))
                    if len(got) > len(stream) + 2:
                        return 'too-many', 'iteration yields more messages than bytes'
            except Hang:
                return 'hang', 'iteration still waiting after the peer closed (got %r)' % (got,)
            except Exception as e:
                return 'iterate-raises/' + type(e).__name__, 'iteration raised %r after %r' % (e, got)
            if got != delivered:
                return 'wrong-messages', 'iteration gave %r expected %r' % (got, delivered)
        elif mode == 'pending':
            got = []
            for j, exp in enumerate(polls):
                if state['group'] <= j and j < len(groups):
                    do_group()
                try:
                    drained = [b for m in port.iter_pending() for b in m.bytes()]
                except Exception as e:
                    return 'iter_pending-raises/' + type(e).__name__, 'drain #%d raised %r' % (j, e)
                got.append(drained)
                if drained != exp:
                    return 'wrong-drain', 'iter_pending #%d gave %r expected %r' % (j, drained, exp)
            try:
                rest = [list(m.bytes()) for m in port.iter_pending()]
            except Exception as e:
                return 'iter_pending-raises/' + type(e).__name__, repr(e)
            if rest:
                return 'late-message', 'iter_pending after the end returned %r' % (rest,)
            if state['sleeps']:
                return 'poll-sleeps', 'iter_pending() slept'
        else:
            got = []
            for j, exp in enumerate(polls):
                if j < len(groups) and state['group'] <= j:
                    do_group()
                try:
                    m = port.poll()
                except Exception as e:
                    return 'poll-raises/' + type(e).__name__, 'poll #%d raised %r' % (j, e)
                r = [] if m is None else list(m.bytes())
                got.append(r)
                if r != exp:
                    return 'wrong-poll', 'poll #%d gave %r expected %r (so far %r)' % (j, r, exp, got)
            if state['sleeps']:
                return 'poll-sleeps', 'poll() slept'
        if not port.closed:
            return 'not-closed', 'port does not report closed after the peer disconnected'
        # after the end: nothing more comes, send raises
        try:
            if port.poll() is not None:
                return 'late-message', 'poll() after the end returned a message'
        except Exception as e:
            return 'late-raises/' + type(e).__name__, repr(e)
        # the connection was released exactly once, and stays so
        port.close()
        if len(closes) != 1 or a.fileno() != -1:
            return ('device-not-released', 'after the peer disconnected the socket was released %d times '
                    '(fileno %d)' % (len(closes), a.fileno()))
        return None
    finally:
        mp.sleep = saved
        for s in (a, b):
            try:
                s.close()
            except Exception:
                pass
        if port is not None:
            try:
                port.close()
                port._rfile.close()
                port._wfile.close()
            except Exception:
                pass


def worker(lines):
    res = {'n': 0, 'viol': [], 'samples': [], 'counts': {}}
    for line in lines:
        row = tlaval.parse(json.loads(line))[1:]
        mode, stream, cut, acts, delivered, polls = row
        r = replay_link(mode, stream, cut, acts, delivered, polls)
        res['n'] += 1
        res['counts'][mode] = res['counts'].get(mode, 0) + 1
        if cut < len(stream):
            res['counts']['cut_inside'] = res['counts'].get('cut_inside', 0) + 1
        if r and len(res['viol']) < 10:
            res['viol'].append(('socket/%s/%s' % (r[0], mode), {'kind': 'link', 'row': row},
                                '%s (stream %r cut %d peer actions %r)' % (r[1], stream, cut, acts)))
    if lines:
        res['samples'].append({'mode': mode, 'stream': stream, 'cut': cut, 'peer_action_groups': acts,
                               'delivered': delivered})
    return res


# ---- addresses ---------------------------------------------------------------

def check_addr(row):
    from mido.sockets import format_address, parse_address
    if row[0] == 'format':
        _, host, port, text = row
        h, t = ''.join(host), ''.join(text)
        try:
            f = format_address(h, port)
        except Exception as e:
            return 'format-raises', repr(e)
        if f != t:
            return 'format', 'format_address(%r, %r) = %r, expected %r' % (h, port, f, t)
        try:
            back = parse_address(f)
        except Exception as e:
            return 'parse-of-format-raises', 'parse_address(%r) raised %r' % (f, e)
        if tuple(back) != (h, port):
            return 'not-inverse', 'parse_address(format_address(%r, %r)) = %r' % (h, port, back)
        return None
    _, text, ok, host, port = row
    t = ''.join(text)
    try:
        back = parse_address(t)
    except ValueError:
        if ok:
            return 'parse-rejects', 'parse_address(%r) raised ValueError' % t
        return None
    except Exception as e:
        return 'parse-wrong-exception', 'parse_address(%r) raised %r' % (t, e)
    if not ok:
        return 'parse-accepts', 'parse_address(%r) = %r but the address is malformed' % (t, back)
    if tuple(back) != (''.join(host), port):
        return 'parse', 'parse_address(%r) = %r expected %r' % (t, back, (''.join(host), port))
    return None


# ---- driver-level sub-checks ---------------------------------------------------

def check_close_seen_by_peer():
    """After port.close() the peer's read must return EOF."""
    from mido.sockets import SocketPort
    import mido
    out = []
    for pre_send in (False, True):
        a, b = socket.socketpair()
        a.settimeout(8.0)
        port = SocketPort('peer', 1, conn=a)
        try:
            if pre_send:
                port.send(mido.Message('note_on', note=1))
            port.close()
            b.settimeout(1.0)
            data = b''
            try:
                while True:
                    chunk = b.recv(16)
                    if not chunk:
                        break
                    data += chunk
            except socket.timeout:
                out.append(('close-not-seen-by-peer', {'kind': 'close_seen', 'pre_send': pre_send},
                            'peer of a closed SocketPort sees no EOF within 1 s (got %r)' % data))
                continue
            if pre_send and data != bytes([0x90, 1, 64]):
                out.append(('peer-data', {'kind': 'close_seen', 'pre_send': pre_send},
                            'peer read %r' % data))
        finally:
            for s in (a, b):
                try:
                    s.close()
                except Exception:
                    pass
            try:
                port._rfile.close()
                port._wfile.close()
            except Exception:
                pass
    return out


def check_close_while_receiving(rseed, policy):
    """A thread waits in receive() on a SocketPort; another thread calls close():
    the close must go through and the peer must see the disconnect."""
    import random
    from .. import portrun
    holder = {}
    orig = portrun.Setup.__init__

    def grab(self, *a, **k):
        orig(self, *a, **k)
        holder['setup'] = self
    portrun.Setup.__init__ = grab
    try:
        prog = [[{'op': 'recv', 'm': 0, 'lane': 0}], [{'op': 'close', 'm': 0, 'lane': 0}]]
        run = portrun.run_program('socket', [], prog, rng=random.Random(rseed), policy=policy, budget=300)
    finally:
        portrun.Setup.__init__ = orig
    st = holder['setup']
    try:
        r2 = run['results'].get(2)
        if run['hung'] or r2 is None or r2[0]['k'] != 'ok':
            return ('close-blocked-by-waiting-receiver',
                    'close() did not complete while another thread waited in receive() (results %r)' % (run['results'],))
        st.peer.settimeout(1.0)
        try:
            data = st.peer.recv(16)
        except socket.timeout:
            return 'close-not-seen-by-peer', 'peer sees no EOF after close() during a waiting receive()'
        if data != b'':
            return 'peer-data', 'peer read %r' % (data,)
        return None
    finally:
        for s_ in (st.peer, st.sock):
            try:
                s_.close()
            except Exception:
                pass


def check_poll_never_waits_big():
    """Exactly 1024 (and 2048, 1000) bytes of complete messages are queued and the peer
    stays connected and silent: poll() / iter_pending() must hand them out and return."""
    import threading
    from mido.sockets import SocketPort
    out = []
    for nbytes in (1024, 2048, 1000, 6000):
        a, b = socket.socketpair()
        a.settimeout(8.0)
        port = SocketPort('peer', 1, conn=a)
        try:
            b.sendall(bytes([0xc0, 5] * (nbytes // 2)))
            box = {}

            def work():
                try:
                    box['n'] = len(list(port.iter_pending()))
                except Exception as e:
                    box['exc'] = e
            th = threading.Thread(target=work, daemon=True)
            th.start()
            th.join(5.0)
            if th.is_alive():
                out.append(('poll-blocks/%d-bytes-queued' % nbytes, {'kind': 'bigpoll'},
                            'iter_pending() did not return within 5 s with %d bytes queued and a silent peer' % nbytes))
                b.sendall(b'\xf8')      # let the stuck reader go
                th.join(2.0)
            elif 'exc' in box or box.get('n') != nbytes // 2:
                out.append(('wrong-messages/big', {'kind': 'bigpoll'},
                            '%d bytes queued: iter_pending gave %r' % (nbytes, box)))
        finally:
            for s_ in (a, b):
                try:
                    s_.close()
                except Exception:
                    pass
            try:
                port._rfile.close()
                port._wfile.close()
            except Exception:
                pass
    return out


def _close_port(port):
    for f in (port.close, port._rfile.close, port._wfile.close):
        try:
            f()
        except Exception:
            pass


def check_two_connections_interleaved():
    """Two independent connections whose messages arrive in interleaved pieces:
    each port yields exactly its own messages."""
    from mido.sockets import SocketPort
    out = []
    a1, a2 = socket.socketpair()
    b1, b2 = socket.socketpair()
    a1.settimeout(8.0)
    b1.settimeout(8.0)
    pa, pb = SocketPort('peer', 1, conn=a1), SocketPort('peer', 2, conn=b1)
    try:
        got = {'a': [], 'b': []}
        for who, piece in (('b', [0xc3]), ('a', [0x92, 0x40]), ('b', [0x11]), ('a', [0x5a, 0x82]),
                           ('b', [0xe3, 1]), ('a', [0x41]), ('b', [2]), ('a', [0])):
            (a2 if who == 'a' else b2).sendall(bytes(piece))
            import time
            time.sleep(0.002)
            got['a'] += [list(m.bytes()) for m in pa.iter_pending()]
            got['b'] += [list(m.bytes()) for m in pb.iter_pending()]
        exp = {'a': [[0x92, 0x40, 0x5a], [0x82, 0x41, 0]], 'b': [[0xc3, 0x11], [0xe3, 1, 2]]}
        if got != exp:
            out.append(('connections-interfere', {'kind': 'twoconn'},
                        'two connections fed in interleaved pieces yielded %r, expected %r' % (got, exp)))
    except Exception as e:
        out.append(('connections-interfere/raises', {'kind': 'twoconn'}, repr(e)))
    finally:
        _close_port(pa)
        _close_port(pb)
        for s_ in (a1, a2, b1, b2):
            try:
                s_.close()
            except Exception:
                pass
    return out


def check_multi_member_burst(n=100):
    """A MultiPort over two socket ports; one peer sends n messages and
    disconnects before anybody looks, the other sends two and stays.  Every
    message that arrived completely must be handed out."""
    import time
    import mido.ports as mp
    from mido.sockets import SocketPort
    out = []
    a1, a2 = socket.socketpair()
    b1, b2 = socket.socketpair()
    a1.settimeout(8.0)
    b1.settimeout(8.0)
    pa, pb = SocketPort('peer', 1, conn=a1), SocketPort('peer', 2, conn=b1)
    multi = mp.MultiPort([pa, pb])
    try:
        sa = [[0x90, k % 128, 1 + k // 128] for k in range(n)]
        sb = [[0x91, 7, 7], [0xc1, 9]]
        a2.sendall(bytes(b for m in sa for b in m) + bytes([0x90, 1]))     # and one incomplete message
        a2.close()
        b2.sendall(bytes(b for m in sb for b in m))
        time.sleep(0.01)
        got = []
        for _ in range(5):
            got += [list(m.bytes()) for m in multi.iter_pending()]
        ga = [m for m in got if m[0] == 0x90]
        gb = [m for m in got if m[0] != 0x90]
        if ga != sa or gb != sb:
            out.append(('multi-loses-messages-of-closed-member', {'kind': 'multiburst', 'n': n},
                        'member sent %d messages and disconnected: MultiPort handed out %d of them (other member: %r)' % (
                            n, len(ga), gb)))
        if not pa.closed:
            out.append(('member-not-closed', {'kind': 'multiburst', 'n': n}, 'the disconnected member does not report closed'))
    except Exception as e:
        out.append(('multi-burst/raises', {'kind': 'multiburst', 'n': n}, repr(e)))
    finally:
        _close_port(pa)
        _close_port(pb)
        for s_ in (a1, a2, b1, b2):
            try:
                s_.close()
            except Exception:
                pass
    return out


_FD0_CHILD = r"""
import os, sys, socket
sys.path.insert(0, %(repo)r)
os.close(0)                                  # a daemon started with stdin closed
a, b = socket.socketpair()
if a.fileno() != 0:
    a, b = b, a
assert a.fileno() == 0, a.fileno()
a.settimeout(5.0)
import mido
from mido.sockets import SocketPort, PortServer
port = SocketPort('peer', 1, conn=a)
b.sendall(bytes([0x90, 1, 2, 0xc1, 5]))
got = [list(m.bytes()) for m in port.iter_pending()]
b.close()
rest = [list(m.bytes()) for m in port.iter_pending()]
print('RESULT', got, rest, port.closed)
"""


def check_descriptor_zero():
    """The connection's socket may have any descriptor number, 0 included (a process started
    with stdin closed)."""
    import subprocess
    import sys
    code = _FD0_CHILD % {'repo': core.REPO}
    try:
        r = subprocess.run([sys.executable, '-B', '-c', code], stdout=subprocess.PIPE, stderr=subprocess.PIPE, text=True,
                           timeout=60)
    except subprocess.TimeoutExpired:
        return [('descriptor-zero/hang', {'kind': 'fd0'}, 'a SocketPort on descriptor 0 did not answer within 60 s')]
    line = [x for x in r.stdout.splitlines() if x.startswith('RESULT')]
    if not line:
        return [('descriptor-zero/raises', {'kind': 'fd0'}, 'SocketPort on descriptor 0: %s' % (r.stderr.strip().splitlines() or ['?'])[-1][:200])]
    if line[0] != 'RESULT [[144, 1, 2], [193, 5]] [] True':
        return [('descriptor-zero/wrong-messages', {'kind': 'fd0'},
                 'a SocketPort whose socket has descriptor 0 gave %s (expected the two messages, then nothing, closed)' % line[0][7:])]
    return []


def check_send_to_dead_peer():
    """Real TCP on the loopback interface: the peer goes away and the port only ever
    sends.  The write fails (OSError), the port closes itself - releasing the socket
    once -, further sends raise ValueError and close() stays harmless."""
    import time
    import mido
    from mido.sockets import PortServer, connect
    out = []
    server = None
    try:
        try:
            server = PortServer('127.0.0.1', 0)
        except OSError as e:
            return out, 'skipped: cannot bind loopback (%r)' % (e,)
        client = connect('127.0.0.1', server._socket.getsockname()[1])
        sp = server.accept()
        client.close()
        client._rfile.close()
        client._wfile.close()
        time.sleep(0.02)
        seen = []
        for k in range(60):
            try:
                sp.send(mido.Message('note_on', note=k))
                seen.append('ok')
            except OSError as e:
                seen.append('OSError')
            except ValueError:
                seen.append('ValueError')
                break
            except Exception as e:
                seen.append(type(e).__name__)
                break
            time.sleep(0.002)
        if 'OSError' not in seen or seen[-1] != 'ValueError' or not sp.closed:
            out.append(('dead-peer/send-sequence', {'kind': 'deadpeer'},
                        'sends to a disconnected peer ended %r, closed=%r (expected ok..., OSError, then ValueError on a closed port)' % (
                            seen[-6:], sp.closed)))
        try:
            sp.close()
            sp.close()
        except Exception as e:
            out.append(('dead-peer/close-raises', {'kind': 'deadpeer'}, 'close() after the failed send raised %r' % (e,)))
        try:
            fd = sp._socket.fileno()
        except Exception:
            fd = -1
        if fd != -1:
            out.append(('dead-peer/socket-not-released', {'kind': 'deadpeer'}, 'the socket is still open (fd %d)' % fd))
        try:
            server.close()
            if server._socket.fileno() != -1:
                out.append(('dead-peer/server-socket-not-released', {'kind': 'deadpeer'}, 'listening socket still open'))
        except Exception as e:
            out.append(('dead-peer/server-close-raises', {'kind': 'deadpeer'}, repr(e)))
        return out, None
    except Exception as e:
        out.append(('dead-peer/raises/%s' % type(e).__name__, {'kind': 'deadpeer'}, repr(e)))
        return out, None
    finally:
        try:
            if server is not None:
                server._socket.close()
        except Exception:
            pass


def check_server(n_per_client=3):
    """PortServer on the loopback interface (see _check_server); an exception that escapes from
    the server's calls is a finding, not a failure of the harness."""
    try:
        return _check_server(n_per_client)
    except Exception as e:
        import traceback
        where = [ln.strip() for ln in traceback.format_exc().splitlines() if 'mido/' in ln][-1:] or ['?']
        return [('server-raises/%s' % type(e).__name__, {'kind': 'server'},
                 'a PortServer call raised %r (%s)' % (e, where[0]))], None


def _check_server(n_per_client=3):
    """PortServer on the loopback interface, two clients."""
    import mido
    import mido.ports as mp
    from mido.sockets import PortServer, connect
    out = []
    state = {'sleeps': 0}

    def sleep_hook():
        state['sleeps'] += 1
        if state['sleeps'] > 200:
            raise Hang()
    saved = mp.sleep
    mp.sleep = sleep_hook
    server = None
    clients = []
    try:
        try:
            server = PortServer('127.0.0.1', 0)
        except OSError as e:
            return out, 'skipped: cannot bind loopback (%r)' % (e,)
        portno = server._socket.getsockname()[1]
        # poll on an idle server must not block
        try:
            if server.poll() is not None:
                out.append(('server-poll', {'kind': 'server'}, 'idle server poll returned a message'))
        except Hang:
            out.append(('server-poll-blocks', {'kind': 'server'}, 'poll() on an idle PortServer blocks'))
            return out, None
        clients = [connect('127.0.0.1', portno) for _ in range(2)]
        sent = []
        for i in range(n_per_client):
            for c, cl in enumerate(clients):
                m = mido.Message('note_on', channel=c, note=10 + i)
                cl.send(m)
                sent.append(m)
        got = []
        try:
            import time
            deadline = time.time() + 5
            while len(got) < len(sent) and time.time() < deadline:
                state['sleeps'] = 0
                m = server.receive() if len(got) % 2 == 0 else server.poll()
                if m is not None:
                    got.append(m)
        except Hang:
            out.append(('server-receive-blocks', {'kind': 'server'},
                        'PortServer.receive() does not return although clients sent %d messages (got %d)' % (
                            len(sent), len(got))))
            return out, None
        for c in range(2):
            if [m for m in got if m.channel == c] != [m for m in sent if m.channel == c]:
                out.append(('server-fan-in', {'kind': 'server'},
                            'messages of client %d: got %r' % (c, [m for m in got if m.channel == c])))
        # a third client sends several messages and disconnects before the server looks
        import select
        import time
        c3 = connect('127.0.0.1', portno)
        late = [mido.Message('note_on', channel=5, note=n) for n in range(100)]
        for m in late:
            c3.send(m)
        deadline = time.time() + 2
        while time.time() < deadline and not select.select([server._socket], [], [], 0.05)[0]:
            pass                    # the connection is pending, not yet accepted by the server
        c3.close()
        c3._rfile.close()
        c3._wfile.close()
        time.sleep(0.05)            # let the data and the FIN arrive (loopback)
        got3 = []
        state['sleeps'] = 0
        deadline = time.time() + 3
        try:
            while len(got3) < len(late) and time.time() < deadline and state['sleeps'] < 150:
                m = server.poll()
                if m is not None:
                    got3.append(m)
                else:
                    state['sleeps'] += 1
                    time.sleep(0.002)
        except Hang:
            pass
        if got3 != late:
            out.append(('server-loses-messages-of-disconnected-client', {'kind': 'server'},
                        'a client sent %d messages and disconnected; the server handed out %r' % (
                            len(late), got3)))
        # one client leaves (the server notices it in one poll) and another one arrives before the
        # next poll: the number of connections is the same, the connections are not
        for round_ in range(3):
            ca = connect('127.0.0.1', portno)
            ca.send(mido.Message('note_on', channel=6, note=round_))
            gota = []
            deadline = time.time() + 3
            while not gota and time.time() < deadline:
                state['sleeps'] = 0
                m = server.poll()
                if m is not None:
                    gota.append(m)
                else:
                    time.sleep(0.002)
            ca.close()
            ca._rfile.close()
            ca._wfile.close()
            time.sleep(0.03)
            state['sleeps'] = 0
            server.poll()                       # notices the EOF of ca
            cb = connect('127.0.0.1', portno)
            want = mido.Message('note_on', channel=7, note=round_)
            cb.send(want)
            deadline = time.time() + 2
            while time.time() < deadline and not select.select([server._socket], [], [], 0.05)[0]:
                pass
            gotb = []
            deadline = time.time() + 3
            while not gotb and time.time() < deadline:
                state['sleeps'] = 0
                m = server.poll()
                if m is not None:
                    gotb.append(m)
                else:
                    time.sleep(0.002)
            clients.append(cb)
            if [x.note for x in gota] != [round_] or gotb != [want]:
                out.append(('server-ignores-client-that-replaced-another', {'kind': 'server'},
                            'round %d: a client left and another one connected between two polls; the server handed out %r and %r' % (
                                round_, gota, gotb)))
                break
        # closing the server is seen as a disconnect by EVERY client still connected
        raws = []
        for _ in range(3):                # one at a time: the listen backlog is 1
            before = len(server.ports)
            raws.append(socket.create_connection(('127.0.0.1', portno), timeout=5))
            for _ in range(200):
                server.poll()             # accepts the pending connection
                if len(server.ports) > before:
                    break
                time.sleep(0.005)
        server.close()
        for k, rs in enumerate(raws):
            rs.settimeout(1.0)
            try:
                if rs.recv(8) != b'':
                    out.append(('server-close/data', {'kind': 'server'}, 'client %d read data after the server closed' % k))
            except socket.timeout:
                out.append(('server-close-not-seen-by-client', {'kind': 'server'},
                            'client %d of %d sees no EOF after PortServer.close()' % (k, len(raws))))
            except OSError:
                pass                      # a reset is a disconnect too
            finally:
                rs.close()
        return out, None
    finally:
        mp.sleep = saved
        for cl in clients:
            try:
                cl.close()
                cl._rfile.close()
                cl._wfile.close()
            except Exception:
                pass
        if server is not None:
            try:
                for p in server.ports:
                    p.close()
                    p._rfile.close()
                    p._wfile.close()
                server.close()
            except Exception:
                pass


def replay(case):
    k = case.get('kind')
    if k == 'link':
        r = replay_link(*case['row'])
        return r and '%s: %s' % r
    if k == 'addr':
        r = check_addr(case['row'])
        return r and '%s: %s' % r
    if k == 'close_seen':
        v = [x for x in check_close_seen_by_peer() if x[1].get('pre_send') == case['pre_send']]
        return v and v[0][2]
    if k == 'bigpoll':
        v = check_poll_never_waits_big()
        return v and v[0][2]
    if k == 'close_recv':
        r = check_close_while_receiving(case['rseed'], case['policy'])
        return r and r[1]
    if k == 'server':
        v, skip = check_server()
        return v and v[0][2]
    if k == 'fd0':
        v = check_descriptor_zero()
        return v and v[0][2]
    if k == 'deadpeer':
        v, skip = check_send_to_dead_peer()
        return v and v[0][2]
    if k == 'twoconn':
        v = check_two_connections_interleaved()
        return v and v[0][2]
    if k == 'multiburst':
        v = check_multi_member_burst(case['n'])
        return v and v[0][2]


def run(ctx):
    thorough = ctx.tier == 'thorough'
    mm = 3 if thorough else 2
    pr = core.ParallelReplay(ctx, worker, batch_size=400)
    for mode in ('iterate', 'poll', 'pending'):
        res = core.run_tlc('SocketLink', cfg(mm, mode), on_emit=pr.push, raw_ints=True,
                           timeout=3000, heap='16g')
        ctx.add_tlc(res, 'SocketLink msgs<=%d %s' % (mm, mode))
    n = pr.finish()
    ctx.note('link_behaviours', n)
    # addresses
    rows = []
    res = core.run_tlc('SocketAddr', """SPECIFICATION Spec
CONSTANTS
 MaxHost = %d
 MaxText = %d
INVARIANT FormatParseInverse
INVARIANT ParseThenFormat
INVARIANT Emit
CHECK_DEADLOCK FALSE
""" % ((4, 6) if thorough else (3, 5)), on_emit=rows.append)
    ctx.add_tlc(res, 'SocketAddr')
    for row in rows:
        r = check_addr(row)
        ctx.replayed += 1
        if r:
            ctx.violation('socket/address/%s' % r[0], {'kind': 'addr', 'row': row}, r[1])
    ctx.note('address_rows', len(rows))
    for host, port in (('localhost', 8080), ('', 1), ('127.0.0.1', 65535), ('a.b', 80)):
        r = check_addr(['format', list(host), port, list('%s:%d' % (host, port))])
        ctx.replayed += 1
        if r:
            ctx.violation('socket/address/%s' % r[0],
                          {'kind': 'addr', 'row': ['format', list(host), port, list('%s:%d' % (host, port))]}, r[1])
    # reverse direction and server
    for key, case, msg in check_close_seen_by_peer():
        ctx.violation('socket/' + key, case, msg)
    import random as _random
    rng = _random.Random(ctx.seed + 18)
    for k in range(12):
        rseed, policy = rng.randrange(1 << 30), ['random', 'pct', 'first'][k % 3]
        r = check_close_while_receiving(rseed, policy)
        ctx.replayed += 1
        if r:
            ctx.violation('socket/' + r[0], {'kind': 'close_recv', 'rseed': rseed, 'policy': policy}, r[1])
    for key, case, msg in check_two_connections_interleaved() + check_multi_member_burst(100) + check_multi_member_burst(3):
        ctx.violation('socket/' + key, case, msg)
    ctx.replayed += 3
    for key, case, msg in check_descriptor_zero():
        ctx.violation('socket/' + key, case, msg)
    ctx.replayed += 1
    v, skipped = check_send_to_dead_peer()
    ctx.replayed += 1
    if skipped:
        ctx.observations.append(skipped)
    for key, case, msg in v:
        ctx.violation('socket/' + key, case, msg)
    for key, case, msg in check_poll_never_waits_big():
        ctx.violation('socket/' + key, case, msg)
    v, skipped = check_server()
    for key, case, msg in v:
        ctx.violation('socket/' + key, case, msg)
    ctx.replayed += 3
    if skipped:
        ctx.observations.append(skipped)
    ctx.constants = {'MaxMsgs': mm, 'items': 'note_on, program_change, sysex(1), clock'}
    ctx.exhaustive = True
    ctx.assumptions += [
        'the stream connection is a socket.socketpair() (AF_UNIX stream); TCP segmentation is represented by the peer write sizes',
        'CloseSeenByPeer and the PortServer fan-in are driver-level sub-checks (real sockets, bounded waits); they are not enumerated by TLC',
    ]
