"""Regenerates the table of all seeded changes in DESIGN.md (section 15) from
seeded/*/meta.json:  python -m vf.seedtable  (rewrites the block between the
markers '<!-- seedtable -->' and '<!-- /seedtable -->')."""
import glob
import json
import os
import re

ROOT = os.path.dirname(os.path.dirname(os.path.abspath(__file__)))


def rows():
    for d in sorted(glob.glob(os.path.join(ROOT, 'seeded', 'C*'))):
        sid = os.path.basename(d)
        try:
            meta = json.load(open(os.path.join(d, 'meta.json')))
        except Exception:
            continue
        notes = ' '.join(meta.get('needs_to_manifest', '').split())[:200].replace('|', '/')
        res = meta.get('quick_check_result', {})
        caught = []
        for pid, r in sorted(res.items()):
            if r.get('exit') == 1 and r.get('keys'):
                k = r['keys'][0]
                k = re.sub(r'^key=', '', k).split(':')[0]
                caught.append('%s: `%s`' % (pid, k) if pid != sid[:3] else '`%s`' % k)
        yield '| %s | %s | %s |' % (sid, notes, '; '.join(caught) or 'not caught by its own check (see text)')


def main():
    p = os.path.join(ROOT, 'DESIGN.md')
    s = open(p).read()
    table = '\n'.join(['| seed | change / what it needs (from the author\'s notes) | first violation key (quick tier) |',
                       '|---|---|---|'] + list(rows()))
    a, b = '<!-- seedtable -->', '<!-- /seedtable -->'
    if a not in s:
        raise SystemExit('markers missing in DESIGN.md')
    s = s[:s.index(a) + len(a)] + '\n' + table + '\n' + s[s.index(b):]
    open(p, 'w').write(s)
    print('rows:', table.count('\n') - 1)


if __name__ == '__main__':
    main()
