"""A whole number that is not an int: what numpy.int64, gmpy2.mpz, sympy.Integer look like to mido
(numbers.Integral, every operator, no int methods such as to_bytes / bit_length)."""
import numbers, operator
class Int64(numbers.Integral):
    """A whole number that is not an int (numpy.int64, gmpy2.mpz, ...)."""
    __slots__ = ('v',)
    def __init__(self, v): self.v = int(v)
    def __int__(self): return self.v
    def __index__(self): return self.v
    def __float__(self): return float(self.v)
    def __repr__(self): return 'Int64(%d)' % self.v
    def __str__(self): return str(self.v)
    def __format__(self, spec): return format(self.v, spec)
    def __hash__(self): return hash(self.v)
    def __bool__(self): return bool(self.v)
    def _o(x): return x.v if isinstance(x, Int64) else x
    def __eq__(self, o): return self.v == Int64._o(o)
    def __lt__(self, o): return self.v < Int64._o(o)
    def __le__(self, o): return self.v <= Int64._o(o)
    def __gt__(self, o): return self.v > Int64._o(o)
    def __ge__(self, o): return self.v >= Int64._o(o)
    def __abs__(self): return Int64(abs(self.v))
    def __neg__(self): return Int64(-self.v)
    def __pos__(self): return self
    def __invert__(self): return Int64(~self.v)
    def __trunc__(self): return self.v
    def __floor__(self): return self.v
    def __ceil__(self): return self.v
    def __round__(self, n=None): return self.v
for name in ('add','sub','mul','floordiv','mod','pow','lshift','rshift','and','xor','or'):
    def mk(name):
        f = getattr(operator, name if name not in ('and','or') else name + '_')
        def fwd(self, o, *a):
            o = Int64._o(o)
            if not isinstance(o, (int, float)): return NotImplemented
            r = f(self.v, o)
            return Int64(r) if isinstance(r, int) else r
        def rev(self, o, *a):
            o = Int64._o(o)
            if not isinstance(o, (int, float)): return NotImplemented
            r = f(o, self.v)
            return Int64(r) if isinstance(r, int) else r
        return fwd, rev
    fwd, rev = mk(name)
    setattr(Int64, '__%s__' % name, fwd); setattr(Int64, '__r%s__' % name, rev)
def _td(self, o): return self.v / Int64._o(o)
def _rtd(self, o): return Int64._o(o) / self.v
Int64.__truediv__ = _td; Int64.__rtruediv__ = _rtd
Int64.__abstractmethods__ = frozenset()
