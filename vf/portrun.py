"""Run small multi-threaded programs on real mido ports under the
deterministic scheduler, following a TLC-generated schedule or a seeded
random / priority policy; log the Call/Return history for PortTrace."""
import random

from . import sched as S

LABEL_KIND = {'s_acq': 'acq', 's_put': 'put', 's_w1': 'wput', 's_w2': 'wput', 's_rel': 'rel',
              'o_test1': 'test', 'o_pop1': 'pop', 'o_test2': 'test', 'o_pop2': 'pop',
              'r_acq1': 'acq', 'r_test1': 'test', 'r_pop1': 'pop', 'r_rel1': 'rel',
              'r_rel1e': 'rel', 'r_acq2': 'acq', 'r_wtest': 'wtest', 'r_wget': 'wget',
              'r_put': 'put', 'r_test2': 'test', 'r_pop2': 'pop', 'r_rel2': 'rel',
              'r_rel2n': 'rel', 'r_rel2s': 'rel', 'r_sleep': 'sleep'}


RT_ID = 500          # every real-time (clock) message carries this id: they are indistinguishable


def _scribble(m):
    if m is not None:
        from . import core
        core.scribble(m)


def make_msg(mid, sender):
    import mido
    if mid == RT_ID:
        return mido.Message('clock')
    if mid % 3 == 0:
        # a note_on with velocity 0 is a message of its own (players may treat it as a release;
        # a port hands it over as it was sent)
        return mido.Message('note_on', channel=sender % 16, note=mid, velocity=0)
    return mido.Message('program_change', channel=sender % 16, program=mid)


def msg_id(msg, sender_of):
    """Identity of a received message; 900+ if it is not intact."""
    try:
        if msg.type == 'clock' and set(vars(msg)) == {'type', 'time'} and msg.time == 0:
            return RT_ID
        if msg.type == 'note_on':
            mid = msg.note
            if mid % 3 or msg.velocity != 0:
                return 903
        elif msg.type != 'program_change':
            return 900
        else:
            mid = msg.program
            if mid % 3 == 0:
                return 904
        if sender_of.get(mid) is None or msg.channel != sender_of[mid] % 16 or msg.time != 0:
            return 901
        return mid
    except Exception:
        return 902


class Setup:
    """Builds the port(s) for one kind. send_port(lane)/recv_port."""

    def __init__(self, kind, initq, sender_of, rng, nsenders=None):
        import mido.ports as mp
        self.kind = kind
        self.keep = []
        if kind == 'echo':
            p = mp.EchoPort()
            self.q = S.instrument(p)
            self.sendp = {1: p}
            self.recvp = p
            self.nlanes = 1
        elif kind == 'userloop':
            # a user-defined port as docs/ports/custom.rst describes: _send() keeps the
            # message object it is given (a loopback queue)
            class Loop(mp.BaseIOPort):
                def _send(self, message):
                    self._messages.append(message)
            p = Loop('loop')
            self.q = S.instrument(p)
            self.sendp = {1: p}
            self.recvp = p
            self.nlanes = 1
        elif kind == 'sharedbuf':
            # a device port in the style of docs/ports/custom.rst whose _send and _receive work
            # on one plain buffer in several steps: "the calls to _receive() and _send() are
            # protected by a lock. As a result all send and receive will be thread safe"
            class BufPort(mp.BaseIOPort):
                def _open(self, **kw):
                    self.buf = []

                def _send(self, msg):
                    S._announce('wire')
                    cur = self.buf
                    S._announce('wire')
                    self.buf = cur + list(msg.bytes())

                def _receive(self, block=True):
                    S._announce('wire')
                    data = self.buf
                    S._announce('wire')
                    self.buf = []
                    for b in data:
                        self._parser.feed_byte(b)
            p = BufPort('buf')
            self.q = S.instrument(p)
            self.sendp = {1: p}
            self.recvp = p
            self.nlanes = 1
        elif kind == 'faultydev':
            # a device whose first write fails (the cable was pulled): send() raises OSError,
            # everything else must go on working
            WirePort = S.make_wire_port_class()

            class Faulty(WirePort):
                failed = False

                def _send(self, msg):
                    if not self.failed:
                        self.failed = True
                        raise OSError('device write failed')
                    WirePort._send(self, msg)
            w = S.Wire()
            p = Faulty('dev', rwire=w, wwire=w)
            self.q = S.instrument(p)
            self.sendp = {1: p}
            self.recvp = p
            self.nlanes = 1
        elif kind == 'device':
            WirePort = S.make_wire_port_class()
            w = S.Wire()
            p = WirePort('dev', rwire=w, wwire=w)
            self.q = S.instrument(p)
            self.sendp = {1: p}
            self.recvp = p
            self.nlanes = 1
        elif kind == 'ioport':
            WirePort = S.make_wire_port_class()
            w = S.Wire()
            inp = WirePort('in', rwire=w, wwire=S.Wire())
            outp = WirePort('out', rwire=S.Wire(), wwire=w)
            self.q = S.instrument(inp)
            p = mp.IOPort(inp, outp)
            self.keep += [inp, outp]
            self.sendp = {1: p}
            self.recvp = p
            self.nlanes = 1
        elif kind == 'multi':
            a, b = mp.EchoPort(), mp.EchoPort()
            qa, qb = S.instrument(a), S.instrument(b)
            # the member ports are handed over as the caller's own list (emptied right afterwards) or
            # as a one-shot iterable, in turn
            if rng.random() < 0.5:
                members = [a, b]
                p = mp.MultiPort(members)
                del members[:]
            else:
                p = mp.MultiPort(x for x in (a, b))
            self.q = S.instrument(p)
            self.keep += [a, b]
            self.member_q = [qa, qb]
            self.sendp = {1: a, 2: b}
            self.recvp = p
            self.nlanes = 2
        elif kind == 'socket':
            # a real SocketPort on one end of a socketpair; `peer` is the other end
            import socket
            from mido.sockets import SocketPort
            a, b = socket.socketpair()
            a.settimeout(8.0)
            p = SocketPort('peer', 1, conn=a)
            self.q = S.instrument(p)
            self.peer = b
            self.sock = a
            self.sendp = {1: p}
            self.recvp = p
            self.nlanes = 1
        elif kind == 'server':
            # a real PortServer on the loopback interface with ONE connection waiting to
            # be accepted; accept() on the listening socket is given a time limit so that
            # a call that would wait for ever raises instead
            import socket
            import select
            from mido.sockets import PortServer
            p = PortServer('127.0.0.1', 0)
            p._socket.settimeout(1.0)
            self.client = socket.create_connection(p._socket.getsockname(), timeout=5)
            for _ in range(200):
                if select.select([p._socket], [], [], 0.05)[0]:
                    break
            self.q = S.instrument(p)
            self.sendp = {1: p}
            self.recvp = p
            self.nlanes = 1
        elif kind == 'pqueue':
            # the thread-safe parser queue used by callback-driven backends:
            # "send" = the device thread delivering the bytes of one message
            from mido.backends._parser_queue import ParserQueue
            pq = ParserQueue()
            # (sender_of has one entry for all real-time messages, so count the threads)
            single_writer = (nsenders if nsenders is not None else
                             len({v for v in sender_of.values() if v})) <= 1
            if hasattr(pq, '_parser'):
                pq._parser.messages = S.AnnDeque()
            if hasattr(pq, '_queue') and hasattr(pq._queue, 'put'):
                pq._queue = S.AnnQueue(pq._queue)      # (otherwise: internals changed, public API only)

            class _Adapter:
                closed = False

                def send(self, msg):
                    b = msg.bytes()
                    if single_writer and len(b) > 1:
                        # the device delivers the bytes of one message in two pieces
                        pq.put_bytes(b[:1])
                        pq.put_bytes(b[1:])
                    else:
                        pq.put_bytes(b)

                def poll(self):
                    return pq.poll()

                def iter_pending(self):
                    return pq.iterpoll()
            p = _Adapter()
            self.q = pq._parser.messages if hasattr(pq, '_parser') else S.AnnDeque()
            self.pq = pq
            self.sendp = {1: p}
            self.recvp = p
            self.nlanes = 1
        else:
            raise ValueError(kind)
        self.keep.append(p)
        # how often each device is released: the ports whose _close talks to a device
        # (for the IOPort wrapper these are the wrapped ports)
        self.releases = {}
        devs = [p]
        if kind == 'ioport':
            devs = [inp, outp]
        for i, d in enumerate(devs):
            if not hasattr(d, '_close'):
                continue
            self.releases[i] = 0

            def counting_close(*a, _i=i, _orig=d._close, **k):
                self.releases[_i] += 1
                return _orig(*a, **k)
            try:
                d._close = counting_close
            except Exception:
                pass
        for mid in initq:
            import collections
            collections.deque.append(self.q, make_msg(mid, sender_of[mid]))

    def final_queue(self, sender_of):
        if self.kind == 'pqueue':
            import queue
            out = []
            while True:
                try:
                    if isinstance(getattr(self.pq, '_queue', None), S.AnnQueue):
                        out.append(msg_id(self.pq._queue.q.get_nowait(), sender_of))
                    else:
                        m = self.pq.poll()
                        if m is None:
                            return out
                        out.append(msg_id(m, sender_of))
                except queue.Empty:
                    return out
        return [msg_id(m, sender_of) for m in self.q.raw()]

    def close(self):
        class _Null:
            def __enter__(self):
                return self

            def __exit__(self, *a):
                return False
        if self.kind == 'server':
            try:
                self.client.close()
                for sp in self.recvp.ports:
                    sp._lock = _Null()
                    sp.close()
                    sp._rfile.close()
                    sp._wfile.close()
                self.recvp._socket.close()
            except Exception:
                pass
        for p in self.keep:
            try:
                p._lock = _Null()        # a later __del__ -> close() must not enter the scheduler
            except Exception:
                pass
            try:
                p.closed = True
            except Exception:
                pass


def line_files():
    import mido.ports
    import mido.parser
    import mido.tokenizer
    import mido.backends._parser_queue as pq
    return [m.__file__ for m in (mido.ports, mido.parser, mido.tokenizer, pq)]


def run_program(kind, initq, prog, schedule=None, rng=None, policy='random',
                budget=400, labels=None, line_level=False, record=False):
    """prog: list (thread index 0..) of lists of ops {'op':..., 'm':..., 'lane':...}.
    schedule: list of thread ids (1-based) or None.
    Returns dict(results, events, final_q, divergences, hung)."""
    import mido.ports as mp
    rng = rng or random.Random(0)
    sender_of = {}
    for mid in initq:
        sender_of[mid] = 0
    for ti, ops in enumerate(prog):
        for op in ops:
            if op['op'] == 'send':
                sender_of[op['m']] = ti + 1
    sc = S.Scheduler(budget=budget * (8 if line_level else 1),
                     trace_files=line_files() if line_level else None)
    saved_random = mp.random
    mp.random = random.Random(rng.randrange(1 << 30))
    results = {}
    try:
        with S.Patched(sc):
            setup = Setup(kind, initq, sender_of, rng,
                          nsenders=sum(1 for ops in prog if any(op['op'] == 'send' for op in ops)))

            def body(t, ops):
                out = []
                for op in ops:
                    o = op['op']
                    lane = op.get('lane', 1)
                    if o == 'send':
                        msg = make_msg(op['m'], t)
                        sc.log(e='call', t=t, op='send', m=op['m'], lane=lane)
                        try:
                            setup.sendp[lane].send(msg)
                            r = ('ok', [])
                        except S.Hang:
                            r = ('raise:Hang', [])
                        except Exception as e:
                            r = ('raise:' + type(e).__name__, [])
                        # the caller may modify its message after send()
                        try:
                            if op['m'] == RT_ID:
                                msg.time = 99
                            else:
                                if msg.type == 'note_on':
                                    msg.note = 127
                                else:
                                    msg.program = 127
                                msg.channel = 15
                        except Exception:
                            pass
                    elif o == 'close':
                        sc.log(e='call', t=t, op='close', m=0, lane=0)
                        try:
                            setup.recvp.close()
                            r = ('ok', [])
                        except S.Hang:
                            r = ('raise:Hang', [])
                        except Exception as e:
                            r = ('raise:' + type(e).__name__, [])
                    else:
                        sc.log(e='call', t=t, op={'poll': 'poll', 'recv': 'receive',
                                                  'iterp': 'iterp'}[o], m=0, lane=0)
                        try:
            # what a receiver was given is its own: it stamps / transposes it at once
                            if o == 'poll':
                                m = setup.recvp.poll()
                                r = ('none', []) if m is None else ('msg', [msg_id(m, sender_of)])
                                _scribble(m)
                            elif o == 'recv':
                                m = setup.recvp.receive()
                                r = ('none', []) if m is None else ('msg', [msg_id(m, sender_of)])
                                _scribble(m)
                            else:
                                ids = []
                                for m in setup.recvp.iter_pending():
                                    ids.append(msg_id(m, sender_of))
                                    _scribble(m)
                                r = ('list', ids)
                        except S.Hang:
                            r = ('raise:Hang', [])
                        except Exception as e:
                            r = ('raise:' + type(e).__name__, [])
                    sc.log(e='ret', t=t, k=r[0], v=r[1])
                    out.append({'k': r[0], 'v': r[1]})
                    if r[0] == 'raise:Hang':
                        break
                return out

            for ti, ops in enumerate(prog):
                sc.spawn(ti + 1, (lambda t=ti + 1, ops=ops: body(t, ops)))
            div = 0
            started = set()

            def start_only(t):
                if t not in started:
                    started.add(t)
                    sc.step(t)

            stuck = None      # a thread entered a real blocking call the scheduler knows nothing of
            choices = []
            try:
                choices = []      # (chosen, runnable, awake, last) per step, when record=True
                last = None
                if record:
                    for t in list(sc.ts):
                        start_only(t)
                if schedule is not None:
                    for i, t in enumerate(schedule):
                        start_only(t)
                        if record:
                            run = sc.runnable()
                            if t not in run:
                                div += 1
                                break
                            awake = [x for x in run if sc.ts[x].pending[0] != 'sleep']
                            choices.append((t, tuple(run), tuple(awake), last))
                            last = t
                        if not sc.enabled(t):
                            div += 1
                            continue
                        performed = sc.step(t)
                        if labels is not None and LABEL_KIND.get(labels[i]) != performed:
                            div += 1
                # fallback / policy phase
                prio = {t: rng.random() for t in sc.ts}
                guard = 0
                while not sc.all_done():
                    for t in list(sc.ts):
                        start_only(t)
                    run = sc.runnable()
                    if not run:
                        break
                    guard += 1
                    if guard > budget * (len(sc.ts) + 1):
                        break
                    # a thread about to sleep() lets the others run first
                    awake = [t for t in run if sc.ts[t].pending[0] != 'sleep']
                    if awake:
                        run = awake
                    if record:
                        choices.append((None, tuple(sc.runnable()), tuple(awake), last))
                    if policy == 'stay':
                        t = last if last in run else run[0]
                    elif policy == 'random':
                        t = rng.choice(run)
                    elif policy == 'pct':
                        t = max(run, key=lambda x: prio[x])
                        if rng.random() < 0.08:
                            prio[t] = -rng.random()       # priority change point
                    else:
                        t = run[0]
                    if record:
                        choices[-1] = (t,) + choices[-1][1:]
                    last = t
                    sc.step(t)
            except S.SchedulerError as e:
                stuck = str(e)
            hung = [t for t, st in sc.ts.items() if not st.done]
            if stuck:
                hung = hung or list(sc.ts)
            for t, st in sc.ts.items():
                if st.done and st.exc is not None and not isinstance(st.exc, S.Hang):
                    raise st.exc
                results[t] = st.result if st.done else None
            # when every thread has finished, whatever is still in the port (queue,
            # device wire, member ports) is drained: nothing may be lost or doubled
            final_q = setup.final_queue(sender_of) if kind != 'pqueue' else None
            drained = None
            if not hung and not stuck:
                try:
                    drained = [msg_id(m, sender_of) for m in setup.recvp.iter_pending()]
                except Exception as e:
                    drained = ['raised ' + type(e).__name__]
            if final_q is None:
                final_q = setup.final_queue(sender_of)
            lanes0 = [[m for m in initq]] + [[] for _ in range(setup.nlanes - 1)]
            setup.close()
    finally:
        mp.random = saved_random
    header = {'e': 'init', 'lanes': lanes0, 'threads': len(prog)}
    events = [header] + sorted(sc.events, key=lambda e: e['seq'])
    for e in events:
        e.pop('seq', None)
    sent = sorted(op['m'] for ops in prog for op in ops if op['op'] == 'send') + sorted(initq)
    return {'results': results, 'events': events, 'final_q': final_q, 'divergences': div,
            'hung': hung, 'optrace': sc.trace, 'drained': drained, 'sent': sorted(sent),
            'choices': choices, 'releases': sorted(setup.releases.values())}


def direct_verdict(run):
    """Property-level facts that need no linearization search."""
    for e in run['events']:
        if e.get('e') == 'ret' and e['k'].startswith('raise'):
            return 'raises/' + e['k'][6:], 'thread %d: call raised %s' % (e['t'], e['k'][6:])
    if run['hung']:
        return 'hang', 'threads %r never finished' % (run['hung'],)
    got = []
    for e in run['events']:
        if e.get('e') == 'ret' and e['k'] in ('msg', 'list'):
            got += e['v']
    rest = run.get('drained')
    if rest is not None:
        allgot = got + rest
        if any(not isinstance(x, int) or x >= 900 for x in allgot):
            return 'corrupt-message', 'received %r, drained afterwards %r' % (got, rest)
        if sorted(allgot) != run['sent']:
            return ('lost-or-duplicated', 'sent %r; received %r and drained afterwards %r' % (
                run['sent'], got, rest))
    return None


def explore(kind, initq, prog, max_preempt=2, limit=4000, seed=0, judge=None, line_level=False, budget=400,
            shard=(0, 1)):
    """Systematic exploration of the schedules of one program on the REAL port
    code with at most max_preempt preemptions (iterative context bounding by
    re-execution: every run is deterministic given its schedule prefix; after
    the prefix the current thread keeps running while it can).  Calls
    judge(run, schedule) for every run; stops at `limit` runs.
    shard=(i, n): only the i-th of n parts of the root's subtrees (the root run
    itself is judged by shard 0 only).
    Returns (runs, complete)."""
    stack = [([], 0)]
    runs = 0
    nchild = 0
    while stack:
        if runs >= limit:
            return runs, False
        prefix, used = stack.pop()
        run = run_program(kind, initq, prog, schedule=prefix, rng=random.Random(seed), policy='stay',
                          record=True, line_level=line_level, budget=budget)
        runs += 1
        ch = run['choices']
        sched = [c[0] for c in ch]
        run['schedule'] = sched
        if judge is not None and (prefix or shard[0] == 0):
            judge(run, sched)
        if run['divergences']:
            continue
        for i in range(len(prefix), len(ch)):
            chosen, runnable, awake, last = ch[i]
            for alt in runnable:
                if alt == chosen:
                    continue
                # leaving a thread that could go on, or waking a sleeper early, costs one
                cost = 1 if (last in awake or (awake and alt not in awake)) else 0
                if used + cost <= max_preempt:
                    if not prefix:
                        nchild += 1
                        if nchild % shard[1] != shard[0]:
                            continue
                    stack.append((sched[:i] + [alt], used + cost))
    return runs, True
