"""Core machinery: TLC runner, evidence / replay writers, known findings,
check context.  Standard library only."""
import atexit
import hashlib
import json
import os
import re
import shutil
import subprocess
import sys
import time

from . import tlaval

VERIF = os.path.dirname(os.path.dirname(os.path.abspath(__file__)))
REPO = os.environ.get('VERIF_REPO', '/repo')
SPECS = os.path.join(VERIF, 'specs')
WORK_ROOT = os.path.join(VERIF, '.work')
TLA_JAR = '/opt/veriftools/tla/tla2tools.jar'
TLA_CP = TLA_JAR + ':/opt/veriftools/tla/CommunityModules-deps.jar'
NCPU = os.cpu_count() or 4


class Machinery(Exception):
    """Failure of the verification machinery itself (exit code 2)."""


def import_mido():
    """Import mido from REPO's working tree (never from site-packages)."""
    if REPO not in sys.path:
        sys.path.insert(0, REPO)
    import mido
    here = os.path.realpath(mido.__file__)
    if not here.startswith(os.path.realpath(REPO) + os.sep):
        raise Machinery('mido imported from %s, not from %s' % (here, REPO))
    return mido


# ---------------------------------------------------------------- stirring

_LIVE = []


def stir():
    """Exercise failing and half-finished operations of every feature before a
    batch of conformance work.  Nothing is judged here: the point is that each
    property must hold *whatever the library did earlier in the process*, so
    state that leaks out of a failed load, an abandoned iteration, another live
    parser, ... shows up as a disagreement with the specification in the rows
    that follow.  Everything used here is thrown away (or kept alive, unused,
    in _LIVE)."""
    import io
    mido = import_mido()

    def quiet(f):
        try:
            return f()
        except Exception:
            return None

    M = mido.Message
    # decoding order: one-byte system messages first, then the others
    for b in ([0xf6], [0xf8], [0xf3, 5], [0xf2, 1, 2], [0xf1, 0x35], [0x90, 1, 2], [0xf0, 1, 0xf7]):
        quiet(lambda: M.from_bytes(b))
    for b in ([0x90, 200, 1], [0x90, 1], [], [0xf0, 0x80, 0xf7], [0xf7], [0x20]):
        quiet(lambda: M.from_bytes(b))
    quiet(lambda: M('note_on', note=300))
    quiet(lambda: M('nonesuch'))
    quiet(lambda: M('note_on').copy(type='note_off', bogus=1))
    quiet(lambda: M.from_str('note_on channel=99'))
    quiet(lambda: mido.MetaMessage('set_tempo', tempo=-1))
    quiet(lambda: mido.MetaMessage('key_signature', key='H'))
    quiet(lambda: mido.parse_all([0x90, 1]))
    # live, undrained parsers and tokenizers
    if len(_LIVE) < 4:
        def live():
            from mido.tokenizer import Tokenizer
            p = mido.Parser()
            p.feed([0xf8, 0x91, 7])
            t = Tokenizer()
            t.feed([0xfa, 0xb2, 3])
            _LIVE.extend([p, t])
        quiet(live)
    # files: failed loads, failed saves, abandoned iterations
    hdr = b'MThd\x00\x00\x00\x06\x00\x01\x00\x01\x01\xe0'
    trk = b'\x00\x90\x3c\x40\x00\xff\x01\x01a\x00\xff\x2f\x00'
    good = hdr + b'MTrk' + len(trk).to_bytes(4, 'big') + trk
    bad = hdr + b'MTrk\x00\x00\x00\x08\x00\x90\x3c\xc8\x00\xff\x2f\x00'
    quiet(lambda: mido.MidiFile(file=io.BytesIO(good[:-3])))
    quiet(lambda: mido.MidiFile(file=io.BytesIO(bad)))
    quiet(lambda: mido.MidiFile(file=io.BytesIO(bad), clip=True))
    quiet(lambda: mido.MidiFile(file=io.BytesIO(b'RIFF' + good)))
    quiet(lambda: mido.MidiFile(file=io.BytesIO(good), charset='no-such-charset'))
    quiet(lambda: mido.MidiFile(file=io.BytesIO(good), charset='utf-16'))

    def failed_saves():
        for t in ([M('note_on', time=0.5)], [M('note_on', time=-1)],
                  [mido.MetaMessage('text', text='\u65e5')], [M('clock')]):
            mid = mido.MidiFile(charset='ascii')
            mid.tracks.append(mido.MidiTrack(t))
            quiet(lambda: mid.save(file=io.BytesIO()))
    quiet(failed_saves)

    def abandoned():
        mid = mido.MidiFile(file=io.BytesIO(good))
        it = iter(mid)
        next(it)
        pl = mid.play()
        next(pl)
        mg = iter(mido.merge_tracks(mid.tracks))
        next(mg)
        return len(mid), mid.length
    quiet(abandoned)


def scribble(x):
    """Overwrite a RESULT the library handed out (a message, a list of them, the list
    returned by bytes(), a dict): results belong to the caller, so nothing the
    library does later may depend on them.  Never raises."""
    try:
        if isinstance(x, (list, tuple)) and x and not isinstance(x[0], int):
            for y in x:
                scribble(y)
            return
        if isinstance(x, bytearray) or (isinstance(x, list) and (not x or isinstance(x[0], int))):
            for i in range(len(x)):
                x[i] = 0x55
            x.insert(0, 0x60)
            return
        if isinstance(x, dict):
            for k in list(x):
                x[k] = 99999
            x['scribbled'] = 1
            return
        if hasattr(x, 'is_meta') or hasattr(x, 'bytes'):
            for name, val in (('time', 424242), ('channel', 13), ('note', 99), ('program', 99), ('control', 99),
                              ('value', 99), ('velocity', 99), ('pitch', 999), ('data', (0x55, 0x2a)), ('text', 'zz'),
                              ('name', 'zz'), ('tempo', 424242)):
                if name in vars(x):
                    try:
                        setattr(x, name, val)
                    except Exception:
                        pass
    except Exception:
        pass


def _stirred(worker, batch):
    stir()
    return worker(batch)


# ---------------------------------------------------------------- scratch

_scratch_dirs = []
_scratch_lock = __import__('threading').Lock()
_scratch_n = __import__('itertools').count()


def scratch(tag='w'):
    os.makedirs(WORK_ROOT, exist_ok=True)
    with _scratch_lock:
        d = os.path.join(WORK_ROOT, '%s-%d-%d' % (tag, os.getpid(), next(_scratch_n)))
        if os.path.exists(d):
            shutil.rmtree(d, ignore_errors=True)
        os.makedirs(d, exist_ok=True)
        _scratch_dirs.append((os.getpid(), d))
    return d


def _cleanup():
    for pid, d in _scratch_dirs:
        if pid == os.getpid():
            shutil.rmtree(d, ignore_errors=True)
    try:
        if os.path.isdir(WORK_ROOT) and not os.listdir(WORK_ROOT):
            os.rmdir(WORK_ROOT)
    except OSError:
        pass


atexit.register(_cleanup)


# ---------------------------------------------------------------- TLC

_RE_STATES = re.compile(r'^(\d+) states generated, (\d+) distinct states found, (\d+) states left on queue')
_RE_DEPTH = re.compile(r'^The depth of the complete state graph search is (\d+)')
_RE_INIT = re.compile(r'^Finished computing initial states: (\d+) distinct state')
_RE_SIM = re.compile(r'^The number of states generated: (\d+)')
_RE_COV = re.compile(r'^<(\w+) line (\d+), col \d+ to line \d+, col \d+ of module (\w+)>: (\d+):(\d+)')


class TlcResult:
    def __init__(self):
        self.generated = 0
        self.distinct = 0
        self.depth = 0
        self.init_states = 0
        self.ok = False
        self.error = None          # text of first "Error:" block
        self.error_lines = []
        self.emits = 0
        self.wall_s = 0.0
        self.coverage = {}         # action -> (distinct, generated)
        self.printed = []          # other PrintT lines (non-EMIT), parsed
        self.raw_tail = []
        self.module = None

    def as_dict(self):
        return dict(module=self.module, generated=self.generated, distinct=self.distinct,
                    depth=self.depth, init_states=self.init_states, emits=self.emits,
                    wall_s=round(self.wall_s, 2), ok=self.ok,
                    coverage={k: list(v) for k, v in self.coverage.items()})


def run_tlc(module, cfg, *, workers=None, timeout=900, on_emit=None, on_print=None,
            simulate=None, depth=None, seed=None, coverage=False, env=None,
            raw_ints=False, heap='8g', expect_error=False, extra_files=None,
            dfs=False):
    """Run TLC on specs/<module>.tla with the given cfg text.

    Lines printed with PrintT(ToString(<<"EMIT", ...>>)) are parsed and passed
    to on_emit(value_list_without_tag).  With raw_ints=True the line is not
    parsed generically: on_emit receives the raw text after the tag (fast
    path for rows of integers).  Other quoted PrintT lines go to on_print.
    Returns TlcResult; raises Machinery on TLC crash / timeout / parse error,
    unless expect_error (then .error holds the message).
    """
    work = scratch('tlc')
    for fn in os.listdir(SPECS):
        if fn.endswith('.tla'):
            os.symlink(os.path.join(SPECS, fn), os.path.join(work, fn))
    for name, text in (extra_files or {}).items():
        with open(os.path.join(work, name), 'w') as f:
            f.write(text)
    cfg_path = os.path.join(work, module + '_run.cfg')
    with open(cfg_path, 'w') as f:
        f.write(cfg)
    if workers is None:
        workers = NCPU
    # (TLC leaves an empty tlc-* directory per run in java.io.tmpdir: keep it inside the scratch
    # directory, which is removed with the run)
    jtmp = os.path.join(work, 'jtmp')
    os.makedirs(jtmp, exist_ok=True)
    cmd = ['java', '-XX:+UseParallelGC', '-Xmx' + heap, '-Xss16m', '-Djava.io.tmpdir=' + jtmp]
    if dfs:
        cmd.append('-Dtlc2.tool.queue.IStateQueue=StateDeque')
    cmd += ['-cp', TLA_CP, 'tlc2.TLC', '-workers', str(workers),
            '-metadir', os.path.join(work, 'meta'), '-noGenerateSpecTE',
            '-config', cfg_path]
    if simulate is not None:
        # TLC counts num per worker
        cmd += ['-simulate', 'num=%d' % max(1, -(-simulate // int(workers)))]
        if depth:
            cmd += ['-depth', str(depth)]
    if seed is not None:
        cmd += ['-seed', str(seed)]
    if coverage:
        cmd += ['-coverage', '1']
    cmd.append(module)
    e = dict(os.environ)
    e.pop('JAVA_TOOL_OPTIONS', None)
    if env:
        e.update(env)
    res = TlcResult()
    res.module = module
    t0 = time.time()
    proc = subprocess.Popen(cmd, cwd=work, stdout=subprocess.PIPE, stderr=subprocess.STDOUT,
                            env=e, text=True, bufsize=1 << 20)
    seen_err = False
    try:
        for line in proc.stdout:
            if time.time() - t0 > timeout:
                proc.kill()
                raise Machinery('TLC timeout after %ds on %s' % (timeout, module))
            if line.startswith('"<<\\"EMIT\\"'):
                res.emits += 1
                if on_emit is not None:
                    if raw_ints:
                        on_emit(line)
                    else:
                        val = tlaval.parse(json.loads(line))
                        on_emit(val[1:])
                continue
            line = line.rstrip('\n')
            if line.startswith('"') and line.endswith('"') and len(line) > 1:
                try:
                    val = tlaval.parse(json.loads(line))
                except Exception:
                    val = line
                res.printed.append(val)
                if on_print is not None:
                    on_print(val)
                continue
            res.raw_tail.append(line)
            if len(res.raw_tail) > 400:
                del res.raw_tail[:200]
            m = _RE_STATES.match(line)
            if m:
                res.generated, res.distinct = int(m.group(1)), int(m.group(2))
                continue
            m = _RE_DEPTH.match(line)
            if m:
                res.depth = int(m.group(1))
                continue
            m = _RE_INIT.match(line)
            if m:
                res.init_states = int(m.group(1))
                continue
            m = _RE_SIM.match(line)
            if m:
                res.generated = max(res.generated, int(m.group(1)))
                continue
            m = _RE_COV.match(line)
            if m:
                res.coverage[m.group(1)] = (int(m.group(4)), int(m.group(5)))
                continue
            if line.startswith('Error:') or seen_err:
                if not seen_err:
                    res.error = line
                seen_err = True
                res.error_lines.append(line)
                if len(res.error_lines) > 200:
                    seen_err = False
            if line.startswith('Model checking completed. No error has been found'):
                res.ok = True
        rc = proc.wait()
    finally:
        if proc.poll() is None:
            proc.kill()
        proc.stdout.close()
        shutil.rmtree(work, ignore_errors=True)
    res.wall_s = time.time() - t0
    if simulate is not None and res.error is None and rc == 0:
        res.ok = True
    if res.error is not None:
        res.ok = False
    if not res.ok and not expect_error:
        raise Machinery('TLC failed on %s (rc=%s): %s\n%s' % (
            module, rc, res.error, '\n'.join((res.error_lines or res.raw_tail)[-40:])))
    return res


def ints_of(line):
    """Fast path: all integers of an EMIT line (raw text)."""
    return [int(x) for x in re.findall(r'-?\d+', line)]


# ---------------------------------------------------------------- known findings

def load_known():
    path = os.path.join(VERIF, 'known_findings.json')
    if not os.path.exists(path):
        return []
    with open(path) as f:
        return json.load(f)['findings']


# ---------------------------------------------------------------- context

class Ctx:
    """Per-run bookkeeping for one property check."""

    MAX_REPLAYS = 8

    def __init__(self, pid, tier, seed):
        self.pid = pid
        self.tier = tier
        self.seed = seed
        self.t0 = time.time()
        self.states = 0
        self.transitions = 0
        self.replayed = 0          # behaviours replayed into the implementation
        self.validated = 0         # implementation traces validated by TLC
        self.samples = []
        self.tlc_runs = []
        self.violations = []       # (key, path)
        self.violation_keys = {}
        self.known_hit = {}
        self.notes = {}
        self.assumptions = []
        self.exhaustive = None
        self.constants = {}
        self.observations = []
        self._known = [k for k in load_known()
                       if k['property'] == pid and k['status'] == 'known']
        self.level = 'model_checking'

    # -- accounting
    def add_tlc(self, res, label=None):
        self.states += res.distinct
        self.transitions += res.generated
        d = res.as_dict()
        if label:
            d['label'] = label
        self.tlc_runs.append(d)
        return res

    def sample(self, obj, limit=6):
        if len(self.samples) < limit:
            self.samples.append(obj)

    def note(self, key, value):
        self.notes[key] = value

    def count(self, key, n=1):
        self.notes[key] = self.notes.get(key, 0) + n

    # -- verdicts
    def _match_known(self, key):
        import fnmatch
        for k in self._known:
            if fnmatch.fnmatchcase(key, k['key']):
                return k
        return None

    def violation(self, key, case, msg):
        """Report a real execution contradicting the property.
        key: canonical signature (used for known-finding matching and dedup).
        case: JSON-serialisable replayable description. msg: human text."""
        k = self._match_known(key)
        if k is not None:
            ent = self.known_hit.setdefault(k['key'], {'what': k['what'], 'count': 0, 'example': case})
            ent['count'] += 1
            return False
        n = self.violation_keys.get(key, 0)
        self.violation_keys[key] = n + 1
        if n == 0 and len(self.violations) < self.MAX_REPLAYS:
            path = self._write_replay(key, case, msg)
            self.violations.append((key, path, msg))
            if not getattr(self, 'quiet', False):
                print('VIOLATION property=%s replay=%s' % (self.pid, path), flush=True)
                print('  key=%s: %s' % (key, msg), flush=True)
        return True

    def _write_replay(self, key, case, msg):
        d = os.path.join(os.environ.get('VERIF_REPLAY_DIR') or os.path.join(VERIF, 'replays'), self.pid)
        os.makedirs(d, exist_ok=True)
        body = {'property': self.pid, 'key': key, 'msg': msg, 'seed': self.seed,
                'tier': self.tier, 'case': case}
        text = json.dumps(body, indent=1, sort_keys=True, default=repr)
        h = hashlib.sha1(json.dumps([key, case], sort_keys=True, default=repr).encode()).hexdigest()[:12]
        path = os.path.join(d, h + '.json')
        with open(path, 'w') as f:
            f.write(text)
        return path

    @property
    def n_violations(self):
        return sum(self.violation_keys.values())

    # -- evidence
    def finish(self):
        for key, ent in self.known_hit.items():
            print('KNOWN-FINDING: property=%s %s [%s, %d cases]' % (
                self.pid, ent['what'], key, ent['count']), flush=True)
        cov = {
            'states': max(self.states, 0),
            'transitions': max(self.transitions, 0),
            'traces_validated_against_impl': self.replayed + self.validated,
            'replayed_behaviours': self.replayed,
            'validated_traces': self.validated,
            'samples': self.samples or ['(none)'],
            'tlc_runs': self.tlc_runs,
            'constants': self.constants,
            'counts': self.notes,
            'violation_keys': self.violation_keys,
            'known_findings_hit': {k: v['count'] for k, v in self.known_hit.items()},
            'observations': self.observations[:40],
        }
        if self.exhaustive is not None:
            cov['exhaustive'] = bool(self.exhaustive)
        ev = {
            'property_id': self.pid,
            'tier': self.tier,
            'seed': self.seed,
            'level': self.level,
            'coverage': cov,
            'assumptions': self.assumptions,
            'wall_s': round(time.time() - self.t0, 2),
            'violations': self.n_violations,
        }
        evdir = os.environ.get('VERIF_EVIDENCE_DIR') or os.path.join(VERIF, 'evidence')
        os.makedirs(evdir, exist_ok=True)
        path = os.path.join(evdir, self.pid + '.json')
        tmp = path + '.tmp'
        with open(tmp, 'w') as f:
            json.dump(ev, f, indent=1, sort_keys=True, default=repr)
        os.replace(tmp, path)
        return 1 if self.violation_keys else 0


def chunks(seq, n):
    for i in range(0, len(seq), n):
        yield seq[i:i + n]


# ---------------------------------------------------------------- parallel replay

import threading as _thr
_COLLECT_LOCK = _thr.RLock()


class ParallelReplay:
    """Feed batches of emitted rows to worker processes while TLC is running.

    worker(batch) must be a module-level function returning a dict
      {'n': int, 'viol': [(key, case, msg), ...], 'counts': {k: int}, 'samples': [...]}
    """

    def __init__(self, ctx, worker, batch_size=4000, procs=None, initializer=None, initargs=()):
        import multiprocessing as mp
        self.ctx = ctx
        self.worker = worker
        self.batch_size = batch_size
        self.pool = mp.get_context('fork').Pool(procs or NCPU, initializer=initializer,
                                                initargs=initargs)
        self.batch = []
        self.pending = []
        self.n = 0
        self.batch_timeout = 3600

    def push(self, row):
        self.batch.append(row)
        if len(self.batch) >= self.batch_size:
            self.flush()

    def flush(self):
        if self.batch:
            self.pending.append(self.pool.apply_async(_stirred, (self.worker, self.batch)))
            self.batch = []
            while len(self.pending) > 4 * NCPU:
                self._collect(self.pending.pop(0))

    def _collect(self, ar):
        r = ar.get(timeout=self.batch_timeout)
        with _COLLECT_LOCK:
            self._account(r)

    def _account(self, r):
        self.n += r.get('n', 0)
        self.ctx.replayed += r.get('n', 0)
        for key, case, msg in r.get('viol', []):
            self.ctx.violation(key, case, msg)
        for k, v in r.get('counts', {}).items():
            self.ctx.count(k, v)
        for s in r.get('samples', []):
            self.ctx.sample(s)
        for o in r.get('obs', []):
            if len(self.ctx.observations) < 40 and o not in self.ctx.observations:
                self.ctx.observations.append(o)

    def finish(self):
        self.flush()
        try:
            for ar in self.pending:
                self._collect(ar)
        finally:
            self.pending = []
            self.pool.close()
            self.pool.join()
        return self.n

    def map(self, items):
        """Convenience: run worker over pre-built batches (no TLC stream)."""
        for it in items:
            self.pending.append(self.pool.apply_async(_stirred, (self.worker, it)))
        return self.finish()


# ---------------------------------------------------------------- trace batches

TRACE_CFG = """SPECIFICATION Spec
CONSTRAINT Note
POSTCONDITION Post
CHECK_DEADLOCK FALSE
"""


def validate_batch(ctx, module, traces, label=None, timeout=900, extra_cfg='', dfs=False):
    """Validate a list of traces (each a list of event dicts) with the trace
    specification `module` (batch idiom: tid, l, TLCSet registers).
    Returns list of (index0, furthest_line) for rejected traces."""
    if not traces:
        return []
    work = scratch('trace')
    path = os.path.join(work, 'traces.json')
    with open(path, 'w') as f:
        json.dump(traces, f, separators=(',', ':'))
    rejected = []

    def on_print(val):
        if isinstance(val, list) and val and val[0] == 'REJECTED':
            rejected.append((val[1] - 1, val[2]))
    res = run_tlc(module, TRACE_CFG + extra_cfg, workers=1, on_print=on_print,
                  env={'TRACE_FILE': path}, timeout=timeout, dfs=dfs)
    shutil.rmtree(work, ignore_errors=True)
    ctx.add_tlc(res, label or module)
    ctx.validated += len(traces)
    return rejected


def srepr(x, limit=300):
    """repr() that cannot fail (objects produced by a broken library may not
    even be printable)."""
    try:
        r = repr(x)
    except Exception as e:
        try:
            r = '<unprintable %s: vars=%r (repr raised %r)>' % (type(x).__name__, vars(x), e)
        except Exception:
            r = '<unprintable %s>' % type(x).__name__
    return r if len(r) <= limit else r[:limit] + '...'
