"""Regenerates MANIFEST.json from the table below:  /venv/bin/python -m vf.manifest"""
import json
import os

from .core import VERIF

BASELINE = ("cd /repo && env -u MIDO_VERIF /venv/bin/python -m pytest -ra -q -p no:cacheprovider "
            "--timeout=900 --continue-on-collection-errors")

CHECKS = {}


def chk(pid, technique, text, note, design):
    CHECKS[pid] = dict(technique=technique, text=text, note=note, design=design)


chk('C01', 'TLA+ wire definition (MidiWire) enumerated by TLC over the message domain; every row replayed into Message; random/long cases trace-validated by TLC',
    'TLC enumerates the message domain (thorough: the complete 1,331,463 non-sysex messages plus sysex <= 4 bytes; quick: all channels x 16 boundary data values, boundary pitch/pos), checks RoundTrip on the specification, and every emitted (message, bytes) row is executed on the real class (constructor, bytes/bin/hex/len, from_bytes on list/bytes/bytearray, from_hex, time pass-through). Random full-range messages and sysex up to 4096 bytes are logged from the real codec and validated by TLC against the same module.',
    'Trusted: specs/MidiWire.tla as the MIDI 1.0 layout; TLC; the row parser. time checked for 7 representative values.',
    'DESIGN.md 5/C01')
chk('C02', 'TLC enumeration of all strings over a byte-class alphabet with the total Decode function; rows replayed into from_bytes/from_hex; thorough adds the complete 256-ary space <= 3 against the TLC-emitted accepted set',
    'TLC enumerates every string of length <= 3 (thorough 4) over 26 symbols (byte-class representatives, -1, 256, non-integer) and lengths 5 (thorough 5-6) over 7 symbols, checks that Decode accepts exactly images of Encode, and each (verdict, string) row is fed to the real from_bytes/from_hex. Thorough additionally runs all 16.8 M byte strings of length 0..3 against the accepted set emitted by TLC.',
    'Trusted: MidiWire.Decode; accepted => bytes() reproduce the input; rejection must be ValueError (TypeError only for non-integer items).',
    'DESIGN.md 5/C02')

chk('C04', 'TLA+ tokenizer state machine (Tokenizer/TokStream) explored by TLC over all byte-class strings up to a bound with history invariants; every string replayed through the real parser; long random real traces validated by TLC (TokenizerTrace)',
    'TLC explores every string up to length 4 over 16 byte classes and 5 over 12 (thorough: 6 over 16, 17.9 M states), checking Total, AllYieldedValid, RealtimeExact, NoInvention on the specification; each string with its expected output is replayed through parse_all, Parser.feed/feed_byte/constructor and Tokenizer, also under a random class-preserving byte substitution. Random streams over all 256 byte values (3-10 kB each) are run through the real Parser with random chunking and validated per call by TLC.',
    'Trusted: Tokenizer.tla Step as the behaviour of the parser; bytes within a class are interchangeable (exercised by substitution).',
    'DESIGN.md 5/C04')
chk('C05', 'TLC exploration of all chunkings x retrieval interleavings (TokChunks) with the ChunkIndependence invariant; every call history replayed on real Parser and ParserQueue; long real traces validated by TLC',
    'For every stream of up to 2 (thorough 3, plus simulation with 4) items, TLC explores every way of feeding it in up to 3 chunks interleaved with up to 2 get_message/pending/iterate calls and checks out \\o queue = ParseAll(fed prefix) in every state; each complete history is replayed call by call on a real Parser (feed, feed_byte, bytes/list) and on ParserQueue, comparing every result.',
    'Trusted: Tokenizer.tla; ParserQueue replayed single-threaded.',
    'DESIGN.md 5/C05')
chk('C06', 'TLC invariant Resync evaluated in every reachable tokenizer state plus ConcatParsesBack / RealtimeInsideSysex (TokResync); every prefix and every (control state x message) replayed on the real parser',
    'Resync (any control state + Encode(M) yields exactly M) is checked by TLC in every state reached by strings up to length 4 (thorough 5) over 16 byte classes; each such prefix is replayed with 3 probe messages, and one witness prefix per distinct control state with a whole message domain (quick 343, thorough 17 370 messages). Concatenations of <= 3 messages and every placement of <= 5 (thorough 6) bytes from {data, real-time, undefined real-time} inside a sysex are enumerated by TLC and replayed; sysex payloads up to 64 bytes with real-time bytes at every offset are run on the real parser and trace-validated.',
    'Trusted: Tokenizer.tla; "all prefixes" is represented by all reachable control states.',
    'DESIGN.md 5/C06')

chk('C10', 'TLA+ model of ports.py at shared-access granularity (PortImpl) model-checked by TLC under a preemption bound; every schedule replayed on real threads with a deterministic scheduler; all Call/Return histories validated by TLC for linearizability against the property-level PortCore',
    'PortImpl (one action per lock/deque/wire/sleep access of send, receive, poll, iter_pending on EchoPort, a byte-wise lock-protected device port and the IOPort wrapper) is model-checked for 9 programs of 2-4 threads with <= 1-4 preemptions (thorough 3-6): NoRaise, AtMostOnce, ExactlyOnce, PerSenderFifo, MutualExclusion. Every complete schedule (plus the schedules of the original test-then-pop design) is replayed on real threads over the real port classes, comparing the access each thread announces with the specification label; the recorded Call/Return histories, and those of seeded random / priority-based schedules of larger random programs on all four port kinds (MultiPort included), are validated by TLC against PortCore with inferred linearization points. Copy semantics: the sender mutates its message right after send().',
    'Thread switches happen only at shared-state accesses (lock acquire/release, deque test/pop/append, wire byte read/write, sleep), not at arbitrary bytecodes. The device port is a harness double. Verdicts only at PortCore level; PortImpl divergence is counted.',
    'DESIGN.md 5/C10')

chk('C11', 'TLA+ sequential lifecycle machine with device scripts (PortLife, PortLifeMulti) enumerated by TLC; every call history replayed on the real port classes with a counting/budgeted sleep hook',
    'TLC enumerates every device script (items nothing / arrive / close-itself / arrive-then-close) of up to 2-3 items x every sequence of 3 (thorough 4-5) calls from send / receive / poll / iterate / iter_pending / close / context-manager exit, for a BaseIOPort, BaseInput and BaseOutput device double (autoreset on/off), EchoPort, the IOPort wrapper and a MultiPort over two devices (both member orders), checking CloseOnce, SendAfterCloseRaises, DrainBeforeStop, IterEndsCleanly, NonBlockingNeverWaits, ReturnsWhenDeliverable, Conservation. Each history is replayed on the real classes: result or exception class, number of sleep() calls, number of device polls per call, final queue, closed flag and the exact device log (32 reset messages once, then one _close; sent messages are copies).',
    'Device ports are doubles; blocking calls are only issued when the script lets them return; wrapper members do not close themselves; receive() on a closed drained port may raise ValueError or OSError.',
    'DESIGN.md 5/C11')

chk('C18', 'TLA+ model of peer writes / cut / receiver rounds over the Tokenizer (SocketLink) enumerated by TLC; every behaviour replayed on a real socketpair with the peer driven from the sleep hook; SocketAddr for the address codec',
    'TLC enumerates message sequences of <= 2 (thorough 3) messages (channel 3- and 2-byte, sysex, real-time) x every cut offset 0..total x every segmentation of the bytes before the cut, with the peer close falling in the same or a later receiver gap, x two consumption patterns (iteration; poll after each group then until closed), checking PrefixComplete, NeverMore, AllValid, ClosedAfterEof. Each behaviour is executed on socket.socketpair() wrapped in the real SocketPort; peer writes and close happen before the receiver starts or from the mido.ports.sleep hook. SocketAddr enumerates hosts x ports and malformed address strings for format/parse. Driver-level: peer sees EOF after port.close(); PortServer on loopback with two clients (receive and poll return, per-client order).',
    'AF_UNIX stream socketpair stands for the TCP connection; EOF wait bounded (1 s); server sub-check skipped (reported) if loopback bind fails.',
    'DESIGN.md 5/C18')

chk('C09', 'TLA+ definition of the SMF meta event layouts and VLQ (MetaWire, Vlq) enumerated by TLC over the documented attribute domains; every row replayed into MetaMessage / from_bytes / a track read; random messages trace-validated by TLC',
    'TLC enumerates the documented domains (quick: 1 038 sequence numbers, 10 byte values, all 256 denominator exponents, 30 keys, tempo/smpte limits, text/data/unknown-meta payloads of 0, 1, 127, 128, 129 bytes; thorough: all 65 536 sequence numbers, all 256 byte values, payloads up to 16 384 bytes), checks MetaRoundTrip (FF type minimal-VLQ-length payload, all bytes, decode(encode)=id) and emits accept rows and limit probes; each is replayed on the real classes (constructor / setattr / copy verdict, bytes(), from_bytes, a read through a one-event track with a non-zero delta). Ill-typed values and a 1 000 000-byte text are driver-level cases; 600 (thorough 3 000) random messages are logged from the real codec and validated by TLC (MetaTrace).',
    'Text is modelled as its encoded bytes and instantiated with latin1; known finding D6 (smpte hours 32..255) is listed in known_findings.json.',
    'DESIGN.md 5/C09')

chk('C12', 'TLA+ declarative Merge vs. implementation pipeline (TrackOps) checked by TLC over all small track lists; every (input, expected) row replayed on merge_tracks; random large inputs validated by TLC (MergeTrace)',
    'TLC enumerates every list of <= 2 tracks x <= 3 events (thorough also 3 x 2 and a fourth delta) with deltas {0,1,2} and end_of_track absent / repeated / mid-track, checks that the abs-time / stable-sort / rel-time / end_of_track-folding pipeline equals the declarative merge (order by absolute tick, track, position; one trailing end_of_track; duration of the longest track) and emits every (tracks, expected) pair; each is merged by the real merge_tracks with and without skip_checks, on MidiTrack and plain lists, and through MidiFile.merged_track, and the inputs are compared with snapshots. 120 (thorough 400) random inputs of up to 6 tracks x 40 events with deltas up to 10^6 are merged by the real code and validated by TLC.',
    'Message content is represented by distinct note_on messages.',
    'DESIGN.md 5/C12')

chk('C07', 'TLA+ SMF byte-level specification (SmfWire: canonical writer + reference decoder) with TLC enumerating abstract files and byte mutants; each file saved/loaded by the real MidiFile and compared with the specified normal form; random files validated by TLC through the reference decoder',
    'TLC enumerates one-track files over 13 (thorough 16) event kinds x deltas {0,1,128} up to 2 (thorough 3) events, every VLQ size boundary as delta, track counts 0-3 x types 0/1/2 x ticks_per_beat 1/480/32767, and contents that cannot be stored (real-time message, negative / non-integer time, type 0 with another track count), checking RefRead(CanonWrite(f)) = NormalizeFile(f) with all conformance flags; each file is built from real messages, saved, loaded and compared with the normal form (type, tpb, track count, messages and deltas, single trailing end_of_track), unstorable contents must raise ValueError. About 1 900 byte mutants (every offset x 10 values, truncation at every offset) of 5 canonical files are fed to the real loader and the accepted ones checked for the load-save-load fixed point. 100 (thorough 400) random files of 1-4 tracks x up to 30 events with payloads up to 300 bytes are saved by the real code and the bytes validated by TLC with the reference decoder.',
    'Fixed point read up to end_of_track folding; storability judged on the normal form; known findings D22/D23 listed in known_findings.json.',
    'DESIGN.md 5/C07')
chk('C08', 'independent TLA+ reference SMF decoder (SmfWire.RefRead) validating the bytes of the real save(); TLA+ encoder of all legal alternative encodings (SmfEnc) enumerated by TLC and loaded by the real reader with clip/debug on and off',
    'Write direction: the real save() runs on ~5 500 TLC-enumerated files and 60 (thorough 300) random files; TLC validates every byte string with the reference decoder: exact chunk lengths, minimal VLQs, running status only directly after a channel event of equal status, F0 len data F7, FF 2F 00 last, and decoded events = normal form of the in-memory file. Read direction: TLC enumerates every legal encoding of every list of <= 2 events (thorough also 3) over 13 kinds - running status used or not wherever legal, 0-1 (thorough 2) padding bytes on every delta and length VLQ, header chunk length 6/7/9 - 72 000 encodings in quick, checks them against the reference decoder and each is loaded by the real MidiFile with clip x debug; 1 500 corrupted encodings (one data byte raised above 127) must raise without clip and read as 127 with clip.',
    'System common events are treated as storable events that cancel running status; byte equality with the canonical writer is not required.',
    'DESIGN.md 5/C08')

chk('C13', 'TLA+ exact-arithmetic model of the tempo map and of the play() scheduler against a virtual clock (Playback), enumerated by TLC over files x consumer-delay patterns; every behaviour replayed on the real MidiFile with a fake clock',
    'TLC enumerates files of <= 2 tracks x <= 2 events (thorough up to 4 events) with deltas {0,1,3}, set_tempo (1, 250000, 16777215 us/beat) at every position, non-tempo meta messages and end_of_track anywhere, checks that the iteration deltas sum to the tempo-map integral, and for play() all consumer-delay patterns over {0, small, larger than any gap} x meta_messages on/off with NeverEarly and NoDrift; each row is replayed for ticks_per_beat 1 / 480 / 32767: iteration order and times, length, play() yield times and sleep amounts on a virtual clock, compared with exact rationals. Type 2 files must refuse length, iteration and play. tick2second/second2tick inverse: 3 360 (thorough 20 360) grid/random points, driver-level.',
    'Float results compared with exact rationals within 1e-9 relative; the unit-conversion clause is not decided by the specification (no floats in TLA+).',
    'DESIGN.md 5/C13')

chk('C16', 'TLA+ state machine of edits and observations of one MidiFile (MidiFileObj) with the property as a state predicate; TLC demonstrates the stale-memo design violates it; every history (repaired design) replayed on one real MidiFile and compared with a freshly built file',
    'TLC explores every history of 4 (thorough 5; 6 over a reduced alphabet) operations from add_track, tracks.append, del tracks[i], track append/insert/delete, message time assignment, ticks_per_beat / type assignment, iterate, length, merged_track, play, save. With the original caching rule (Memo = stale) TLC must produce a counterexample to ObservationIsFunctionOfContents (checked on every run); with the repaired rule the invariant holds and every history ending in an observation is replayed on ONE real MidiFile: after each step the live contents equal the specification state, and each observation equals both the specification value and the same observation on a freshly built MidiFile with identical contents (type 2 must refuse).',
    'Messages are note_on / set_tempo (every third id) so that times depend on contents; play on a virtual clock.',
    'DESIGN.md 5/C16')
chk('C17', 'TLA+ model of the scoped process-wide charset with fault actions (CharsetScope); TLC demonstrates the unscoped design leaks; every (call, charset, fault kind, fault position) behaviour concretised and executed on the real MidiFile, observing meta text elsewhere afterwards',
    'TLC enumerates {load, save} x 5 charsets (latin1, utf-8, cp1252, shift_jis, utf-16) x fault kind (truncation, invalid data byte, undecodable text, unknown charset; non-integer time, unencodable text, real-time message, unknown charset) x fault position (header or each of 3 events; truncation additionally at every byte offset of that event), thorough also all pairs of consecutive calls, with invariants ScopedCharset and InForceDuringCall; the design without try/finally must violate ScopedCharset (checked on every run). Each behaviour is executed on the real MidiFile; after every call, succeeded or raised, a text meta message is encoded and decoded elsewhere and must use latin1; successful calls must contain text.encode(charset) and reload to the same text.',
    "Python's codecs instantiate the encoding function; faults that cannot occur for a charset degenerate to success.",
    'DESIGN.md 5/C17')

chk('C03', 'TLA+ message-object model with documented ranges (MsgDomain/MsgObj): TLC takes one action of the checked API from EVERY valid boundary state of every type and emits every transition; each replayed on the real Message; simulated long histories on one object (MsgObjHist)',
    'For all 18 types TLC starts from every valid state over the range limits (and int/float time) and applies every entry point - attribute assignment, deletion, copy with one or two overrides, constructor, from_dict, from_str, copy(type=...), sysex data += - with every probe value (both limits, one inside, one and 1000 beyond, float 0.5 and 1.0, str, None, sequences with in- and out-of-range items) and with names the type does not have (122 882 transitions), checking AllValid, TypeStable, RejectIsNoOp. Each transition is executed on the real class: accepted => attribute dictionary equals the specified post-state (values and Python types), result is a new object for copy; rejected => ValueError/TypeError/AttributeError and the original unchanged. tlc -simulate adds ~10 000 (thorough ~100 000) 12-step histories of mixed accepted/rejected assignments on one object.',
    'bool values and generators are not probed; unknown type in the constructor is left to C14.',
    'DESIGN.md 5/C03')

chk('C15', 'TLA+ heap of message objects (MsgHeap) with Isolation / FrozenNeverChanges as action properties, explored by TLC over all operation histories; each history replayed on real objects comparing EVERY live object with the specified heap after every step',
    'TLC explores every history of 3 operations over all four classes (Message, MetaMessage set_tempo, MetaMessage sequencer_specific, UnknownMetaMessage) and of 4 operations per single class (thorough: 4 operations over all classes, 667 000 histories, plus simulated depth-10 histories) from new, copy (no override / valid / invalid value / time), freeze, thaw, attribute assignment (valid, invalid, on frozen objects), hashing two frozen objects and freeze/thaw of None, on a heap of up to 3 objects. The driver keeps index -> real object and after every step compares class, frozen-ness and attributes of every live object with the specification heap (aliasing is a change in an object the action did not name); it also checks identity (copy/thaw return new objects, freezing a frozen message returns it), equality, that copy with overrides behaves exactly like constructing the class afresh, equal frozen messages hash equal and collide as dictionary keys, and None maps to None.',
    'Value domain {1, 2, one out-of-range value} per class.',
    'DESIGN.md 5/C15')

chk('C14', 'TLA+ token-level grammar of message text with a total Parse and the documented Render, and a fold model of parse_string_stream (MsgText), enumerated by TLC; rows replayed on parse_string / from_str / parse_string_stream; round-trip relations evaluated on specification-generated objects',
    'TLC enumerates 7 type words x all lists of <= 2 distinct tokens from 22 (valid values, out-of-range, non-numbers, missing "=", unknown attribute, data with missing parentheses / bad items / no parentheses) with the Parse verdict; the documented format of every valid boundary state of all 18 types with Parse(Render(m)) = m; and every stream of <= 3 (thorough 4) lines over 12 line classes (valid, with comment, blank, comment only, whitespace only, unknown type, missing "=", bad number, unknown attribute, bad data syntax, out of range, indented) with the expected (message | None + line number) sequence. Rows are replayed on the real functions (ValueError required for every invalid text). from_str(str(m)), from_dict(m.dict()), eval(repr(m)) are evaluated on the WireMsgs message domain x 8 time tokens (int, negative, float, 1e-05, 10**30), eval(repr(x)) on the MetaCheck meta-message domain and on the tracks (length 0, 1, 2+) and files of SmfFiles.',
    'Relations over real objects are evaluated by the driver; MidiFile compared structurally; duplicated attributes not generated.',
    'DESIGN.md 5/C14')

chk('C19', 'TLA+ model of SYX write/read through the Tokenizer (SyxFile) enumerated by TLC over message lists x formats x whitespace layouts x malformed-text classes; every case written/read with the real functions; random large lists validated by TLC (SyxTrace)',
    'TLC enumerates every list of <= 3 (thorough 4) messages from a pool of sysex (payload 0, 1, 2 bytes), note_on, clock and songpos in binary format and in text format under 9 whitespace layouts (space, newline, tab, CRLF, double space, form feed, none, mixed incl. vertical tab and leading blanks, lower case), binary files with foreign messages between the sysex ones, and 6 malformed-text classes, checking Read(Write(l)) = SysexOnly(l), NoSysexGivesEmpty, ForeignDropped, BinaryDetected; each case is executed with write_syx_file / read_syx_file on real files (binary content compared byte for byte; malformed text must raise ValueError). 40 (thorough 150) random lists of up to 20 messages with payloads up to 5000 bytes are written and read by the real code in both formats and validated by TLC.',
    'Foreign binary files start with a sysex message (format detection).',
    'DESIGN.md 5/C19')
chk('C20', 'TLA+ precedence function over the full configuration grid (BackendSel) enumerated by TLC with consistency invariants; every cell executed against recording fake backend modules served by a meta-path finder with os.environ patched',
    'TLC enumerates all 41 472 cells (explicit name absent / plain / with API suffix x api keyword x MIDO_BACKEND unset / plain / with suffix x MIDO_DEFAULT_INPUT/OUTPUT/IOPORT set or not x use_environ x load x native IOPort x get_devices x 6 calls x port name given x api in the call), checks 8 consistency invariants of the precedence function (explicit beats environment beats default; keyword api beats suffix; api reaches every constructor; explicit port name beats environment; no environment without use_environ; Input/Output pairing) and emits the expected module, import moment, constructor calls, listing and query api; every cell is executed for real: which fake module was imported and when, every constructor call with name and api, the IOPort wrapper, name listings in device order, api passed to get_devices. set_backend rebinding of the top-level functions is a driver-level sequence.',
    'Whether use_environ=False disables MIDO_BACKEND is left open (both accepted).',
    'DESIGN.md 5/C20')


# what later rounds added on top of the TLC rows (driver-level sub-checks; see DESIGN.md section 15)
ADDENDA = {
 'C01': 'Every result handed out (bytes(), bin()) is overwritten after use (core.scribble) and the message encoded again, so a cached or shared result shows.',
 'C02': 'Inputs are also given in other sequence carriers (arrays of every item width, memoryviews, ranges, bytearrays: check_buffer_carriers), as hex text in the documented spellings (check_hex_texts), with time by keyword and by position, and as sequences of device reads (check_device_sequences).',
 'C03': 'check_type_probes adds: anything but a documented type name refused by every entry point, the type given twice, one-shot iterables / views / alternative spellings as sysex data (what is stored must have been validated), attributes assigned after construction.',
 'C04': 'The same strings are fed through feed_byte, feed (every carrier), parse / parse_all and deep copies / forks of a parser mid-stream; a scale sub-check feeds long bursts and checks linear cost.',
 'C05': 'Empty chunks, forks of a parser between chunks, results stamped/overwritten between retrievals and data bytes that look like text are replayed as additional histories.',
 'C06': 'check_rtsysex: sysex payloads with real-time bytes at every offset; check_concat: concatenations parse back; results are overwritten between probes.',
 'C07': 'Files are also built both ways (constructor arguments and assignment after construction), saved twice with an edit in between, given one-shot (generator) tracks, frozen twins, every charset, and times that cannot be stored.',
 'C08': 'Where save() writes is specified by SaveTarget.tla (TLC: end-relative seeks violate Contiguous) and the write/seek/tell calls of real saves into targets that already hold content are validated by TLC (SaveTargetTrace). Header words (format, ntrks, division) are decided by the reference decoder for every type/track-count; every META_EVENTS entry is hand-encoded and loaded; a custom meta spec is registered and stored.',
 'C09': 'A custom meta spec, text values in every charset, bytes aliasing of data, += extension and data given in every carrier (incl. generators) are replayed against the same layouts.',
 'C10': 'Beyond the model-derived schedules, portrun.explore enumerates every schedule with <= K preemptions BY RE-EXECUTION on the real ports (echo, device, ioport, multi, pqueue, socket, userloop, sharedbuf) and validates each history against PortCore; vf/conc.py explores re-entrant calls with sys.settrace.',
 'C11': 'Close races (close/close, close/send, close/receive, close/iterate) are explored at line level with <= K preemptions on the real ports; half-closed IOPort, multi-member bursts, dead peers and failed writes (SendFail / FailedWriteIsNoOp in the specification) are replayed.',
 'C12': 'Inputs include note-off twins, track_name, UnknownMetaMessage, frozen messages, a million-tick delta and equal events / fractional times; the inputs must be left unchanged.',
 'C13': 'The tempo helpers are explored with two threads at BYTECODE granularity (sched.Scheduler(opcode_files=...)). Tempo edits in place (incl. tempo 0), a consumer that mutates what it receives, long rests, type-2 files from every origin, time signatures and ticks_per_beat assigned later are replayed against the exact-rational model.',
 'C14': 'Frozen twins, default and assigned meta attributes (every documented attribute), text values, a 1 501-message track and awkward float times are round-tripped; MidiFile repr/eval compared structurally.',
 'C15': 'MsgHeap has a Read action (hash, str, format_as_string, dict, bytes, comparison, pickle ...) with the heap UNCHANGED; the driver compares the exact attribute dictionary after it. Plans are also run concurrently (threads) and through text values, copy overrides and hash of decoded values; unchecked objects (Bad values) follow the specified refusal of copy-with-overrides.',
 'C16': 'Held track lists, += / extend, a failed save before a save, edits during a pass (play / iteration) and play without meta messages are added to the histories.',
 'C17': 'CharsetScope has the fault kind "interrupt" (a BaseException raised by the file object or a lazy track) at every position. Nested calls (a track or file object that itself loads/saves) follow the stack in the specification (SavedChain); text in 9 charsets, str subclasses, with-blocks, copy/pickle of files and a custom text meta spec are executed.',
 'C18': 'Big polls, two connections, multi-port bursts, sending to a dead peer, descriptor 0, a client replaced between polls and the PortServer accept path (loopback) are executed on real sockets with 8 s timeouts.',
 'C19': 'Failing writes come first (a failed write must not leave a file that reads as something else), mtime is pinned, and lists containing meta messages with data are refused as specified.',
 'C20': 'Real API names, IntFlag-like arguments, native IOPort failure, kwargs persistence, concurrent first use (fresh interpreters, on-disk module), toggling use_environ and set_backend(Backend(use_environ=False)) are executed.',
}
GENERAL = (' Before every replay batch core.stir() runs failing and half-finished operations of every feature in the same process, so state leaked by one feature shows in another.'
           ' After the check, vf/variants.py re-runs a small battery of conformance items for this property in fresh interpreters (plain, -O, -OO, -W error, -X dev,'
           ' C locale, ASCII stdout, DEBUG logging, and a virtual wall clock installed before mido is imported), and vf/checks/extra11.py / extra12.py run the'
           ' driver-level sub-checks named c<NN>_* for this property (DESIGN.md section 15, rounds 11 and 12); these are samples along axes the specifications'
           ' do not have, not explorations.')


def build(not_applicable):
    checks = []
    for pid in sorted(CHECKS):
        c = CHECKS[pid]
        checks.append({
            'property_id': pid,
            'quick_cmd': './check %s --tier quick' % pid,
            'thorough_cmd': './check %s --tier thorough' % pid,
            'evidence_file': 'evidence/%s.json' % pid,
            'replay_cmd_template': './check %s --replay {path}' % pid,
            'engine': 'tlc+replay',
            'level_claimed': {'category': 'model_checking', 'text': c['text'] + ' ' + ADDENDA[pid] + GENERAL,
                              'design_ref': c['design']},
            'level_note': c['note'],
            'technique': c['technique'],
        })
    return {
        'version': 1,
        'setup_cmd': 'true',
        'hooks': {
            'guard': 'MIDO_VERIF',
            'enable': 'no source hooks are needed: checks import mido from /repo (PYTHONPATH) and observe it through the public API, injected doubles and patched module attributes',
            'baseline_off_cmd': BASELINE,
            'source_commits': [],
            'add_only': True,
        },
        'engines': [{
            'name': 'tlc+replay',
            'path': 'vf/',
            'serves_properties': sorted(CHECKS),
            'kind_free_text': 'explicit TLA+ specifications in specs/, checked by TLC; TLC-generated behaviours replayed into the real code and recorded real traces validated by TLC',
        }],
        'checks': checks,
        'not_applicable': not_applicable,
        'notes': 'See DESIGN.md. ./check <ID> [--tier quick|thorough] [--replay FILE]; exit 2 = machinery failure.',
    }


def main():
    import re
    ids = []
    with open(os.path.join(VERIF, 'properties.jsonl')) as f:
        for line in f:
            ids.append(json.loads(line)['id'])
    na = [{'property_id': i, 'reason': 'check not built yet in this revision (planned, see DESIGN.md section 13); not a statement that the technique cannot apply'}
          for i in ids if i not in CHECKS]
    m = build(na)
    with open(os.path.join(VERIF, 'MANIFEST.json'), 'w') as f:
        json.dump(m, f, indent=1)
    print('MANIFEST.json: %d checks, %d not_applicable' % (len(m['checks']), len(na)))


if __name__ == '__main__':
    main()
