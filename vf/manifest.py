"""Regenerates MANIFEST.json from the table below:  /venv/bin/python -m vf.manifest"""
import json
import os

from .core import VERIF

BASELINE = ("cd /repo && env -u MIDO_VERIF /venv/bin/python -m pytest -ra -q -p no:cacheprovider "
            "--timeout=900 --continue-on-collection-errors")

CHECKS = {}


def chk(pid, technique, text, note, design):
    CHECKS[pid] = dict(technique=technique, text=text, note=note, design=design)


chk('C01', 'TLA+ wire definition (MidiWire) enumerated by TLC over the message domain; every row replayed into Message; random/long cases trace-validated by TLC',
    'TLC enumerates the message domain (thorough: the complete 1,331,463 non-sysex messages plus sysex <= 4 bytes; quick: all channels x 16 boundary data values, boundary pitch/pos), checks RoundTrip on the specification, and every emitted (message, bytes) row is executed on the real class (constructor, bytes/bin/hex/len, from_bytes on list/bytes/bytearray, from_hex, time pass-through). Random full-range messages and sysex up to 4096 bytes are logged from the real codec and validated by TLC against the same module.',
    'Trusted: specs/MidiWire.tla as the MIDI 1.0 layout; TLC; the row parser. time checked for 7 representative values.',
    'DESIGN.md 5/C01')
chk('C02', 'TLC enumeration of all strings over a byte-class alphabet with the total Decode function; rows replayed into from_bytes/from_hex; thorough adds the complete 256-ary space <= 3 against the TLC-emitted accepted set',
    'TLC enumerates every string of length <= 3 (thorough 4) over 26 symbols (byte-class representatives, -1, 256, non-integer) and lengths 5 (thorough 5-6) over 7 symbols, checks that Decode accepts exactly images of Encode, and each (verdict, string) row is fed to the real from_bytes/from_hex. Thorough additionally runs all 16.8 M byte strings of length 0..3 against the accepted set emitted by TLC.',
    'Trusted: MidiWire.Decode; accepted => bytes() reproduce the input; rejection must be ValueError (TypeError only for non-integer items).',
    'DESIGN.md 5/C02')


def build(not_applicable):
    checks = []
    for pid in sorted(CHECKS):
        c = CHECKS[pid]
        checks.append({
            'property_id': pid,
            'quick_cmd': './check %s --tier quick' % pid,
            'thorough_cmd': './check %s --tier thorough' % pid,
            'evidence_file': 'evidence/%s.json' % pid,
            'replay_cmd_template': './check %s --replay {path}' % pid,
            'engine': 'tlc+replay',
            'level_claimed': {'category': 'model_checking', 'text': c['text'],
                              'design_ref': c['design']},
            'level_note': c['note'],
            'technique': c['technique'],
        })
    return {
        'version': 1,
        'setup_cmd': 'true',
        'hooks': {
            'guard': 'MIDO_VERIF',
            'enable': 'no source hooks are needed: checks import mido from /repo (PYTHONPATH) and observe it through the public API, injected doubles and patched module attributes',
            'baseline_off_cmd': BASELINE,
            'source_commits': [],
            'add_only': True,
        },
        'engines': [{
            'name': 'tlc+replay',
            'path': 'vf/',
            'serves_properties': sorted(CHECKS),
            'kind_free_text': 'explicit TLA+ specifications in specs/, checked by TLC; TLC-generated behaviours replayed into the real code and recorded real traces validated by TLC',
        }],
        'checks': checks,
        'not_applicable': not_applicable,
        'notes': 'See DESIGN.md. ./check <ID> [--tier quick|thorough] [--replay FILE]; exit 2 = machinery failure.',
    }


def main():
    import re
    ids = []
    with open(os.path.join(VERIF, 'properties.jsonl')) as f:
        for line in f:
            ids.append(json.loads(line)['id'])
    na = [{'property_id': i, 'reason': 'check not built yet in this revision (planned, see DESIGN.md section 13); not a statement that the technique cannot apply'}
          for i in ids if i not in CHECKS]
    m = build(na)
    with open(os.path.join(VERIF, 'MANIFEST.json'), 'w') as f:
        json.dump(m, f, indent=1)
    print('MANIFEST.json: %d checks, %d not_applicable' % (len(m['checks']), len(na)))


if __name__ == '__main__':
    main()
