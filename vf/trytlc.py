"""Developer helper: python -m vf.trytlc Module cfgfile [--workers N] [--sim N --depth D] [--show K] [--cov]"""
import argparse
import sys
import time

from . import core


def main():
    ap = argparse.ArgumentParser()
    ap.add_argument('module')
    ap.add_argument('cfg')
    ap.add_argument('--workers', type=int)
    ap.add_argument('--sim', type=int)
    ap.add_argument('--depth', type=int)
    ap.add_argument('--show', type=int, default=5)
    ap.add_argument('--cov', action='store_true')
    ap.add_argument('--env', action='append', default=[])
    ap.add_argument('--dfs', action='store_true')
    a = ap.parse_args()
    shown = [0]

    def on_emit(v):
        if shown[0] < a.show:
            print('EMIT', v)
        shown[0] += 1
    env = dict(e.split('=', 1) for e in a.env)
    res = core.run_tlc(a.module, open(a.cfg).read(), workers=a.workers, on_emit=on_emit,
                       simulate=a.sim, depth=a.depth, coverage=a.cov, expect_error=True,
                       on_print=lambda v: print('PRINT', v), env=env, dfs=a.dfs)
    print(res.as_dict())
    if res.error:
        print('\n'.join(res.error_lines[:60]))
    elif not res.ok:
        print('\n'.join(res.raw_tail[-40:]))


if __name__ == '__main__':
    main()
