"""Shared helpers for the SMF checks (C07, C08, C16, C17): the kind table of
specs/SmfWire.tla in terms of real message constructors, and conversions
between real messages and abstract events [dt, k, st, d]."""
import contextlib
import io


class IntSub(int):
    """A non-negative integer that is not exactly an `int` (like enum.IntEnum
    members or numpy integers): still an integer delta time."""


_ORDER = [0]


def kind_msg(kd, dt, odd_int=False):
    """Real message for kind index kd (1-based, see SmfWire.Kinds)."""
    import mido
    if odd_int and isinstance(dt, int) and dt >= 0:
        dt = IntSub(dt)
    MM, UM = mido.MetaMessage, mido.UnknownMetaMessage
    _ORDER[0] += 1

    def M(typ, **kw):
        # what a file stores is a function of the attribute values: every second message is given its
        # attributes in the reverse order, every third with the time first
        items = list(kw.items())
        if _ORDER[0] % 2:
            items.reverse()
        elif _ORDER[0] % 3 == 0:
            items = items[-1:] + items[:-1]
        return mido.Message(typ, **dict(items))
    if dt == -2:
        dt = 0.5                   # non-integer time
    table = {
        1: lambda: M('note_on', channel=0, note=60, velocity=64, time=dt),
        2: lambda: M('note_on', channel=0, note=61, velocity=0, time=dt),
        3: lambda: M('note_on', channel=1, note=60, velocity=64, time=dt),
        4: lambda: M('program_change', channel=0, program=5, time=dt),
        5: lambda: M('pitchwheel', channel=0, pitch=0, time=dt),
        6: lambda: M('quarter_frame', frame_type=3, frame_value=5, time=dt),
        7: lambda: M('songpos', pos=257, time=dt),
        8: lambda: M('tune_request', time=dt),
        9: lambda: M('sysex', data=(), time=dt),
        10: lambda: M('sysex', data=(1, 2), time=dt),
        11: lambda: MM('text', text='a', time=dt),
        12: lambda: MM('set_tempo', tempo=500000, time=dt),
        13: lambda: UM(0x60, data=(1, 2), time=dt),
        14: lambda: MM('end_of_track', time=dt),
        15: lambda: M('song_select', song=3, time=dt),
        16: lambda: UM(0x0a, data=(), time=dt),
        17: lambda: M('clock', time=dt),
        18: lambda: M('reset', time=dt),
    }
    return table[kd]()


KCODE = {1: 'chan', 2: 'common', 3: 'sysex', 4: 'meta'}


def abstract_event(msg):
    """Real message -> [dt, k, st, d] (uses the message's own bytes())."""
    if msg.is_meta:
        b = list(msg.bytes())
        p = 2
        while b[p] & 0x80:
            p += 1
        return [msg.time, 'meta', b[1], b[p + 1:]]
    if msg.type == 'sysex':
        return [msg.time, 'sysex', 0xf0, list(msg.data)]
    b = list(msg.bytes())
    if b[0] >= 0xf8:
        return [msg.time, 'rt', b[0], b[1:]]
    return [msg.time, 'chan' if b[0] < 0xf0 else 'common', b[0], b[1:]]


def abstract_track(track):
    return [abstract_event(m) for m in track]


def parse_evflat(ints, p, n):
    """n events in SmfEnc.EvFlat form starting at ints[p] -> (events, new p)."""
    evs = []
    for _ in range(n):
        dt, kc, st, ln = ints[p:p + 4]
        evs.append([dt, KCODE[kc], st, ints[p + 4:p + 4 + ln]])
        p += 4 + ln
    return evs, p


def load_bytes(data, **kw):
    import mido
    return mido.MidiFile(file=io.BytesIO(bytes(data)), **kw)


def save_bytes(mid):
    buf = io.BytesIO()
    mid.save(file=buf)
    return buf.getvalue()


def quiet_load(data, **kw):
    """Load with debug output captured."""
    out = io.StringIO()
    with contextlib.redirect_stdout(out):
        mid = load_bytes(data, **kw)
    return mid, out.getvalue()


def tracks_equal(a, b):
    """Structural equality of two lists of tracks (messages compared with ==,
    which includes the time, and by class)."""
    if len(a) != len(b):
        return False
    for ta, tb in zip(a, b):
        if len(ta) != len(tb):
            return False
        for x, y in zip(ta, tb):
            if type(x) is not type(y) or not (x == y):
                return False
    return True


def fix_eot_real(track):
    """Reference normalisation on real messages (independent of mido's)."""
    import mido
    out = []
    accum = 0
    for m in track:
        if m.type == 'end_of_track':
            accum += m.time
        else:
            out.append(m.copy(time=m.time + accum) if accum else m)
            accum = 0
    out.append(mido.MetaMessage('end_of_track', time=accum))
    return out
