"""./check selftest - tests of the binding itself.

For every trace specification: an unmodified recorded trace must be accepted,
and the same trace with one recorded field corrupted, or one event removed,
must be rejected.  For the generate->replay drivers: a hand-made wrong
expectation must be reported.  Exit 0 if the machinery behaves, 2 otherwise.
"""
import copy
import random

from . import core


def main(seed=0):
    core.import_mido()
    import mido
    from .checks import c01, c04, c07, c09, c10, c11, c12, c13, c19
    from . import portrun
    ctx = core.Ctx('SELFTEST', 'quick', seed)
    fails = []

    def expect(name, cond):
        print('%-70s %s' % (name, 'ok' if cond else 'FAILED'))
        if not cond:
            fails.append(name)

    rng = random.Random(seed + 1)
    # ---- TokenizerTrace
    stream = c04.random_stream(rng, 400)
    tr = c04.record_trace(random.Random(5), stream)
    bad1 = copy.deepcopy(tr)
    for ev in bad1:
        if ev['a'] == 'iter' and ev['r']:
            ev['r'] = ev['r'][1:]          # a dropped message
            break
    bad2 = copy.deepcopy(tr)
    for k, ev in enumerate(bad2):
        if ev['a'] == 'feed' and ev['p'] > 0:
            del bad2[k]                    # a removed event
            break
    bad3 = copy.deepcopy(tr)
    for ev in bad3:
        if ev['a'] == 'feed':
            ev['p'] += 1                   # a corrupted field
            break
    rej = dict(core.validate_batch(ctx, 'TokenizerTrace', [tr, bad1, bad2, bad3]))
    expect('TokenizerTrace accepts the recorded trace', 0 not in rej)
    expect('TokenizerTrace rejects a dropped message', 1 in rej)
    expect('TokenizerTrace rejects a removed feed event', 2 in rej)
    expect('TokenizerTrace rejects a corrupted pending count', 3 in rej)

    # ---- PortTrace
    prog = [[{'op': 'send', 'm': 1, 'lane': 1}, {'op': 'send', 'm': 2, 'lane': 1}],
            [{'op': 'poll', 'm': 0, 'lane': 0}, {'op': 'recv', 'm': 0, 'lane': 0}]]
    run = portrun.run_program('echo', [], prog, rng=random.Random(3), policy='random')
    h = run['events']
    b1 = copy.deepcopy(h)
    for ev in b1:
        if ev.get('e') == 'ret' and ev['k'] == 'msg':
            ev['v'] = [ev['v'][0] + 1]     # received a message that was not the head
            break
    b2 = [ev for ev in copy.deepcopy(h)]
    for k, ev in enumerate(b2):
        if ev.get('e') == 'call' and ev['op'] == 'send':
            del b2[k]                      # a send whose call event is missing
            break
    b3 = copy.deepcopy(h)
    sends = [ev for ev in b3 if ev.get('e') == 'call' and ev['op'] == 'send']
    sends[0]['m'], sends[1]['m'] = sends[1]['m'], sends[0]['m']   # order of one sender swapped
    rej = dict(core.validate_batch(ctx, 'PortTrace', [h, b1, b2, b3], extra_cfg='CONSTANT WeakPoll = TRUE\n'))
    expect('PortTrace accepts the recorded history', 0 not in rej)
    expect('PortTrace rejects a wrong received message', 1 in rej)
    expect('PortTrace rejects a history with a missing call', 2 in rej)
    got = [ev['v'][0] for ev in h if ev.get('e') == 'ret' and ev['k'] == 'msg']
    expect('PortTrace rejects a per-sender reordering', (3 in rej) or len(got) < 2)

    # ---- WireTrace / MetaTrace / MergeTrace / SmfTrace / SyxTrace
    recs, cases = c01.record_traces(random.Random(2), 20, 2, 50)
    bad = copy.deepcopy(recs)
    bad[3]['b'][-1] ^= 1
    ctx2 = core.Ctx('SELFTEST', 'quick', seed)
    ctx2.quiet = True
    r_ok = c01.validate_traces(ctx2, recs, cases, 'selftest')
    r_bad = c01.validate_traces(ctx2, bad, cases, 'selftest')
    expect('WireTrace accepts real codec records', r_ok == [])
    expect('WireTrace rejects a corrupted byte', 4 in r_bad)
    expect('a rejected trace is reported as a violation', len(ctx2.violations) >= 1)

    tracks = c12.random_tracks(random.Random(9))
    while not any(tracks):
        tracks = c12.random_tracks(random.Random(rng.randrange(1000)))
    rec = c12.run_real(tracks)
    badm = copy.deepcopy(rec)
    badm['result'][0][0] += 1
    rej = c12.validate(ctx, [rec, badm])
    expect('MergeTrace accepts the real result, rejects a changed delta', rej == [1])

    mid = c07.random_file(random.Random(4))
    srec, prob = c07.record_file(mid)
    bads = copy.deepcopy(srec)
    bads['bytes'].insert(22, 0x80)          # a padded (non-minimal) delta
    bads['bytes'][21] += 1                  # chunk length adjusted
    rej = dict(c07.validate_records(ctx, [srec, bads]))
    expect('SmfTrace accepts the bytes of the real save()', prob is None and 0 not in rej)
    expect('SmfTrace rejects an inserted padding byte', 1 in rej)

    mrecs, mcases = c09.record_random(random.Random(8), 10)
    import json
    import os
    work = core.scratch('trace')
    path = os.path.join(work, 'meta.json')
    badr = copy.deepcopy(mrecs)
    badr[2]['b'][2] ^= 1
    rejected = []
    for data in (mrecs, badr):
        with open(path, 'w') as f:
            json.dump(data, f)
        rj = []
        core.run_tlc('MetaTrace', "SPECIFICATION Spec\nINVARIANT Judge\nCHECK_DEADLOCK FALSE\n",
                     on_print=lambda v: rj.append(v[1]) if isinstance(v, list) and v[0] == 'REJECTED' else None,
                     env={'TRACE_FILE': path})
        rejected.append(rj)
    expect('MetaTrace accepts real records, rejects a corrupted length byte',
           rejected[0] == [] and 3 in rejected[1])

    d = core.scratch('syx')
    srec2 = c19.record(random.Random(6), d)
    bad = copy.deepcopy(srec2)
    if bad['rbin']:
        bad['rbin'] = bad['rbin'][:-1]
    rej = c19.validate(ctx, [srec2, bad])
    expect('SyxTrace accepts the real round trip, rejects a lost message', rej == [1] or not srec2['rbin'])

    # ---- G drivers: a wrong expectation must be reported
    expect('C01 driver reports a wrong expected byte',
           c01.check_row('note_on', [0, 60, 64], [0x90, 60, 65], 0) is not None)
    expect('C01 driver accepts the right row',
           c01.check_row('note_on', [0, 60, 64], [0x90, 60, 64], 0) is None)
    expect('C04 driver reports a missing expected message',
           c04.compare([0x90, 1, 2, 0xf8], [[0x90, 1, 2]]) is not None)
    expect('C04 driver accepts the right output',
           c04.compare([0x90, 1, 2, 0xf8], [[0x90, 1, 2], [0xf8]]) is None)
    hist = [{'op': 'poll', 'r': {'k': 'msg', 'v': [1]}, 'sleeps': 0, 'polls': 1,
             'closed_before': False, 'qlen_before': 0}]
    expect('C11 driver accepts a right history',
           c11.replay_history('io', False, ['arrive'], hist, False, [], []) is None)
    wrong = copy.deepcopy(hist)
    wrong[0]['polls'] = 2
    expect('C11 driver reports a wrong device-poll count',
           c11.replay_history('io', False, ['arrive'], wrong, False, [], []) is not None)
    expect('C12 driver reports a wrong expected order',
           c12.check_merge([[(0, 11), (0, 12)]], [(0, 12), (0, 11), (0, 0)]) is not None)
    expect('C13 driver reports a wrong expected time',
           c13.check_iter([[(1, 'n')]], [(11, 500001), (0, 0)], 480) is not None)
    expect('C13 driver accepts the right time',
           c13.check_iter([[(1, 'n')]], [(11, 500000), (0, 0)], 480) is None)
    # ---- SaveTargetTrace: a back-patching writer is accepted; an end-relative seek, a corrupted
    # position and a truncated target are rejected
    good = [{'a': 'begin', 'p': 4, 'old': 30}, {'a': 'write', 'n': 8, 'p': 12}, {'a': 'tell', 'p': 12}, {'a': 'write', 'n': 5, 'p': 17},
            {'a': 'seek', 'p': 8}, {'a': 'write', 'n': 4, 'p': 12}, {'a': 'seek', 'p': 17}, {'a': 'write', 'n': 3, 'p': 20}, {'a': 'end', 'p': 20}]
    bad_seek = copy.deepcopy(good)
    bad_seek[6] = {'a': 'seek', 'p': 30}          # "the end" of the target instead of the end of what was written
    bad_pos = copy.deepcopy(good)
    bad_pos[3]['p'] = 18                          # a corrupted field
    bad_trunc = good[:-1] + [{'a': 'truncate', 'p': 20}, {'a': 'end', 'p': 20}]
    bad_before = copy.deepcopy(good)
    bad_before[4] = {'a': 'seek', 'p': 0}          # before the position the target was handed over at
    rej = core.validate_batch(ctx, 'SaveTargetTrace', [good, bad_seek, bad_pos, bad_trunc, bad_before])
    expect('SaveTargetTrace accepts a writer that goes back to fill in a length', 0 not in [r[0] for r in rej])
    expect('SaveTargetTrace rejects a seek to the end of the target', (1, 7) in rej)
    expect('SaveTargetTrace rejects a corrupted position', (2, 4) in rej)
    expect('SaveTargetTrace rejects truncating the target', 3 in [r[0] for r in rej])
    expect('SaveTargetTrace rejects a seek before the start', (4, 5) in rej)
    # ---- interpreter variants: an unmodified child reports nothing, a sabotaged decoder is reported
    import os
    from . import variants
    expect('variants: the wire item passes in a python -O child', variants.run_child('opt', ['wire']) == [])
    os.environ['VF_VARIANT_SABOTAGE'] = '1'
    try:
        bad = variants.run_child('warp', ['wire'])
    finally:
        del os.environ['VF_VARIANT_SABOTAGE']
    expect('variants: a decoder that loses an attribute is reported', any(p == 'C01' for p, _, _ in bad))
    print('selftest: %d failures' % len(fails))
    return 2 if fails else 0
