"""Re-runs every seeded change (seeded/<id>/patch.diff) against the quick check
of its property in a scratch worktree of /repo (vf.seedtool) and records the
result in seeded/<id>/meta.json.

  python -m vf.seedmatrix [pattern ...]      e.g.  python -m vf.seedmatrix 'C1*' C05H

Prints one line per seed; exit 1 if a seed is caught by none of the checks it
is run against.  /repo itself is never modified."""
import fnmatch
import glob
import json
import os
import subprocess
import sys
from concurrent.futures import ThreadPoolExecutor

ROOT = os.path.dirname(os.path.dirname(os.path.abspath(__file__)))
# seeds whose change belongs to another property's clause
ALSO = {'C16H': ['C13'], 'C07H': ['C17'], 'C16J': ['C13'], 'C13I': ['C16'], 'C16K': ['C13'], 'C16L': ['C17', 'C09'], 'C16P': ['C12'], 'C16R': ['C13'], 'C16T': ['C12'], 'C04S': ['C05'], 'C09V': ['C17'], 'C16Y': ['C08']}
# seeds whose demonstration relies on behaviour the property text does not fix (kept for the record, not counted)
NOT_ENTAILED = {
    'C20Q': "an environment variable that is set to the empty string: the property does not say whether that counts as set; mido itself treats '' differently for MIDO_DEFAULT_IOPORT and MIDO_DEFAULT_INPUT",
    'C12V': 'the tracks are handed over as a one-shot iterable whose items are only valid until the next one is requested (itertools.groupby groups, a reader that reuses one track object): the property quantifies over lists of tracks, and every list, tuple, generator of independent tracks merges as before',
    'C16U': 'play() starts its clock when it is called instead of at the first next(): the change is the same for an edited file and for a freshly built file with the same contents, which is all C16 compares; C13 does not fix which of the two moments is the start of the playback either (messages come out late, never early)',
    'C20R': 'whether use_environ=False also switches off MIDO_BACKEND: the property lists use_environ among the inputs but fixes no precedence for it over MIDO_BACKEND, and BackendSel leaves exactly these cells open (either module is accepted)',
}
# seeds that no longer apply to /repo's HEAD because a later fix: commit rewrote the lines they change
SUPERSEDED = {'C14K': 'fix 3f5d47b (D25) is the complete form of this half-change; the seed led to that finding'}


def run(sid):
    d = os.path.join(ROOT, 'seeded', sid)
    checks = [sid[:3]] + ALSO.get(sid, [])
    demo = os.path.join(d, 'demo.py')
    r = subprocess.run([sys.executable, '-m', 'vf.seedtool', os.path.join(d, 'patch.diff'),
                        demo if os.path.exists(demo) else '-', ','.join(checks)],
                       stdout=subprocess.PIPE, stderr=subprocess.STDOUT, text=True, cwd=ROOT)
    try:
        res = json.loads(r.stdout.strip().splitlines()[-1])
    except Exception:
        return sid, None, r.stdout[-400:]
    mp = os.path.join(d, 'meta.json')
    try:
        meta = json.load(open(mp))
    except Exception:
        meta = {'property': sid[:3]}
    meta['quick_check_result'] = res.get('checks')
    json.dump(meta, open(mp, 'w'), indent=1)
    return sid, res, None


def main(argv):
    pats = argv or ['*']
    sids = sorted(os.path.basename(p) for p in glob.glob(os.path.join(ROOT, 'seeded', 'C*'))
                  if any(fnmatch.fnmatch(os.path.basename(p), q) for q in pats))
    missed = []
    with ThreadPoolExecutor(int(os.environ.get("SEEDMATRIX_JOBS", "3"))) as ex:
        for sid, res, err in ex.map(run, sids):
            if res is None:
                print('%s ERROR %s' % (sid, err), flush=True)
                missed.append(sid)
                continue
            if res.get('applies') is False:
                why = SUPERSEDED.get(sid)
                print('%s does not apply to HEAD%s' % (sid, ': superseded - ' + why if why else ''), flush=True)
                if not why:
                    missed.append(sid)
                continue
            if res.get('demo_fails_with_patch') is False and res.get('demo_passes_without_patch'):
                # the author's own demonstration passes with the change applied to HEAD:
                # a later fix: commit made the change harmless
                print('%s no longer breaks the property on HEAD (its demonstration passes with the change applied)' % sid,
                      flush=True)
                continue
            ck = res.get('checks', {})
            if sid in NOT_ENTAILED and not any(c.get('exit') == 1 for c in ck.values()):
                print('%s not entailed by the property text: %s' % (sid, NOT_ENTAILED[sid]), flush=True)
                continue
            caught = [p for p, c in ck.items() if c.get('exit') == 1]
            crashed = [p for p, c in ck.items() if c.get('exit') not in (0, 1)]
            print('%s tests=%s caught_by=%s%s' % (sid, res.get('tests_pass'), ','.join(caught) or '-',
                                                 ' CRASHED:' + ','.join(crashed) if crashed else ''), flush=True)
            if not caught:
                missed.append(sid)
    print('seeds: %d, not caught: %s' % (len(sids), ' '.join(missed) or 'none'))
    return 1 if missed else 0


if __name__ == '__main__':
    sys.exit(main(sys.argv[1:]))
