"""Shared tables for the drivers (mirrors specs/MidiWire.tla TypeSeq)."""
TYPES = ["note_off", "note_on", "polytouch", "control_change",
         "program_change", "aftertouch", "pitchwheel", "sysex",
         "quarter_frame", "songpos", "song_select", "tune_request",
         "clock", "start", "continue", "stop", "active_sensing", "reset"]
VALUE_NAMES = {
    "note_off": ("channel", "note", "velocity"),
    "note_on": ("channel", "note", "velocity"),
    "polytouch": ("channel", "note", "value"),
    "control_change": ("channel", "control", "value"),
    "program_change": ("channel", "program"),
    "aftertouch": ("channel", "value"),
    "pitchwheel": ("channel", "pitch"),
    "sysex": ("data",),
    "quarter_frame": ("frame_type", "frame_value"),
    "songpos": ("pos",),
    "song_select": ("song",),
}
for _t in TYPES[11:]:
    VALUE_NAMES[_t] = ()
REALTIME = {"clock", "start", "continue", "stop", "active_sensing", "reset"}
STATUS = {"note_off": 0x80, "note_on": 0x90, "polytouch": 0xa0, "control_change": 0xb0,
          "program_change": 0xc0, "aftertouch": 0xd0, "pitchwheel": 0xe0, "sysex": 0xf0,
          "quarter_frame": 0xf1, "songpos": 0xf2, "song_select": 0xf3, "tune_request": 0xf6,
          "clock": 0xf8, "start": 0xfa, "continue": 0xfb, "stop": 0xfc,
          "active_sensing": 0xfe, "reset": 0xff}


def attrs_of(type_, v):
    """Spec value tuple -> keyword attributes of the real Message."""
    if type_ == 'sysex':
        return {'data': tuple(v)}
    return dict(zip(VALUE_NAMES[type_], v))


def values_of(msg):
    """Real Message -> spec value tuple (list)."""
    if msg.type == 'sysex':
        return list(msg.data)
    return [getattr(msg, n) for n in VALUE_NAMES[msg.type]]


def spec_msg(msg):
    return {'t': msg.type, 'v': values_of(msg)}


def exc_name(e):
    return type(e).__name__
