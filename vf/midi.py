"""Shared tables for the drivers (mirrors specs/MidiWire.tla TypeSeq)."""
TYPES = ["note_off", "note_on", "polytouch", "control_change",
         "program_change", "aftertouch", "pitchwheel", "sysex",
         "quarter_frame", "songpos", "song_select", "tune_request",
         "clock", "start", "continue", "stop", "active_sensing", "reset"]
VALUE_NAMES = {
    "note_off": ("channel", "note", "velocity"),
    "note_on": ("channel", "note", "velocity"),
    "polytouch": ("channel", "note", "value"),
    "control_change": ("channel", "control", "value"),
    "program_change": ("channel", "program"),
    "aftertouch": ("channel", "value"),
    "pitchwheel": ("channel", "pitch"),
    "sysex": ("data",),
    "quarter_frame": ("frame_type", "frame_value"),
    "songpos": ("pos",),
    "song_select": ("song",),
}
for _t in TYPES[11:]:
    VALUE_NAMES[_t] = ()
REALTIME = {"clock", "start", "continue", "stop", "active_sensing", "reset"}
STATUS = {"note_off": 0x80, "note_on": 0x90, "polytouch": 0xa0, "control_change": 0xb0,
          "program_change": 0xc0, "aftertouch": 0xd0, "pitchwheel": 0xe0, "sysex": 0xf0,
          "quarter_frame": 0xf1, "songpos": 0xf2, "song_select": 0xf3, "tune_request": 0xf6,
          "clock": 0xf8, "start": 0xfa, "continue": 0xfb, "stop": 0xfc,
          "active_sensing": 0xfe, "reset": 0xff}


def attrs_of(type_, v):
    """Spec value tuple -> keyword attributes of the real Message."""
    if type_ == 'sysex':
        return {'data': tuple(v)}
    return dict(zip(VALUE_NAMES[type_], v))


def values_of(msg):
    """Real Message -> spec value tuple (list)."""
    if msg.type == 'sysex':
        return list(msg.data)
    return [getattr(msg, n) for n in VALUE_NAMES[msg.type]]


def spec_msg(msg):
    return {'t': msg.type, 'v': values_of(msg)}


def exc_name(e):
    return type(e).__name__


def is_valid_message(msg):
    """Independent validity check of a real Message (documented ranges)."""
    import numbers
    if type(msg).__name__ not in ('Message', 'FrozenMessage'):
        return False
    t = msg.type
    if t not in VALUE_NAMES:
        return False
    d = vars(msg)
    if set(d) != set(VALUE_NAMES[t]) | {'type', 'time'}:
        return False
    if isinstance(d['time'], bool) or not isinstance(d['time'], numbers.Real):
        return False
    for n in VALUE_NAMES[t]:
        x = d[n]
        if n == 'data':
            if not isinstance(x, tuple):
                return False
            if not all(type(b) is int and 0 <= b <= 127 for b in x):
                return False
            continue
        if type(x) is not int:
            return False
        lo, hi = {'channel': (0, 15), 'pitch': (-8192, 8191), 'pos': (0, 16383),
                  'frame_type': (0, 7), 'frame_value': (0, 15)}.get(n, (0, 127))
        if not lo <= x <= hi:
            return False
    return True


def parse_tok_row(ints):
    """Row of TokStream: inp | status, buf | out tokens."""
    n = ints[0]
    inp = ints[1:1 + n]
    p = 1 + n
    status, nb = ints[p], ints[p + 1]
    buf = ints[p + 2:p + 2 + nb]
    p += 2 + nb
    k = ints[p]
    p += 1
    out = []
    for _ in range(k):
        ln = ints[p]
        out.append(ints[p + 1:p + 1 + ln])
        p += 1 + ln
    return inp, status, buf, out


def class_map(rng):
    """A class-preserving byte substitution (the tokenizer only looks at the
    class of a byte, so expected outputs map through the same substitution)."""
    f = {}
    for b in range(256):
        if b < 128:
            f[b] = rng.randrange(128)
        elif b < 0xc0:
            f[b] = rng.randrange(0x80, 0xc0)
        elif b < 0xe0:
            f[b] = rng.randrange(0xc0, 0xe0)
        elif b < 0xf0:
            f[b] = rng.randrange(0xe0, 0xf0)
        elif b in (0xf1, 0xf3):
            f[b] = rng.choice((0xf1, 0xf3))
        elif b in (0xf4, 0xf5):
            f[b] = rng.choice((0xf4, 0xf5))
        elif b in (0xf9, 0xfd):
            f[b] = rng.choice((0xf9, 0xfd))
        elif b >= 0xf8:
            f[b] = rng.choice((0xf8, 0xfa, 0xfb, 0xfc, 0xfe, 0xff))
        else:
            f[b] = b
    return f
