"""Deterministic thread scheduler and shims for mido.ports.

Real threading.Thread objects, exactly one runnable at a time.  A worker
thread runs until it *announces* its next access to shared state (lock
acquire/release, deque test/pop/append, wire read/write, closed read/write,
sleep) and parks; when the scheduler picks it, it performs the announced
access and runs on to the next announcement.  Every switch happens at a
bytecode boundary where CPython could switch too, so every explored schedule
is a feasible real schedule.
"""
import collections
import sys
import threading as _threading
import types

_real_RLock = _threading.RLock


class Hang(Exception):
    """Raised inside a worker when its step budget is exhausted."""


class SchedulerError(Exception):
    pass


class TState:
    __slots__ = ('tid', 'sem', 'pending', 'done', 'thread', 'exc', 'steps', 'result')

    def __init__(self, tid):
        self.tid = tid
        self.sem = _threading.Semaphore(0)
        self.pending = ('start', None)
        self.done = False
        self.thread = None
        self.exc = None
        self.steps = 0
        self.result = None


class Scheduler:
    WATCHDOG = 20.0

    def __init__(self, budget=2000, trace_files=None, opcode_files=None):
        # trace_files: source files in which EVERY line is a yield point
        # (statement-granularity scheduling via sys.settrace)
        # opcode_files: source files in which every BYTECODE is a yield point (a thread switch can
        # fall inside one statement: between two reads of the same global in one expression)
        self.opcode_files = set(opcode_files or ())
        self.trace_files = set(trace_files or ()) | self.opcode_files
        if self.opcode_files:
            # CPython 3.12 switches per-instruction events on (interpreter-wide) at the next
            # sys.settrace() after SOME frame asked for them: ask once, here
            sys._getframe().f_trace_opcodes = True
        self.ts = {}
        self.by_ident = {}
        self.main = _threading.Semaphore(0)
        self.budget = budget
        self.trace = []          # (tid, op-performed)
        self.seq = 0             # global event sequence number
        self.events = []         # call / return events logged by workers

    # ---- worker side
    def me(self):
        return self.by_ident.get(_threading.get_ident())

    def announce(self, op, obj=None):
        """Called by a worker right before a shared access."""
        st = self.me()
        if st is None:
            return            # not a scheduled thread (set-up code): pass through
        st.pending = (op, obj)
        st.steps += 1
        if st.steps > self.budget:
            raise Hang('step budget exhausted at %s' % op)
        self.main.release()
        if not st.sem.acquire(timeout=self.WATCHDOG):
            raise SchedulerError('worker %s starved' % st.tid)

    def log(self, **ev):
        self.seq += 1
        ev['seq'] = self.seq
        self.events.append(ev)

    # ---- scheduler side
    def spawn(self, tid, fn):
        st = TState(tid)
        self.ts[tid] = st

        def body():
            self.by_ident[_threading.get_ident()] = st
            st.sem.acquire()
            try:
                if self.trace_files:
                    sys.settrace(self._global_trace)
                st.result = fn()
            except BaseException as e:      # noqa
                st.exc = e
            finally:
                sys.settrace(None)
                st.done = True
                st.pending = ('done', None)
                self.main.release()
        st.thread = _threading.Thread(target=body, daemon=True)
        st.thread.start()
        return st

    def _global_trace(self, frame, event, arg):
        if frame.f_code.co_filename in self.trace_files:
            if frame.f_code.co_filename in self.opcode_files:
                frame.f_trace_opcodes = True
            return self._local_trace
        return None

    def _local_trace(self, frame, event, arg):
        if event == 'line' and not frame.f_trace_opcodes:
            self.announce('line', None)
        elif event == 'opcode':
            self.announce('line', None)
        return self._local_trace

    def enabled(self, tid):
        st = self.ts[tid]
        if st.done:
            return False
        op, obj = st.pending
        if op == 'acq' and obj is not None and not obj.can_acquire(st):
            return False
        return True

    def runnable(self):
        return [t for t in self.ts if self.enabled(t)]

    def step(self, tid):
        """Let thread tid perform its pending access and run to the next one."""
        st = self.ts[tid]
        if st.done:
            raise SchedulerError('thread %s already finished' % tid)
        performed = st.pending[0]
        st.sem.release()
        if not self.main.acquire(timeout=self.WATCHDOG):
            raise SchedulerError('no progress for %ss after stepping %s at %s' % (
                self.WATCHDOG, tid, performed))
        self.trace.append((tid, performed))
        return performed

    def finish(self):
        for st in self.ts.values():
            if not st.done:
                # cannot kill threads; they are daemons parked on a semaphore
                pass

    def all_done(self):
        return all(st.done for st in self.ts.values())


SCHED = None     # the active scheduler (one at a time)


def _announce(op, obj=None):
    s = SCHED
    if s is not None:
        s.announce(op, obj)


class CoopRLock:
    """Cooperative re-entrant lock: never blocks the OS thread; the scheduler
    does not pick a thread whose pending acquire cannot succeed."""

    def __init__(self):
        self.owner = None
        self.count = 0
        self.sched = SCHED       # a lock outlives its run only as garbage: then it is a no-op

    def can_acquire(self, st):
        return self.owner is None or self.owner is st

    def acquire(self, blocking=True, timeout=-1):
        s = SCHED
        st = s.me() if (s is not None and s is self.sched) else None
        if st is None:
            # unscheduled (main) thread: plain semantics
            # (set-up / tear-down code, e.g. __del__ of a port; never blocks)
            return True
        while True:
            s.announce('acq', self)
            if self.owner is None or self.owner is st:
                self.owner = st
                self.count += 1
                return True
            # picked while the lock is held by someone else: stay parked

    def release(self):
        s = SCHED
        st = s.me() if (s is not None and s is self.sched) else None
        if st is None:
            return
        s.announce('rel', self)
        self.count -= 1
        if self.count == 0:
            self.owner = None

    def __enter__(self):
        self.acquire()
        return self

    def __exit__(self, *a):
        self.release()
        return False


class AnnDeque(collections.deque):
    """deque whose accesses announce themselves, then perform the real op."""

    def __bool__(self):
        _announce('test', self)
        return collections.deque.__len__(self) > 0

    def __len__(self):
        _announce('test', self)
        return collections.deque.__len__(self)

    def popleft(self):
        _announce('pop', self)
        return collections.deque.popleft(self)

    def append(self, x):
        _announce('put', self)
        collections.deque.append(self, x)

    def extend(self, it):
        for x in it:
            self.append(x)

    def raw(self):
        return list(collections.deque.__iter__(self))

    def raw_len(self):
        return collections.deque.__len__(self)


class Wire:
    """Byte pipe between a device double's _send and _receive."""

    def __init__(self):
        self.q = collections.deque()

    def put(self, b):
        _announce('wput', self)
        self.q.append(b)

    def nonempty(self):
        _announce('wtest', self)
        return len(self.q) > 0

    def get(self):
        _announce('wget', self)
        return self.q.popleft()


class CoopEvent:
    """Cooperative threading.Event: wait() without a time limit parks the thread
    until the flag is set (the scheduler does not pick it before)."""

    def __init__(self):
        self.flag = False
        self.sched = SCHED

    def is_set(self):
        return self.flag

    isSet = is_set

    def set(self):
        if SCHED is self.sched:
            _announce('evset', self)
        self.flag = True

    def clear(self):
        if SCHED is self.sched:
            _announce('evclear', self)
        self.flag = False

    def can_acquire(self, st):           # (the scheduler's "is this pending access possible" hook)
        return self.flag

    def wait(self, timeout=None):
        s = SCHED
        st = s.me() if (s is not None and s is self.sched) else None
        if st is None:
            return self.flag
        if timeout is not None:
            s.announce('sleep', None)    # a timed wait: like a sleep, then look
            return self.flag
        while True:
            s.announce('acq', self)      # enabled only while the flag is set
            if self.flag:
                return True


class CoopCondition:
    """Cooperative threading.Condition over a CoopRLock (notify wakes every waiter:
    spurious wake-ups are allowed by the threading documentation)."""

    def __init__(self, lock=None):
        self.lock = lock or CoopRLock()
        self.ev = CoopEvent()
        self.acquire = self.lock.acquire
        self.release = self.lock.release

    def __enter__(self):
        self.lock.acquire()
        return self

    def __exit__(self, *a):
        self.lock.release()
        return False

    def wait(self, timeout=None):
        self.ev.flag = False
        self.lock.release()
        try:
            return self.ev.wait(timeout)
        finally:
            self.lock.acquire()

    def notify(self, n=1):
        self.ev.set()

    notify_all = notify
    notifyAll = notify


def _only_main_count():
    return 1


def _only_main_list():
    return [_threading.main_thread()]


class _ThreadingShim(types.ModuleType):
    def __init__(self):
        types.ModuleType.__init__(self, 'threading_shim')
        self.RLock = CoopRLock
        self.Lock = CoopRLock
        self.Event = CoopEvent
        self.Condition = CoopCondition
        # The scheduler's threads stand for the threads that really call into ports and parser
        # queues: callback threads of the C libraries behind the backends and threads started with
        # _thread - none of which the threading module knows about.  Code that asks threading how
        # many threads there are gets the answer it would get there.
        self.active_count = _only_main_count
        self.enumerate = _only_main_list

    def __getattr__(self, name):
        # anything else (current_thread, get_ident, local, ...) is the real thing
        return getattr(_threading, name)


class Patched:
    """Context manager installing the shims into mido.ports."""

    def __init__(self, sched, sleep_hook=None):
        self.sched = sched
        self.sleep_hook = sleep_hook

    def __enter__(self):
        global SCHED
        import mido.ports as mp
        import mido.backends._parser_queue as pq
        import mido.parser
        import mido.sockets
        import mido.tokenizer
        self.mp = mp
        self.pq = pq
        self.saved = (mp.threading, mp.sleep)
        # every synchronisation primitive the port code may name, in every module it lives in
        coop = {'RLock': CoopRLock, 'Lock': CoopRLock, 'Event': CoopEvent, 'Condition': CoopCondition}
        self.saved_names = []
        for mod in (mp, pq, mido.parser, mido.sockets, mido.tokenizer):
            for name, repl in coop.items():
                cur = getattr(mod, name, None)
                if cur is not None and getattr(cur, '__module__', '').startswith(('threading', '_thread')):
                    self.saved_names.append((mod, name, cur))
                    setattr(mod, name, repl)
            for name, repl in (('active_count', _only_main_count), ('enumerate', _only_main_list)):
                cur = getattr(mod, name, None)
                if cur is not None and cur is getattr(_threading, name):
                    self.saved_names.append((mod, name, cur))
                    setattr(mod, name, repl)
            cur = getattr(mod, 'threading', None)
            if cur is not None and not isinstance(cur, _ThreadingShim):
                self.saved_names.append((mod, 'threading', cur))
                setattr(mod, 'threading', _ThreadingShim())
        hook = self.sleep_hook

        def sleep():
            _announce('sleep', None)
            if hook is not None:
                hook()
        mp.sleep = sleep
        SCHED = self.sched
        return self

    def __exit__(self, *a):
        global SCHED
        for mod, name, cur in reversed(self.saved_names):
            setattr(mod, name, cur)
        self.mp.threading, self.mp.sleep = self.saved
        SCHED = None
        return False


def instrument(port):
    """Replace the port's message deque by an announcing one (keeps the
    parser and the port pointing at the same object, as ports.py does)."""
    d = AnnDeque()
    if hasattr(port, '_parser'):
        port._parser.messages = d
    port._messages = d
    return d


def make_wire_port_class():
    """A lock-protected device double written the way docs/ports/custom.rst
    describes: _send writes the message byte by byte to a wire, _receive
    reads whatever bytes are available and feeds them to the parser."""
    from mido.ports import BaseIOPort

    class WirePort(BaseIOPort):
        def _open(self, rwire=None, wwire=None, **kw):
            self.rwire = rwire
            self.wwire = wwire

        def _send(self, msg):
            for b in msg.bytes():
                self.wwire.put(b)

        def _receive(self, block=True):
            while self.rwire.nonempty():
                self._parser.feed_byte(self.rwire.get())

    return WirePort


class AnnQueue:
    """Announcing wrapper around the queue.Queue of a ParserQueue (its own
    operations are atomic: queue.Queue is internally locked)."""

    def __init__(self, q):
        self.q = q

    def put(self, x):
        _announce('qput', self)
        self.q.put(x)

    def get_nowait(self):
        _announce('qget', self)
        return self.q.get_nowait()

    def get(self):
        _announce('qget', self)
        return self.q.get_nowait()      # never block the only runnable OS thread

    def qsize(self):
        return self.q.qsize()
