"""./check <ID> [--tier quick|thorough] [--replay FILE]"""
import argparse
import importlib
import json
import os
import sys
import traceback

from . import core


def main(argv=None):
    ap = argparse.ArgumentParser(prog='check')
    ap.add_argument('pid')
    ap.add_argument('--tier', default=os.environ.get('VERIF_TIER') or 'quick',
                    choices=['quick', 'thorough'])
    ap.add_argument('--replay')
    args = ap.parse_args(argv)
    seed = int(os.environ.get('VERIF_SEED') or 0)
    pid = args.pid.upper()
    if pid == 'SELFTEST':
        from . import selftest
        return selftest.main(seed)
    try:
        mod = importlib.import_module('vf.checks.' + pid.lower())
    except ImportError as e:
        print('no such check %s: %s' % (pid, e), file=sys.stderr)
        return 2
    try:
        core.import_mido()
        core.stir()
        if args.replay:
            with open(args.replay) as f:
                body = json.load(f)
            if isinstance(body.get('case'), dict) and body['case'].get('kind') == 'first_use':
                from . import conc
                bad = conc.replay_first_use(body['case'])
            elif isinstance(body.get('case'), dict) and body['case'].get('kind') == 'extra11':
                from .checks import extra11
                bad = extra11.replay(body['case'])
            elif isinstance(body.get('case'), dict) and body['case'].get('kind') == 'variant':
                from . import variants
                bad = variants.replay(body['case'])
            elif isinstance(body.get('case'), dict) and body['case'].get('kind') == 'reentrancy':
                from . import conc
                bad = conc.replay(body['case'])
            else:
                bad = mod.replay(body['case'])
            if bad:
                print('VIOLATION property=%s replay=%s' % (pid, args.replay))
                print('  ' + str(bad))
                return 1
            print('replay: no violation')
            return 0
        ctx = core.Ctx(pid, args.tier, seed)
        mod.run(ctx)
        # the same conformance items in fresh interpreters started with -O / -OO / an unruly clock
        from . import variants
        from .checks import extra11
        if not os.environ.get('VF_NO_VARIANTS'):      # (only used to measure what round 11 added)
            variants.check(ctx, pid)
            extra11.run(ctx, pid)
            from .checks import extra12
            extra11.run(ctx, pid, extra12)
        rc = ctx.finish()
        print('%s %s tier=%s seed=%d states=%d transitions=%d replayed=%d validated=%d wall=%.1fs' % (
            pid, 'FAIL' if rc else 'ok', args.tier, seed, ctx.states, ctx.transitions,
            ctx.replayed, ctx.validated, __import__('time').time() - ctx.t0))
        return rc
    except core.Machinery as e:
        print('MACHINERY FAILURE: %s' % e, file=sys.stderr)
        return 2
    except Exception:
        traceback.print_exc()
        print('MACHINERY FAILURE (harness exception)', file=sys.stderr)
        return 2


if __name__ == '__main__':
    sys.exit(main())
