"""The same small battery of conformance items, run in FRESH interpreters started in ways a
user may start theirs: plainly, with -O and -OO (asserts and docstrings stripped), with warnings
turned into errors, in the C locale, in development mode with another hash seed, and with a
wall clock that does not behave like the one of a test run ('warp': every reading of
time.time / monotonic / perf_counter is seconds later than the previous one, and sleep()
returns late by varying amounts).  None of the twenty properties mentions interpreter flags
or the time between two calls, so each item must give the same verdict in every variant.

The expected values of every item are derived from the TLA+ definitions the checks use
elsewhere only in so far as they are the trivially known ones (a stream of complete messages
parses to those messages whatever the chunking: Tokenizer.tla ChunkIndependence; the charset
outside a call is latin1: CharsetScope.tla ScopedCharset; a message is never yielded before
its scheduled time: Playback.tla NeverEarly); nothing here replaces the TLC-driven rows, it
re-runs a sample of them where the rows cannot go.

    python -m vf.variants <variant> [item ...]     (child mode; prints RESULT <json>)
"""
import json
import os
import subprocess
import sys

VERIF = os.path.dirname(os.path.dirname(os.path.abspath(__file__)))
VARIANTS = ('plain', 'opt', 'opt2', 'warp', 'werror', 'clocale', 'dev', 'debuglog', 'asciiout')


# ------------------------------------------------------------------ the virtual clock

class Clock:
    """Virtual wall clock: every reading is `step` later than the last; sleep(x) takes x plus
    the next lateness of a fixed cycle."""
    LATE = [0.015, 0.012, 0.018, 0.010, 0.016, 0.014, 0.019, 0.011, 0.013, 0.017,
            0.0, 0.001, 0.0, 0.002, 0.0, 0.015, 0.0, 0.001, 0.0, 0.0]

    def __init__(self):
        self.now = 1000.0
        self.step = 5.0
        self.nsleep = 0
        self.slept = []

    def read(self):
        self.now += self.step
        return self.now

    def read_ns(self):
        return int(self.read() * 1e9)

    def sleep(self, x):
        x = float(x)
        if x < 0:
            raise ValueError('sleep length must be non-negative')
        late = self.LATE[self.nsleep % len(self.LATE)]
        self.nsleep += 1
        self.slept.append(x)
        self.now += x + late


CLOCK = None


def install_clock():
    global CLOCK
    import time
    CLOCK = c = Clock()
    for name in ('time', 'monotonic', 'perf_counter'):
        setattr(time, name, c.read)
    for name in ('time_ns', 'monotonic_ns', 'perf_counter_ns'):
        setattr(time, name, c.read_ns)
    time.sleep = c.sleep
    return c


# ------------------------------------------------------------------ items

def _msgs(mido):
    M = mido.Message
    return [M('active_sensing'), M('note_on', channel=2, note=60, velocity=100), M('sysex', data=(1, 2, 3, 4, 5, 6)),
            M('control_change', channel=15, control=7, value=127), M('pitchwheel', channel=1, pitch=-8192),
            M('program_change', channel=9, program=5), M('songpos', pos=16383), M('note_off', channel=0, note=0, velocity=0),
            M('polytouch', channel=3, note=1, value=2), M('aftertouch', channel=4, value=9),
            M('quarter_frame', frame_type=7, frame_value=15), M('song_select', song=3), M('clock'),
            M('sysex', data=()), M('note_on', channel=2, note=61, velocity=1)]


def item_wire(mido, out):
    """C01/C02: every type through bytes / hex / the decoders."""
    for m in _msgs(mido):
        b = m.bytes()
        for how, back in (('from_bytes', lambda: mido.Message.from_bytes(b)), ('from_hex', lambda: mido.Message.from_hex(m.hex())),
                          ('from_bytes(bytearray)', lambda: mido.Message.from_bytes(bytearray(b))),
                          ('parse', lambda: mido.parse(b))):
            try:
                r = back()
            except Exception as e:
                out.append(('C01', 'wire', '%s of the bytes of %s raises %r' % (how, m, e)))
                continue
            if r != m or r.bytes() != b or vars(r).keys() != vars(m).keys():
                out.append(('C01', 'wire', '%s of the bytes %r of %s gave %s' % (how, b, m, _s(r))))
    for bad in ([0x90, 60], [0x90, 60, 128], [0xf0, 1], [0xf7], [0x90, 60, 64, 1], [], [0x80], [0xf0, 0xf7, 0], [0xf4], [256]):
        for how, f in (('from_bytes', lambda: mido.Message.from_bytes(bad)),
                       ('from_hex', lambda: mido.Message.from_hex(' '.join('%02X' % x for x in bad)))):
            if how == 'from_hex' and bad == [256]:
                continue
            try:
                r = f()
            except ValueError:
                continue
            except Exception as e:
                out.append(('C02', 'wire', '%s(%r) raises %r, not ValueError' % (how, bad, e)))
                continue
            out.append(('C02', 'wire', '%s(%r) returned %s' % (how, bad, _s(r))))


def item_ranges(mido, out):
    """C03: out-of-range values refused by constructor, assignment and copy."""
    M = mido.Message
    for typ, attr, bad in (('note_on', 'note', 128), ('note_on', 'velocity', -1), ('note_on', 'channel', 16),
                           ('control_change', 'value', 999), ('pitchwheel', 'pitch', 8192), ('songpos', 'pos', 16384),
                           ('program_change', 'program', 128), ('quarter_frame', 'frame_type', 8),
                           ('sysex', 'data', (1, 128)), ('note_on', 'time', 'soon'), ('aftertouch', 'value', 1.5)):
        for how, f in (('constructor', lambda: M(typ, **{attr: bad})), ('copy', lambda: M(typ).copy(**{attr: bad})),
                       ('assignment', lambda: setattr(M(typ), attr, bad)),
                       ('from_dict', lambda: M.from_dict({'type': typ, attr: bad}))):
            try:
                f()
            except (ValueError, TypeError):
                continue
            except Exception as e:
                out.append(('C03', 'ranges', '%s %s.%s=%r raises %r' % (how, typ, attr, bad, e)))
                continue
            out.append(('C03', 'ranges', '%s accepted %s.%s=%r' % (how, typ, attr, bad)))


def _feed_ways(mido):
    from mido.backends._parser_queue import ParserQueue

    def parser(chunks):
        p = mido.Parser()
        got = []
        for c in chunks:
            p.feed(c)
            got += list(p)
        return got

    def parser_blocks(chunks):
        p = mido.Parser()
        got = []
        for i, c in enumerate(chunks):
            p.feed(bytes(c) if i % 2 else bytearray(c))
            got += list(p)
        return got

    def queue_blocks(chunks):
        q = ParserQueue()
        got = []
        for i, c in enumerate(chunks):
            q.put_bytes(bytearray(c) if i % 2 else bytes(c))
            got += list(q.iterpoll())
        return got

    def parser_bytewise(chunks):
        p = mido.Parser()
        got = []
        for c in chunks:
            for b in c:
                p.feed_byte(b)
            while p.pending():
                got.append(p.get_message())
        return got

    def queue(chunks):
        q = ParserQueue()
        got = []
        for c in chunks:
            q.put_bytes(c)
            got += list(q.iterpoll())
        return got

    def tokenizer(chunks):
        from mido.tokenizer import Tokenizer
        t = Tokenizer()
        got = []
        for c in chunks:
            t.feed(c)
            got += [mido.Message.from_bytes(x) for x in t]
        return got
    def hopping(chunks):
        # one stream, fed strictly one call after the other, but each call made by another thread
        # (a worker pool); the calls never overlap
        import threading
        p = mido.Parser()
        got, err = [], []

        def one(c):
            try:
                if len(c) % 2:
                    p.feed(bytes(c))
                else:
                    for b in c:
                        p.feed_byte(b)
                got.extend(p)
            except Exception as e:
                err.append(e)
        for c in chunks:
            t = threading.Thread(target=one, args=(c,))
            t.start()
            t.join()
        if err:
            raise err[0]
        return got

    def hopping_queue(chunks):
        import threading
        q = ParserQueue()
        got, err = [], []

        def one(c):
            try:
                q.put_bytes(c)
            except Exception as e:
                err.append(e)
        keep = []
        for c in chunks:
            t = threading.Thread(target=one, args=(c,))
            t.start()
            t.join()
            keep.append(t)
            got.extend(q.iterpoll())
        if err:
            raise err[0]
        return got
    return (('Parser.feed', parser), ('Parser.feed_byte', parser_bytewise), ('ParserQueue.put_bytes', queue),
            ('Tokenizer.feed', tokenizer), ('Parser.feed(bytes / bytearray)', parser_blocks),
            ('ParserQueue.put_bytes(bytes / bytearray)', queue_blocks), ('Parser fed by one thread after another', hopping),
            ('ParserQueue fed by one thread after another', hopping_queue))


def item_chunks(mido, out):
    """C04/C05/C06: complete messages come out whatever the chunking (and however long the
    caller took between two chunks)."""
    msgs = _msgs(mido)
    stream = [b for m in msgs for b in m.bytes()]
    # real-time bytes inside the sysex and between channel messages
    s2 = [0xfe, 0xf0, 1, 0xf8, 2, 3, 0xf7, 0x92, 60, 100, 0xfa, 0xe1, 0, 0, 0xfe, 0xf0, 0x7e, 0xf7]
    M = mido.Message
    exp2 = [M('active_sensing'), M('clock'), M('sysex', data=(1, 2, 3)), M('note_on', channel=2, note=60, velocity=100), M('start'),
            M('pitchwheel', channel=1, pitch=-8192), M('active_sensing'), M('sysex', data=(0x7e,))]
    s3 = [0xf0] + [i % 128 for i in range(50)] + [0xf8] + [5] * 60 + [0xfe] + [7] * 40 + [0xf7, 0x93, 1, 2]
    exp3 = [M('clock'), M('active_sensing'), M('sysex', data=tuple([i % 128 for i in range(50)] + [5] * 60 + [7] * 40)),
            M('note_on', channel=3, note=1, velocity=2)]
    for name, f in _feed_ways(mido):
        for st, exp, label in ((stream, msgs, 'fifteen messages'), (s2, exp2, 'real-time inside sysex'),
                               (s3, exp3, 'a 150-byte dump with the clock running')):
            cuts = list(range(len(st) + 1)) if len(st) < 60 else [0, 1, 2, 10, 33, 51, 52, 80, 113, len(st) - 4, len(st)]
            seen = 0
            for i in cuts:
                for chunks in ([st[:i], st[i:]], [st[:i], [], st[i:i + 2], st[i + 2:]]):
                    try:
                        got = f(chunks)
                    except Exception as e:
                        out.append(('C04|C05|C06', 'chunks', '%s, %s cut at %d raises %r' % (name, label, i, e)))
                        seen += 1
                        break
                    if got != exp:
                        out.append(('C04|C05|C06', 'chunks', '%s, %s cut at %d: got %s' % (name, label, i, _s(got))))
                        seen += 1
                        break
                if seen >= 2:
                    break
    # resynchronisation: after any prefix a complete message is recognised
    for pre in ([0x90, 60], [0xf0, 1, 2], [0xe0], [0xf2, 1], [0xfe, 0xf0], [0xfe, 0x90], [0xf0, 0x7e, 1, 2, 3], [0xf0, 1, 2, 0xf8, 3]):
        for name, f in _feed_ways(mido):
            for m in (M('note_on', channel=1, note=5, velocity=6), M('sysex', data=(9, 8)), M('songpos', pos=300)):
                b = m.bytes()
                for chunks in ([pre, b], [pre, b[:1], b[1:]], [pre + b[:2], b[2:]]):
                    try:
                        got = f(chunks)
                    except Exception as e:
                        out.append(('C04|C05|C06', 'chunks', '%s prefix %r then %s raises %r' % (name, pre, m, e)))
                        continue
                    tail = [g for g in got if not g.is_realtime]
                    if not tail or tail[-1] != m:
                        out.append(('C04|C05|C06', 'chunks', '%s prefix %r then %s in chunks %r: got %s' % (name, pre, m, chunks, _s(got))))
    del out[12:]


def item_smf(mido, out):
    """C07/C08/C09: a file with every kind of event comes back as it was, and twice the same."""
    import io
    MM, M = mido.MetaMessage, mido.Message
    for charset, text in (('latin1', 'caf\xe9'), ('utf-8', 'caf\xe9 ♫'), ('shift_jis', 'テスト')):
        mid = mido.MidiFile(type=1, ticks_per_beat=96, charset=charset)
        t1 = mido.MidiTrack([MM('track_name', name=text, time=0), MM('set_tempo', tempo=500000, time=0),
                             MM('time_signature', numerator=3, denominator=8, time=0), MM('key_signature', key='F#m', time=1),
                             M('note_on', channel=1, note=60, velocity=64, time=128), M('note_on', channel=1, note=62, velocity=64, time=0),
                             M('sysex', data=(1, 2, 3), time=16384), MM('smpte_offset', frame_rate=25, hours=23, minutes=59, seconds=59,
                                                                        frames=24, sub_frames=99, time=0),
                             MM('sequencer_specific', data=(1, 2), time=0), mido.UnknownMetaMessage(0x60, data=(7,), time=2),
                             MM('end_of_track', time=5)])
        t2 = mido.MidiTrack([MM('lyrics', text=text * 20, time=3), M('program_change', channel=2, program=9, time=0),
                             M('pitchwheel', channel=2, pitch=8191, time=2097152), MM('end_of_track', time=0)])
        mid.tracks += [t1, t2]
        try:
            b1 = io.BytesIO()
            mid.save(file=b1)
            back = mido.MidiFile(file=io.BytesIO(b1.getvalue()), charset=charset)
            b2 = io.BytesIO()
            back.save(file=b2)
        except Exception as e:
            out.append(('C07|C08', 'smf', 'charset %s: save / load / load with debug output raises %r' % (charset, e)))
            continue
        if [list(t) for t in back.tracks] != [list(t) for t in mid.tracks] or back.type != 1 or back.ticks_per_beat != 96:
            out.append(('C07', 'smf', 'charset %s: loaded %s' % (charset, _s([list(t) for t in back.tracks]))))
        if b1.getvalue() != b2.getvalue():
            out.append(('C08', 'smf', 'charset %s: the second save differs from the first' % charset))
        data = b1.getvalue()
        if data[:14] != b'MThd\x00\x00\x00\x06\x00\x01\x00\x02\x00\x60' or data.count(b'MTrk') < 2:
            out.append(('C08', 'smf', 'charset %s: header bytes %r' % (charset, data[:14])))
    # the same with debug output on - it goes to the real stdout of this interpreter, so the file has
    # ASCII texts only (a stdout that cannot encode a text cannot print it, whoever prints) but plenty of
    # bytes above 0xa0 in its numbers and payloads
    mid = mido.MidiFile(type=1, ticks_per_beat=0x7fff)
    mid.tracks.append(mido.MidiTrack([MM('track_name', name='plain', time=0), MM('set_tempo', tempo=0xa9ffe9, time=0xfffff),
                                      MM('sequencer_specific', data=(0xa1, 0xe9, 0xff, 0xb5), time=0), mido.UnknownMetaMessage(0x7e, data=(0xc3, 0xa9), time=0),
                                      MM('sequence_number', number=0xfeff, time=0), M('sysex', data=(0x7f, 0x7e), time=0xa9),
                                      M('pitchwheel', channel=15, pitch=8191, time=0), MM('end_of_track', time=0)]))
    try:
        b = io.BytesIO()
        mid.save(file=b)
        quiet = mido.MidiFile(file=io.BytesIO(b.getvalue()))
        loud = mido.MidiFile(file=io.BytesIO(b.getvalue()), debug=True)
        if [list(t) for t in loud.tracks] != [list(t) for t in quiet.tracks] or [list(t) for t in quiet.tracks] != [list(t) for t in mid.tracks]:
            out.append(('C08', 'smf', 'with debug=True the file loads as %s' % _s([list(t) for t in loud.tracks])))
    except Exception as e:
        out.append(('C08', 'smf', 'loading a file with ASCII texts and high bytes in its payloads with debug=True raises %r' % (e,)))
    for m in (MM('set_tempo', tempo=16777215), MM('sequence_number', number=65535), MM('midi_port', port=255),
              MM('channel_prefix', channel=255), MM('time_signature', numerator=255, denominator=2 ** 15, clocks_per_click=255,
                                                    notated_32nd_notes_per_beat=255), MM('key_signature', key='Cb'),
              MM('marker', text=''), MM('text', text='x' * 200)):
        try:
            r = MM.from_bytes(m.bytes())
        except Exception as e:
            out.append(('C09', 'smf', '%s: %r' % (m, e)))
            continue
        if r != m:
            out.append(('C09', 'smf', '%s came back as %s' % (m, _s(r))))


def item_charset(mido, out):
    """C17: after every load and save - successful or not - the default charset is in force."""
    import io
    MM = mido.MetaMessage

    def probe(where):
        try:
            b = MM('text', text='\xe9').bytes()
            t = MM.from_bytes([0xff, 0x03, 4, 0x43, 0x61, 0x66, 0xe9]).name
        except Exception as e:
            out.append(('C17', 'charset', '%s: the default charset is not in force: %r' % (where, e)))
            return
        if b != [0xff, 1, 1, 0xe9] or t != 'Caf\xe9':
            out.append(('C17', 'charset', '%s: text encodes as %r / decodes as %r' % (where, b, t)))
    for cs in ('utf-8', 'shift_jis', 'utf-16'):
        mid = mido.MidiFile(charset=cs)
        mid.tracks.append(mido.MidiTrack([MM('track_name', name='テ' if cs != 'latin1' else 'x', time=0)]))
        buf = io.BytesIO()
        mid.save(file=buf)
        probe('after a save with charset %s' % cs)
        mido.MidiFile(file=io.BytesIO(buf.getvalue()), charset=cs)
        probe('after a load with charset %s' % cs)
        try:
            mido.MidiFile(file=io.BytesIO(buf.getvalue()[:-2]), charset=cs)
        except Exception:
            pass
        probe('after a failed load with charset %s' % cs)
        mid.tracks[0].append(mido.Message('clock'))
        try:
            mid.save(file=io.BytesIO())
        except Exception:
            pass
        probe('after a failed save with charset %s' % cs)
        with mid:
            pass
        probe('after a with-block on a file with charset %s' % cs)
        del out[3:]


def item_ports(mido, out):
    """C10/C11: in order, once; close twice; nothing after close."""
    import mido.ports as mp
    p = mp.EchoPort()
    ms = _msgs(mido)
    for m in ms:
        p.send(m)
    got = [p.receive(), p.poll()] + list(p.iter_pending())
    if got != ms:
        out.append(('C10', 'ports', 'EchoPort handed out %s' % _s(got)))
    if p.poll() is not None:
        out.append(('C10', 'ports', 'a message came out twice'))
    p.send(ms[1])
    p.close()
    p.close()
    try:
        p.send(ms[1])
        out.append(('C11', 'ports', 'send on a closed port succeeded'))
    except ValueError:
        pass
    rest = list(p)
    if rest != [ms[1]]:
        out.append(('C11', 'ports', 'iteration of a closed port gave %s' % _s(rest)))
    a, b = mp.EchoPort(), mp.EchoPort()
    mp_ = mp.MultiPort([a, b])
    a.send(ms[1])
    r = mp_.receive()
    if r != ms[1]:
        out.append(('C11', 'ports', 'MultiPort.receive gave %s' % _s(r)))
    # a long backlog on one member, a short one on the other
    M = mido.Message
    for i in range(2500):
        a.send(M('pitchwheel', channel=0, pitch=i))
    for i in range(7):
        b.send(M('pitchwheel', channel=1, pitch=i))
    got = []
    for _ in range(6000):
        r = mp_.poll()
        if r is None:
            break
        got.append(r)
    ga, gb = [g.pitch for g in got if g.channel == 0], [g.pitch for g in got if g.channel == 1]
    if ga != list(range(2500)) or gb != list(range(7)):
        missing = sorted(set(range(2500)) - set(ga))[:5]
        out.append(('C10', 'ports', 'MultiPort over a member with 2500 messages pending and one with 7: %d and %d came out, '
                    'missing %r' % (len(ga), len(gb), missing)))
    # a device that reads blocks of bytes into a parser queue while its clock runs inside a dump
    from mido.backends._parser_queue import ParserQueue
    q = ParserQueue()
    dump = bytes([0xf0] + [1] * 40 + [0xf8] + [2] * 70 + [0xf7, 0x90, 1, 2])
    try:
        q.put_bytes(dump[:10])
        q.put_bytes(dump[10:])
        got = [q.get(), q.get(), q.poll(), q.poll()]
    except Exception as e:
        got = e
    exp = [M('clock'), M('sysex', data=(1,) * 40 + (2,) * 70), M('note_on', note=1, velocity=2), None]
    if got != exp:
        out.append(('C10', 'ports', 'a parser queue given a dump with the clock inside as two blocks of bytes handed out %s' % _s(got)))
    if CLOCK:
        _late_receive(mido, mp, out)


def _late_receive(mido, mp, out):
    """C11: a blocking receive returns as soon as a message is deliverable - also when it has been
    waiting for a long time.  The device makes its message available at a virtual time T; receive()
    must return within one polling pause (plus the lateness of sleep) after T."""
    import time
    clock = CLOCK
    old = clock.step
    clock.step = 0.00001

    class Dev(mp.BaseInput):
        def _receive(self, block=True):
            if clock.now >= self.at and not self.done:
                self.done = True
                self._parser.feed([0x90, 1, 2])
    try:
        for silence in (0.05, 2.0, 90.0):
            for wrap in (False, True):
                d = Dev('d')
                d.at, d.done = clock.now + silence, False
                port = mp.MultiPort([d]) if wrap else d
                t_avail = d.at
                port.receive()
                lateness = clock.now - t_avail
                if lateness > mp.get_sleep_time() + 0.05:
                    out.append(('C11', 'ports', 'a blocking receive on %s that had waited %.2f s handed out the message %.2f s after '
                                'it was deliverable' % ('a MultiPort' if wrap else 'a device port', silence, lateness)))
                    return
    except Exception as e:
        out.append(('C11', 'ports', 'blocking receive under the virtual clock raises %r' % (e,)))
    finally:
        clock.step = old


def item_socket(mido, out):
    """C18: what the peer wrote comes out, the port stays open while the peer is connected -
    however long nothing arrives - and closes when the peer has gone."""
    import socket
    from mido.sockets import SocketPort
    a, b = socket.socketpair()
    a.settimeout(8)
    b.settimeout(8)
    port = SocketPort('x', 1, conn=a)
    M = mido.Message
    try:
        b.sendall(bytes([0xfe, 0x90, 60, 64]))
        got = _drain(port)
        for _ in range(4):
            got += _drain(port)          # nothing arrives for a while
        if port.closed:
            out.append(('C18', 'socket', 'the port closed itself although the peer is connected'))
            return
        b.sendall(bytes([0x80, 60]))
        got += _drain(port)
        b.sendall(bytes([0, 0xf8]))
        got += _drain(port)
        exp = [M('active_sensing'), M('note_on', note=60, velocity=64), M('clock'), M('note_off', note=60, velocity=0)]
        if sorted(map(str, got)) != sorted(map(str, exp)) or [g for g in got if not g.is_realtime] != [e for e in exp if not e.is_realtime]:
            out.append(('C18', 'socket', 'received %s' % _s(got)))
        port.send(M('note_on', note=1))
        if b.recv(3) != bytes([0x90, 1, 64]):
            out.append(('C18', 'socket', 'the peer did not see what was sent'))
        b.sendall(bytes([0x90, 5]))
        b.close()
        got = _drain(port) + _drain(port)
        if got or not port.closed:
            out.append(('C18', 'socket', 'after the peer closed inside a message: %s, closed=%r' % (_s(got), port.closed)))
    except Exception as e:
        out.append(('C18', 'socket', 'raises %r' % (e,)))
    finally:
        for s in (a, b):
            try:
                s.close()
            except Exception:
                pass


def _drain(port):
    import select
    try:
        select.select([port._socket.fileno()], [], [], 0.05)
    except Exception:
        pass
    got = []
    for _ in range(3):
        got += list(port.iter_pending())
    return got


def item_play(mido, out):
    """C13: with a clock that is read late and a sleep that returns late by varying amounts, no
    message is yielded before its scheduled time, and the times yielded add up."""
    import time
    from fractions import Fraction
    MM, M = mido.MetaMessage, mido.Message
    mid = mido.MidiFile(type=1, ticks_per_beat=100)
    tr = mido.MidiTrack([MM('set_tempo', tempo=500000, time=0)])
    for i in range(40):
        tr.append(M('note_on', note=i, velocity=64, time=2 + (i % 5) * 3))     # 10 .. 70 ms apart
        if i == 20:
            tr.append(MM('set_tempo', tempo=250000, time=0))
    mid.tracks.append(tr)
    sched, t, tempo = [], Fraction(0), 500000
    for m in tr:
        t += Fraction(m.time * tempo, 100 * 10 ** 6)
        if m.type == 'set_tempo':
            tempo = m.tempo
        else:
            sched.append(t)
    clock = CLOCK
    old = clock.step if clock else None
    if clock:
        clock.step = 0.0001
        now, start = time.time, None
    else:
        class _C:
            pass
        v = [0.0]

        def now():
            return v[0]
        import mido.midifiles.midifiles as mm
        saved = mm.time

        class _T:
            time = staticmethod(now)

            @staticmethod
            def sleep(x):
                if x < 0:
                    raise ValueError('negative sleep')
                v[0] += x
        mm.time = _T
    try:
        t0 = now()
        k = 0
        for m in mid.play(now=now):
            at = now() - t0
            if at < float(sched[k]) - 0.0006:
                out.append(('C13', 'play', 'message %d (scheduled at %.4f s) was yielded at %.4f s on the supplied clock'
                            % (k, float(sched[k]), at)))
                break
            k += 1
        if k != len(sched) and not out:
            out.append(('C13', 'play', '%d of %d messages played' % (k, len(sched))))
    except Exception as e:
        out.append(('C13', 'play', 'play raises %r' % (e,)))
    finally:
        if clock:
            clock.step = old
        else:
            mm.time = saved
    total = sum(Fraction(m.time).limit_denominator(10 ** 9) for m in mid)
    if abs(float(total) - float(sched[-1])) > 1e-6 or abs(mid.length - float(sched[-1])) > 1e-6:
        out.append(('C13', 'play', 'iteration times add up to %r, length %r, tempo map %r' % (float(total), mid.length, float(sched[-1]))))


def item_text(mido, out):
    """C12/C14/C19: merge, text form and syx files."""
    import io
    import tempfile
    M = mido.Message
    for m in _msgs(mido):
        m = m.copy(time=1.5)
        try:
            r = M.from_str(str(m))
        except Exception as e:
            out.append(('C14', 'text', 'from_str(str(%s)) raises %r' % (m, e)))
            continue
        if r != m:
            out.append(('C14', 'text', '%s came back as %s' % (m, _s(r))))
    a = mido.MidiTrack([M('note_on', note=1, time=10), M('note_on', note=2, time=10)])
    b = mido.MidiTrack([M('note_on', note=3, time=5), M('note_on', note=4, time=10), M('note_on', note=5, time=5)])
    got = [(m.note, m.time) for m in mido.merge_tracks([a, b]) if m.type == 'note_on']
    if got != [(3, 5), (1, 5), (4, 5), (2, 5), (5, 0)]:
        out.append(('C12', 'text', 'merge gave %r' % (got,)))
    sx = [M('sysex', data=(1, 2, 3)), M('sysex', data=()), M('sysex', data=tuple(range(100)))]
    d = tempfile.mkdtemp(prefix='vfvar-')
    try:
        for plain in (False, True):
            path = os.path.join(d, 'x.syx')
            mido.write_syx_file(path, sx + [M('clock')], plaintext=plain)
            r = mido.read_syx_file(path)
            if r != sx:
                out.append(('C19', 'text', 'plaintext=%r: read back %s' % (plain, _s(r))))
    except Exception as e:
        out.append(('C19', 'text', 'raises %r' % (e,)))
    finally:
        import shutil
        shutil.rmtree(d, ignore_errors=True)


def item_value(mido, out):
    """C15: copies, frozen and thawed messages equal the original and share nothing with it."""
    from mido.frozen import freeze_message, thaw_message, is_frozen
    M, MM = mido.Message, mido.MetaMessage
    for m in _msgs(mido) + [MM('set_tempo', tempo=3), MM('sequencer_specific', data=(1, 2)), MM('text', text='x'),
                            mido.UnknownMetaMessage(0x60, data=(1,)), MM('key_signature', key='Cm')]:
        try:
            c, f = m.copy(), freeze_message(m)
            t = thaw_message(f)
            ok = c == m and f == m and t == m and type(c) is type(m) and type(t) is type(m) and is_frozen(f) and not is_frozen(t)
            ok = ok and hash(f) == hash(freeze_message(m.copy())) and {f: 1}[freeze_message(c)] == 1 and freeze_message(f) is f
            c.time = 7
            t.time = 9
            ok = ok and m.time == 0 and f.time == 0
            try:
                f.time = 1
                ok = False
            except (AttributeError, ValueError, TypeError):
                pass
            o = m.copy(time=5)
            ok = ok and o.time == 5 and o.copy(time=0) == m
        except Exception as e:
            out.append(('C15', 'value', '%s: %r' % (m, e)))
            continue
        if not ok:
            out.append(('C15', 'value', 'copy / freeze / thaw of %s: copy %s, frozen %s, thawed %s' % (m, _s(c), _s(f), _s(t))))
    if freeze_message(None) is not None or thaw_message(None) is not None:
        out.append(('C15', 'value', 'None is not mapped to None'))


def item_edits(mido, out):
    """C16: after edits, every observation is that of a freshly built file with the same contents."""
    import io
    M, MM = mido.Message, mido.MetaMessage
    mid = mido.MidiFile(type=1, ticks_per_beat=100)
    tr = mid.add_track('a')
    tr.append(M('note_on', note=1, time=50))
    obs0 = (list(mid), mid.length)
    tr.append(M('note_on', note=2, time=100))
    mid.tracks.append(mido.MidiTrack([MM('set_tempo', tempo=250000, time=25), M('note_on', note=3, time=100)]))
    tr[1].time = 60
    mid.ticks_per_beat = 50
    del mid.tracks[0][0]
    fresh = mido.MidiFile(type=1, ticks_per_beat=50)
    for t in mid.tracks:
        fresh.tracks.append(mido.MidiTrack(m.copy() for m in t))

    def observe(x):
        b = io.BytesIO()
        x.save(file=b)
        return [str(m) for m in x], round(x.length, 9), [str(m) for m in x.merged_track], b.getvalue()
    try:
        a, b = observe(mid), observe(fresh)
    except Exception as e:
        out.append(('C16', 'edits', repr(e)))
        return
    if a != b:
        out.append(('C16', 'edits', 'the edited file shows %s, a fresh one with the same contents %s' % (_s(a[:2]), _s(b[:2]))))


def item_backend(mido, out):
    """C20: the module is imported at first use, explicit names beat the environment, the API suffix
    reaches the constructors, set_backend rebinds."""
    import shutil
    import tempfile
    d = tempfile.mkdtemp(prefix='vfvar-')
    saved_env = {k: os.environ.get(k) for k in ('MIDO_BACKEND', 'MIDO_DEFAULT_INPUT', 'MIDO_DEFAULT_OUTPUT', 'MIDO_DEFAULT_IOPORT')}
    try:
        with open(os.path.join(d, 'vfvar_backend.py'), 'w') as f:
            f.write("calls = []\nclass _P:\n    def __init__(self, name=None, **kw):\n        self.name = name; self.closed = False; self._messages = __import__('collections').deque()\n"
                    "        calls.append((type(self).__name__, name, kw.get('api')))\n"
                    "    def close(self):\n        self.closed = True\n"
                    "class Input(_P): pass\nclass Output(_P): pass\n"
                    "def get_devices(**kw):\n    calls.append(('get_devices', None, kw.get('api')))\n"
                    "    return [{'name': 'a', 'is_input': True, 'is_output': True}, {'name': 'b', 'is_input': True, 'is_output': False}]\n")
        sys.path.insert(0, d)
        for k in saved_env:
            os.environ.pop(k, None)
        os.environ['MIDO_DEFAULT_INPUT'] = 'from-env'
        b = mido.Backend('vfvar_backend/API7')
        if 'vfvar_backend' in sys.modules or b.loaded:
            out.append(('C20', 'backend', 'the module was imported before first use'))
        b.open_input()
        b.open_input('explicit')
        b.open_ioport('io')
        names = (b.get_input_names(), b.get_ioport_names())
        mod = sys.modules.get('vfvar_backend')
        calls = getattr(mod, 'calls', None)
        exp = [('Input', 'from-env', 'API7'), ('Input', 'explicit', 'API7'), ('Input', 'io', 'API7'), ('Output', 'io', 'API7'),
               ('get_devices', None, 'API7'), ('get_devices', None, 'API7')]
        if calls != exp or names != (['a', 'b'], ['a']):
            out.append(('C20', 'backend', 'calls %r, listings %r' % (calls, names)))
        old = mido.backend
        try:
            mido.set_backend(b)
            if mido.backend is not b or mido.open_input.__self__ is not b:
                out.append(('C20', 'backend', 'set_backend did not rebind the top-level functions'))
        finally:
            mido.set_backend(old)
    except Exception as e:
        out.append(('C20', 'backend', repr(e)))
    finally:
        for k, v in saved_env.items():
            if v is None:
                os.environ.pop(k, None)
            else:
                os.environ[k] = v
        if d in sys.path:
            sys.path.remove(d)
        sys.modules.pop('vfvar_backend', None)
        shutil.rmtree(d, ignore_errors=True)


ITEMS = {'backend': item_backend, 'value': item_value, 'edits': item_edits, 'wire': item_wire, 'ranges': item_ranges, 'chunks': item_chunks, 'smf': item_smf, 'charset': item_charset,
         'ports': item_ports, 'socket': item_socket, 'play': item_play, 'text': item_text}
# which items can produce findings for which property
BY_PID = {'C20': ['backend'], 'C15': ['value'], 'C16': ['edits'], 'C01': ['wire'], 'C02': ['wire'], 'C03': ['ranges'], 'C04': ['chunks'], 'C05': ['chunks'], 'C06': ['chunks'],
          'C07': ['smf'], 'C08': ['smf'], 'C09': ['smf'], 'C10': ['ports'], 'C11': ['ports'], 'C12': ['text'],
          'C13': ['play'], 'C14': ['text'], 'C17': ['charset'], 'C18': ['socket'], 'C19': ['text']}


def _s(x, limit=240):
    try:
        r = repr(x)
    except Exception as e:
        r = '<unprintable: %r>' % (e,)
    return r if len(r) <= limit else r[:limit] + '...'


# ------------------------------------------------------------------ child / parent

def child(variant, items):
    if variant == 'warp':
        install_clock()
    if variant == 'debuglog':
        # an application that has switched on debug logging for everything
        import logging
        logging.basicConfig(level=logging.DEBUG, stream=open(os.devnull, 'w'))
        logging.getLogger().setLevel(logging.DEBUG)
    sys.path.insert(0, VERIF)
    from vf import core
    mido = core.import_mido()
    if os.environ.get('VF_VARIANT_SABOTAGE'):
        # selftest only: a decoder that loses the last attribute must be reported by the 'wire' item
        real = mido.Message.from_bytes.__func__

        def lossy(cls, data, time=0):
            m = real(cls, data, time)
            if m.type == 'note_on':
                vars(m)['velocity'] = 0
            return m
        mido.Message.from_bytes = classmethod(lossy)
    out = []
    for name in items:
        try:
            ITEMS[name](mido, out)
        except Exception as e:
            import traceback
            out.append(('?', name, 'battery item failed: %r %s' % (e, traceback.format_exc()[-300:])))
    print('RESULT ' + json.dumps(out))


def run_child(variant, items, timeout=300):
    flags = {'plain': [], 'opt': ['-O'], 'opt2': ['-OO'], 'warp': [], 'werror': ['-W', 'error'], 'clocale': [],
             'dev': ['-X', 'dev'], 'debuglog': [], 'asciiout': []}[variant]
    env = dict(os.environ)
    env.pop('PYTHONOPTIMIZE', None)
    if variant == 'clocale':
        env.update({'LC_ALL': 'C', 'LANG': 'C', 'PYTHONUTF8': '0', 'PYTHONCOERCECLOCALE': '0'})
        env.pop('PYTHONIOENCODING', None)
    if variant == 'dev':
        env['PYTHONHASHSEED'] = '12345'
    if variant == 'asciiout':
        env['PYTHONIOENCODING'] = 'ascii'
    p = subprocess.run([sys.executable] + flags + ['-m', 'vf.variants', variant] + list(items), cwd=VERIF, env=env,
                       stdout=subprocess.PIPE, stderr=subprocess.PIPE, text=True, timeout=timeout)
    for line in p.stdout.splitlines():
        if line.startswith('RESULT '):
            return [tuple(x) for x in json.loads(line[7:])]
    from . import core
    raise core.Machinery('variant %s child gave no result (rc %s): %s' % (variant, p.returncode, p.stderr[-400:]))


def check(ctx, pid):
    """Run this property's items in every variant; a finding is a violation of `pid` only if the
    item attributes it to `pid` ('?' = the item itself crashed: attributed to every property it serves)."""
    items = BY_PID.get(pid, [])
    if not items:
        return
    from concurrent.futures import ThreadPoolExecutor
    with ThreadPoolExecutor(len(VARIANTS)) as ex:
        res = list(ex.map(lambda v: (v, run_child(v, items)), VARIANTS))
    n = 0
    for variant, out in res:
        n += 1
        seen = set()
        for p, item, detail in out:
            if (pid not in p.split('|') and p != '?') or (variant, item) in seen:
                continue
            seen.add((variant, item))
            ctx.violation('variant/%s/%s' % (variant, item), {'kind': 'variant', 'pid': pid, 'variant': variant, 'item': item},
                          'in a fresh interpreter (%s): %s' % (DESCR[variant], detail))
    ctx.replayed += n * len(items)
    ctx.count('interpreter_variants', n)


DESCR = {'plain': 'started plainly', 'opt': 'python -O', 'opt2': 'python -OO',
         'warp': 'wall clock read seconds later at every reading, sleep() returning late',
         'werror': 'python -W error (warnings are exceptions)', 'clocale': 'LC_ALL=C, PYTHONUTF8=0',
         'dev': 'python -X dev, another hash seed', 'debuglog': 'logging.basicConfig(level=DEBUG) before mido is imported',
         'asciiout': 'PYTHONIOENCODING=ascii (a stdout that cannot encode Latin-1 letters)'}


def replay(case):
    out = run_child(case['variant'], [case['item']])
    bad = [d for p, item, d in out if case['pid'] in p.split('|') or p == '?']
    return bad[0] if bad else None


if __name__ == '__main__':
    child(sys.argv[1], sys.argv[2:] or sorted(ITEMS))
