"""A recording stand-in for the python-rtmidi module (not installed here), so
that mido.backends.rtmidi - the backend whose callback feeds device bytes
through Message.from_bytes - can be exercised."""
import sys
import types

API_UNSPECIFIED = 0
API_LINUX_ALSA = 2


class _Base:
    instances = []

    def __init__(self, name=None, rtapi=API_UNSPECIFIED, **kw):
        self.client_name = name
        self.rtapi = rtapi
        self.opened = None
        self.closed = False
        self.deleted = False
        self.callback = None
        self.sent = []
        _Base.instances.append(self)

    def get_ports(self):
        return ['Fake Port 0', 'Fake Port 1']

    def get_current_api(self):
        return API_LINUX_ALSA

    def open_port(self, port_id):
        self.opened = port_id

    def open_virtual_port(self, name):
        self.opened = name

    def close_port(self):
        self.closed = True

    def delete(self):
        self.deleted = True


class MidiIn(_Base):
    def ignore_types(self, *a):
        self.ignored = a

    def set_callback(self, fn, data=None):
        self.callback = fn

    def cancel_callback(self):
        self.callback = None

    def deliver(self, raw, delta=0.0):
        """What the real library does from its own thread."""
        if self.callback is not None:
            self.callback((list(raw), delta), None)


class MidiOut(_Base):
    def send_message(self, data):
        self.sent.append(list(data))


def install():
    """Put the stand-in into sys.modules and (re)import mido.backends.rtmidi."""
    mod = types.ModuleType('rtmidi')
    mod.API_UNSPECIFIED = API_UNSPECIFIED
    mod.API_LINUX_ALSA = API_LINUX_ALSA
    mod.MidiIn = MidiIn
    mod.MidiOut = MidiOut
    mod.get_compiled_api = lambda: [API_LINUX_ALSA]
    saved = sys.modules.get('rtmidi')
    sys.modules['rtmidi'] = mod
    sys.modules.pop('mido.backends.rtmidi', None)
    import importlib
    backend = importlib.import_module('mido.backends.rtmidi')
    return backend, saved


def uninstall(saved):
    sys.modules.pop('mido.backends.rtmidi', None)
    if saved is None:
        sys.modules.pop('rtmidi', None)
    else:
        sys.modules['rtmidi'] = saved
