"""A recording stand-in for the python-rtmidi module (not installed here), so
that mido.backends.rtmidi - the backend whose callback feeds device bytes
through Message.from_bytes - can be exercised."""
import sys
import types

API_UNSPECIFIED = 0
API_LINUX_ALSA = 2
# every API the real library knows (a build has some of them)
APIS = {'API_UNSPECIFIED': 0, 'API_MACOSX_CORE': 1, 'API_LINUX_ALSA': 2, 'API_UNIX_JACK': 3, 'API_WINDOWS_MM': 4,
        'API_RTMIDI_DUMMY': 5, 'API_WEB_MIDI': 6, 'API_WINDOWS_UWP': 7, 'API_ANDROID': 8}


class _Base:
    instances = []

    def __init__(self, name=None, rtapi=API_UNSPECIFIED, **kw):
        self.client_name = name
        self.rtapi = rtapi
        self.opened = None
        self.closed = False
        self.deleted = False
        self.callback = None
        self.sent = []
        _Base.instances.append(self)

    def get_ports(self):
        return ['Fake Port 0', 'Fake Port 1']

    def get_current_api(self):
        return self.rtapi if self.rtapi else API_LINUX_ALSA

    def open_port(self, port_id):
        self.opened = port_id

    def open_virtual_port(self, name):
        self.opened = name

    def close_port(self):
        self.closed = True

    def delete(self):
        self.deleted = True


class MidiIn(_Base):
    def ignore_types(self, *a):
        self.ignored = a

    def set_callback(self, fn, data=None):
        self.callback = fn

    def cancel_callback(self):
        self.callback = None

    def deliver(self, raw, delta=0.0):
        """What the real library does from its own thread."""
        if self.callback is not None:
            self.callback((list(raw), delta), None)


class MidiOut(_Base):
    def send_message(self, data):
        self.sent.append(list(data))


def install():
    """Put the stand-in into sys.modules and (re)import mido.backends.rtmidi."""
    mod = types.ModuleType('rtmidi')
    for k, v in APIS.items():
        setattr(mod, k, v)
    mod.MidiIn = MidiIn
    mod.MidiOut = MidiOut
    mod.get_compiled_api = lambda: [v for k, v in sorted(APIS.items(), key=lambda kv: kv[1]) if v]
    saved = sys.modules.get('rtmidi')
    sys.modules['rtmidi'] = mod
    sys.modules.pop('mido.backends.rtmidi', None)
    import importlib
    backend = importlib.import_module('mido.backends.rtmidi')
    return backend, saved


def uninstall(saved):
    sys.modules.pop('mido.backends.rtmidi', None)
    if saved is None:
        sys.modules.pop('rtmidi', None)
    else:
        sys.modules['rtmidi'] = saved
