"""Reader for TLA+ values as printed by TLC (ToString / PrintT).

Handles: integers, strings, TRUE/FALSE, model values / identifiers,
sequences/tuples <<...>>, sets {...}, records [a |-> v, ...],
functions (k :> v @@ k :> v), and intervals a..b.
Sequences -> list, sets -> frozenset-like list (kept as sorted list when
possible, tagged as tuple ('set', [...])) -> here: Python list wrapped in
TlaSet, records -> dict, functions -> dict.
"""
import re

_TOKEN = re.compile(r'''
    \s*(
      <<|>>|\|->|:>|@@|\.\.|[\[\]{}(),]
     |"(?:[^"\\]|\\.)*"
     |-?\d+
     |[A-Za-z_][A-Za-z0-9_!]*
    )''', re.X)


class TlaSet(list):
    pass


def tokenize(text):
    pos = 0
    out = []
    n = len(text)
    while pos < n:
        m = _TOKEN.match(text, pos)
        if not m:
            if text[pos:].strip() == '':
                break
            raise ValueError('cannot tokenize TLA value at %r' % text[pos:pos + 40])
        out.append(m.group(1))
        pos = m.end()
    return out


def _unescape(s):
    return s[1:-1].replace('\\"', '"').replace('\\\\', '\\')


def parse(text):
    toks = tokenize(text)
    val, i = _parse(toks, 0)
    if i != len(toks):
        raise ValueError('trailing tokens in TLA value: %r' % toks[i:i + 5])
    return val


def _parse(t, i):
    tok = t[i]
    if tok == '<<':
        i += 1
        out = []
        if t[i] == '>>':
            return out, i + 1
        while True:
            v, i = _parse(t, i)
            out.append(v)
            if t[i] == ',':
                i += 1
            elif t[i] == '>>':
                return out, i + 1
            else:
                raise ValueError('bad sequence')
    if tok == '{':
        i += 1
        out = TlaSet()
        if t[i] == '}':
            return out, i + 1
        while True:
            v, i = _parse(t, i)
            out.append(v)
            if t[i] == ',':
                i += 1
            elif t[i] == '}':
                return out, i + 1
            else:
                raise ValueError('bad set')
    if tok == '[':
        i += 1
        out = {}
        if t[i] == ']':
            return out, i + 1
        while True:
            name = t[i]
            if t[i + 1] != '|->':
                raise ValueError('bad record')
            v, i = _parse(t, i + 2)
            out[name] = v
            if t[i] == ',':
                i += 1
            elif t[i] == ']':
                return out, i + 1
            else:
                raise ValueError('bad record')
    if tok == '(':
        # function: (k :> v @@ k :> v)
        i += 1
        out = {}
        while True:
            k, i = _parse(t, i)
            if t[i] != ':>':
                raise ValueError('bad function')
            v, i = _parse(t, i + 1)
            out[_hashable(k)] = v
            if t[i] == '@@':
                i += 1
            elif t[i] == ')':
                return out, i + 1
            else:
                raise ValueError('bad function')
    if tok[0] == '"':
        return _unescape(tok), i + 1
    if tok == 'TRUE':
        return True, i + 1
    if tok == 'FALSE':
        return False, i + 1
    if tok[0].isdigit() or tok[0] == '-':
        v = int(tok)
        if i + 1 < len(t) and t[i + 1] == '..':
            hi = int(t[i + 2])
            return TlaSet(range(v, hi + 1)), i + 3
        return v, i + 1
    return tok, i + 1   # model value / identifier


def _hashable(v):
    if isinstance(v, list):
        return tuple(_hashable(x) for x in v)
    if isinstance(v, dict):
        return tuple(sorted((k, _hashable(x)) for k, x in v.items()))
    return v


def to_tla(v):
    """Python -> TLA+ literal text (ints, bools, str, list->seq, dict->record,
    TlaSet/set -> set)."""
    if isinstance(v, bool):
        return 'TRUE' if v else 'FALSE'
    if isinstance(v, int):
        return str(v)
    if isinstance(v, str):
        return '"' + v.replace('\\', '\\\\').replace('"', '\\"') + '"'
    if isinstance(v, (TlaSet, set, frozenset)):
        return '{' + ', '.join(to_tla(x) for x in v) + '}'
    if isinstance(v, (list, tuple)):
        return '<<' + ', '.join(to_tla(x) for x in v) + '>>'
    if isinstance(v, dict):
        return '[' + ', '.join('%s |-> %s' % (k, to_tla(x)) for k, x in v.items()) + ']'
    raise TypeError('cannot render %r as TLA' % (v,))
