"""Re-entrancy of the library's pure functions: two (or more) threads call
them at the same time, with a thread switch possible before EVERY statement of
the mido source files (sys.settrace), and every schedule with at most K
preemptions is executed (iterative context bounding by re-execution, as
portrun.explore does for ports).  Whatever the schedule, every call must return
what it returns when run alone.

    bad = conc.explore_calls([thunk1, thunk2], max_preempt=1)
    -> list of (schedule, results, expected) for schedules whose results differ
"""
import glob
import os

from . import core, sched as S


def mido_files(sub=('messages', 'midifiles', '')):
    root = os.path.join(core.REPO, 'mido')
    out = []
    for s in sub:
        out += glob.glob(os.path.join(root, s, '*.py'))
    return [f for f in out if os.path.isfile(f)]


def _norm(x):
    """Comparable, printable form of a result."""
    try:
        if isinstance(x, BaseException):
            return 'raise:' + type(x).__name__
        if hasattr(x, 'is_meta') or hasattr(x, 'bytes'):
            return ('msg', type(x).__name__, core.srepr(x))
        if isinstance(x, (list, tuple)):
            return [_norm(y) for y in x]
        return x
    except Exception as e:           # a broken object
        return 'unprintable:%s' % type(e).__name__


def call(thunk):
    try:
        return _norm(thunk())
    except Exception as e:
        return _norm(e)


def after(fn):
    """Marks a thunk that is not a thread of its own: it runs once all threads have finished, and its
    result is part of the outcome (damage that shows only in a LATER call)."""
    fn.after = True
    return fn


def opcodes(fn, *modules):
    """Marks a thunk whose scenario is to be scheduled at bytecode granularity inside `modules`."""
    fn.opcode_files = [m.__file__ for m in modules]
    return fn


def run_schedule(thunks, prefix, files, budget=4000):
    """Run the thunks as threads 1..n; follow `prefix`, then let the current
    thread run on while it can.  Returns (results, choices)."""
    afters = [th for th in thunks if getattr(th, 'after', False)]
    thunks = [th for th in thunks if not getattr(th, 'after', False)]
    ofiles = [f for th in thunks for f in getattr(th, 'opcode_files', [])]
    sc = S.Scheduler(budget=budget * (8 if ofiles else 1), trace_files=files, opcode_files=ofiles)
    saved = S.SCHED
    S.SCHED = sc
    try:
        for i, th in enumerate(thunks):
            sc.spawn(i + 1, (lambda th=th: call(th)))
        for t in list(sc.ts):
            sc.step(t)                       # run to the first statement
        choices = []
        last = None
        pos = 0
        guard = 0
        while not sc.all_done():
            run = sc.runnable()
            if not run:
                break
            guard += 1
            if guard > budget * (len(thunks) + 1):
                break
            if pos < len(prefix) and prefix[pos] in run:
                t = prefix[pos]
            else:
                t = last if last in run else run[0]
            pos += 1
            choices.append((t, tuple(run), last))
            last = t
            sc.step(t)
        results = []
        for i in range(len(thunks)):
            st = sc.ts[i + 1]
            if not st.done:
                results.append('hang')
            elif st.exc is not None:
                results.append('raise:' + type(st.exc).__name__)
            else:
                results.append(st.result)
        S.SCHED = saved
        for a in afters:
            results.append(call(a))
        return results, choices
    finally:
        S.SCHED = saved


def explore_calls(thunks, max_preempt=1, files=None, limit=3000, expected=None, step_budget=0):
    sampled = False
    """All schedules with <= max_preempt preemptions.  Returns
    (runs, complete, bad) with bad = [(schedule, results, expected)]."""
    files = files or mido_files()
    if expected is None:
        expected = [call(th) for th in thunks]
    stack = [([], 0)]
    runs, bad = 0, []
    while stack:
        if runs >= limit:
            return runs, False, bad
        prefix, used = stack.pop()
        results, ch = run_schedule(thunks, prefix, files)
        runs += 1
        sched = [c[0] for c in ch]
        if results != expected and len(bad) < 5:
            bad.append((sched, results, expected))
        positions = list(range(len(prefix), len(ch)))
        if not prefix and step_budget:
            limit = min(limit, max(20, step_budget // max(1, len(ch))))
        nthr = len([t for t in thunks if not getattr(t, 'after', False)])
        if not prefix and limit and len(positions) > limit // max(1, nthr - 1):
            # too many preemption points for the budget: evenly spaced sample (stated in the evidence)
            step = -(-len(positions) * max(1, nthr - 1) // limit)
            positions = positions[::step]
            sampled = True
        for i in positions:
            chosen, runnable, last = ch[i]
            for alt in runnable:
                if alt == chosen:
                    continue
                cost = 1 if last in runnable else 0
                if used + cost <= max_preempt:
                    stack.append((sched[:i] + [alt], used + cost))
    return runs, not sampled, bad


def check(ctx, name, thunks, max_preempt=1, keyprefix='reentrancy'):
    """Explore and report through ctx; the replay case names the scenario."""
    runs, complete, bad = explore_calls(thunks, max_preempt)
    ctx.replayed += runs
    ctx.count('reentrancy_schedules', runs)
    if not complete:
        ctx.count('reentrancy_cut_at_limit', 1)
    for sched, results, expected in bad[:2]:
        ctx.violation('%s/%s' % (keyprefix, name), {'kind': 'reentrancy', 'name': name, 'schedule': sched},
                      'two threads, schedule %r: calls returned %r, alone they return %r' % (
                          sched[:60], results, expected))
    return runs


def _sock_roundtrip(data):
    import socket
    from mido.sockets import SocketPort
    a, b = socket.socketpair()
    a.settimeout(5)
    b.settimeout(5)
    port = SocketPort('x', 1, conn=a)
    try:
        b.sendall(bytes(data))
        got = []
        for _ in range(3):
            got += [m.bytes() for m in port.iter_pending()]
        return got
    finally:
        port.close()
        b.close()


# ---- scenarios (by name, so that a replay file can name them) ------------------

def scenarios(pid):
    mido = core.import_mido()
    M, MM = mido.Message, mido.MetaMessage
    from mido.frozen import freeze_message, thaw_message
    sc = {}
    if pid in ('C01', 'C02'):
        sc['from_bytes/same-status'] = [lambda: M.from_bytes([0x90, 1, 2]), lambda: M.from_bytes([0x90, 5, 6])]
        sc['from_bytes/sysex+songpos'] = [lambda: M.from_bytes([0xf0, 1, 2, 3, 0xf7]), lambda: M.from_bytes([0xf0, 0xf7]),
                                          lambda: M.from_hex('F2 01 02')]
        sc['from_bytes/valid+invalid'] = [lambda: M.from_bytes([0xe1, 1, 2]), lambda: M.from_bytes([0xe1, 200, 2]),
                                          lambda: M.from_bytes([0xe1, 7])]
    if pid in ('C04', 'C05', 'C06'):
        # two parsers that have nothing to do with each other, used by two threads at once
        sc['parse/two-parsers'] = [lambda: mido.parse_all([0x90, 1, 2, 0x90, 3, 4]), lambda: mido.parse_all([0x90, 5, 6, 0x90, 7, 8])]
        sc['parse/two-parsers-sysex'] = [lambda: mido.parse_all([0xf0, 1, 2, 0xf7, 0xe0, 1, 2]),
                                         lambda: mido.parse_all([0xf0, 9, 0xf7, 0xe0, 3, 4]), lambda: mido.parse([0xf2, 5, 6])]
    if pid == 'C03':
        sc['checks/same-type'] = [lambda: M('control_change', channel=1, control=2, value=999), lambda: M('control_change', value=3),
                                  lambda: M('control_change', control=999)]
        sc['checks/copy+assign'] = [lambda: M('note_on').copy(velocity=128), lambda: setattr(M('note_on'), 'note', 128),
                                    lambda: M.from_dict({'type': 'note_on', 'channel': 16})]
    if pid == 'C01':
        a, b = M('pitchwheel', channel=2, pitch=-1), M('pitchwheel', channel=2, pitch=-2)
        s1, s2 = M('sysex', data=(1, 2, 3)), M('sysex', data=(9,))
        sc['bytes/same-type'] = [lambda: a.bytes(), lambda: b.bytes()]
        sc['hex-bin/sysex'] = [lambda: s1.hex(), lambda: s2.bin(), lambda: s2.bytes()]
    if pid == 'C09':
        t1, t2 = MM('text', text='abc'), MM('text', text='\xe9\xe9')
        k1, k2 = MM('key_signature', key='F#m'), MM('time_signature', numerator=5, denominator=8)
        sc['meta/bytes'] = [lambda: t1.bytes(), lambda: t2.bytes()]
        sc['meta/from_bytes'] = [lambda: MM.from_bytes(k1.bytes()), lambda: MM.from_bytes(k2.bytes()),
                                 lambda: MM.from_bytes([0xff, 0x51, 3, 1, 2, 3])]
    if pid == 'C14':
        m1, m2 = M('control_change', control=7, value=100, time=1.5), M('sysex', data=(1, 2), time=3)
        sc['text/str+from_str'] = [lambda: str(m1), lambda: M.from_str('sysex data=(1,2,3) time=2'),
                                   lambda: M.from_str('note_on note=300')]
        sc['text/dict+repr'] = [lambda: M.from_dict(m1.dict()), lambda: repr(m2), lambda: m2.dict()]
    if pid == 'C15':
        x, y = M('note_on', note=1, time=5), MM('set_tempo', tempo=2)
        fx = freeze_message(x)
        sc['value/freeze+thaw+copy'] = [lambda: freeze_message(y), lambda: thaw_message(fx), lambda: x.copy(note=2)]
        sc['value/hash'] = [lambda: hash(fx) == hash(freeze_message(x)), lambda: {fx: 1}.get(freeze_message(x.copy()))]
    if pid == 'C12':
        ta = mido.MidiTrack([M('note_on', note=1, time=2), M('note_on', note=2, time=0)])
        tb = mido.MidiTrack([M('note_on', note=3, time=1), MM('end_of_track', time=4)])
        tc = mido.MidiTrack([M('note_on', note=4, time=0)])
        sc['merge/two-merges'] = [lambda: list(mido.merge_tracks([ta, tb])), lambda: list(mido.merge_tracks([tb, tc]))]
    if pid in ('C05', 'C10', 'C18'):
        # two connections read by two threads (each thread makes its own connection: the runs of an
        # exploration do not share data)
        sc['sockets/two-connections'] = [lambda: _sock_roundtrip([0x90, 1, 2, 0xf0, 3, 4, 0xf7]),
                                         lambda: _sock_roundtrip([0x80, 5, 6, 0xe0, 7, 8])]
    if pid == 'C17':
        import io
        utf = mido.MidiFile(charset='utf-8')
        utf.tracks.append(mido.MidiTrack([MM('text', text='\xe9\u30c6', time=0)]))
        ub = io.BytesIO()
        utf.save(file=ub)
        ub = ub.getvalue()

        def load_utf():
            return mido.MidiFile(file=io.BytesIO(ub), charset='utf-8').tracks[0][0].text

        def save_utf():
            b = io.BytesIO()
            utf.save(file=b)
            return b.getvalue() == ub
        # (no two loads or saves at once: the process-wide setting cannot serve two files, see DESIGN;
        # one thread is inside a call, the other encodes text outside any call - and what counts is
        # what the library does LATER)
        # thread 1 uses the charset scope the way a load does (meta_charset is what _load/_save enter)
        # and then, outside any scope, encodes ASCII text; thread 2 is inside a utf-8 scope meanwhile.
        # What counts is what the library does LATER, in either charset.
        from mido.midifiles.meta import meta_charset

        def in_utf8():
            with meta_charset('utf-8'):
                return MM.from_bytes([0xff, 1, 5, 0xc3, 0xa9, 0xe3, 0x83, 0x86]).text, MM('text', text='\xe9').bytes()
        sc['charset/scope-while-encoding-elsewhere'] = [lambda: (in_utf8(), MM('marker', text='x').bytes())[1], lambda: in_utf8(),
                                                       after(lambda: in_utf8()), after(lambda: load_utf()), after(lambda: save_utf()),
                                                       after(lambda: MM('text', text='\xe9').bytes())]
    if pid == 'C13':
        import mido.midifiles.units as units
        sc['tempo/helpers-bytecode'] = [opcodes(lambda: [mido.tick2second(7, 480, 250000), mido.tick2second(9, 480, 250000)], units),
                                        lambda: [mido.second2tick(0.5, 96, 600000), mido.tick2second(5, 96, 600000)]]
        sc['tempo/helpers'] = [lambda: mido.tick2second(7, 480, 250000), lambda: mido.second2tick(0.5, 96, 600000),
                               lambda: mido.bpm2tempo(90)]
    return sc


def _job(args):
    pid, name, max_preempt = args
    core.stir()
    runs, complete, bad = explore_calls(scenarios(pid)[name], max_preempt, limit=600 if max_preempt <= 1 else 3000,
                                        step_budget=40000 if max_preempt <= 1 else 0)
    return name, runs, complete, bad[:2]


def run_scenarios(ctx, pid, max_preempt=1):
    import multiprocessing as mp
    names = sorted(scenarios(pid))
    with mp.get_context('fork').Pool(min(len(names), core.NCPU)) as pool:
        for name, runs, complete, bad in pool.map(_job, [(pid, n, max_preempt) for n in names]):
            ctx.replayed += runs
            ctx.count('reentrancy_schedules', runs)
            if not complete:
                ctx.count('reentrancy_scenarios_with_sampled_preemption_points', 1)
            for sched, results, expected in bad:
                ctx.violation('reentrancy/%s:%s' % (pid, name),
                              {'kind': 'reentrancy', 'name': pid + ':' + name, 'schedule': sched},
                              'two threads, schedule %r: calls returned %r, alone they return %r' % (
                                  sched[:60], results, expected))


def replay(case):
    pid, name = case['name'].split(':', 1)
    thunks = scenarios(pid)[name]
    expected = [call(th) for th in thunks]
    results, _ = run_schedule(thunks, case['schedule'], mido_files())
    if results != expected:
        return 'two threads: calls returned %r, alone they return %r' % (results, expected)
    return None


# ---- first use: tables, caches and imports that are filled lazily ---------------------------
# Every schedule runs in a FRESH interpreter (nothing has been decoded, encoded or parsed in it
# before the threads start), so that a lazily initialised table is seen half-filled if that is
# possible at all.

FIRST_USE = {
    'C03': {'first-use/checks': "[lambda: M('control_change', channel=1, control=2, value=999), lambda: M('control_change', value=3), "
                                "lambda: M('control_change', control=999)]",
            'first-use/checks-sysex': "[lambda: M('sysex', data=(1, 128)), lambda: M('sysex', data=(1, 2)), lambda: M('pitchwheel', pitch=9000)]"},
    'C04': {'first-use/two-parsers': "[lambda: mido.parse_all([0x90, 1, 2, 0x90, 3, 4]), lambda: mido.parse_all([0x90, 5, 6, 0x90, 7, 8])]"},
    'C02': {'first-use/pitchwheel+sysex': "[lambda: M.from_bytes([0xe5, 1, 2]), lambda: M.from_bytes([0xef, 0x7f, 0x7f]), "
                                          "lambda: M.from_bytes([0xf0, 1, 0xf7])]",
            'first-use/songpos+quarter_frame': "[lambda: M.from_bytes([0xf2, 1, 2]), lambda: M.from_bytes([0xf1, 0x35]), "
                                               "lambda: M.from_bytes([0xe0, 0, 0x41])]"},
    'C01': {'first-use/encode': "[lambda: M('pitchwheel', pitch=-1).bytes(), lambda: M('songpos', pos=300).bytes(), "
                                "lambda: M('quarter_frame', frame_type=3, frame_value=5).bytes()]"},
    'C14': {'first-use/text': "[lambda: M.from_str('pitchwheel channel=2 pitch=-5 time=1.5'), "
                              "lambda: str(M('sysex', data=(1, 2))), lambda: M.from_str('sysex data=(1,2,3)')]"},
    'C09': {'first-use/meta': "[lambda: MM.from_bytes([0xff, 0x59, 2, 0xfd, 1]), lambda: MM('time_signature', denominator=8).bytes(), "
                              "lambda: MM.from_bytes([0xff, 0x51, 3, 1, 2, 3])]"},
}

_CHILD = r'''
import json, sys
sys.path.insert(0, %(verif)r)
from vf import core, conc
mido = core.import_mido()
M, MM = mido.Message, mido.MetaMessage
thunks = %(thunks)s
res, ch = conc.run_schedule(thunks, %(prefix)r, conc.mido_files())
print('RESULT ' + json.dumps({'results': res, 'choices': [[c[0], list(c[1]), c[2]] for c in ch]}))
'''


def _fresh_run(thunks_src, prefix):
    import json
    import subprocess
    import sys
    code = _CHILD % {'verif': os.path.dirname(os.path.dirname(os.path.abspath(__file__))), 'thunks': thunks_src,
                     'prefix': prefix}
    env = dict(os.environ, PYTHONHASHSEED='0')
    r = subprocess.run([sys.executable, '-B', '-c', code], stdout=subprocess.PIPE, stderr=subprocess.PIPE, text=True,
                       env=env, timeout=300)
    for line in r.stdout.splitlines():
        if line.startswith('RESULT '):
            return json.loads(line[7:])
    return {'results': ['child failed: ' + (r.stderr.strip().splitlines() or ['?'])[-1][:200]], 'choices': []}


def first_use(ctx, pid, limit=40):
    import json
    from concurrent.futures import ThreadPoolExecutor
    mido = core.import_mido()
    M, MM = mido.Message, mido.MetaMessage
    for name, src in sorted(FIRST_USE.get(pid, {}).items()):
        expected = json.loads(json.dumps([call(th) for th in eval(src, {'M': M, 'MM': MM, 'mido': mido})]))
        root = _fresh_run(src, [])
        ch = root['choices']
        sched = [c[0] for c in ch]
        positions = list(range(len(ch)))
        step = max(1, -(-len(positions) * 2 // limit))
        prefixes = [[]]
        for i in positions[::step]:
            chosen, runnable, last = ch[i]
            for alt in runnable:
                if alt != chosen and last in runnable:
                    prefixes.append(sched[:i] + [alt])
        with ThreadPoolExecutor(core.NCPU) as ex:
            outs = list(ex.map(lambda p: (p, root if not p else _fresh_run(src, p)), prefixes))
        ctx.replayed += len(outs)
        ctx.count('first_use_schedules', len(outs))
        bad = [(p, o['results']) for p, o in outs if o['results'] != expected]
        for p, res in bad[:2]:
            ctx.violation('reentrancy/%s:%s' % (pid, name), {'kind': 'first_use', 'pid': pid, 'name': name, 'schedule': p},
                          'in a fresh process, two threads, schedule %r: calls returned %r, alone they return %r' % (
                              p[:50], res, expected))


def replay_first_use(case):
    import json
    mido = core.import_mido()
    M, MM = mido.Message, mido.MetaMessage
    src = FIRST_USE[case['pid']][case['name']]
    expected = json.loads(json.dumps([call(th) for th in eval(src, {'M': M, 'MM': MM, 'mido': mido})]))
    got = _fresh_run(src, case['schedule'])['results']
    return None if got == expected else 'fresh process: calls returned %r, alone they return %r' % (got, expected)
