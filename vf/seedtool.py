"""Evaluate a seeded change: python -m vf.seedtool <patch.diff> <demo.py|-> <CHECK_ID>[,<ID>...] [--tier quick]

Creates a scratch copy of /repo under /tmp, applies the patch there, runs the
repository's test suite and the demonstration, then the named checks with
VERIF_REPO pointing at the copy (the only situation in which a check looks
anywhere but /repo; evidence and replays go to the scratch directory).  The
scratch copy is removed afterwards.  Prints one JSON line with the outcome.
"""
import json
import os
import shutil
import subprocess
import sys
import tempfile


def sh(cmd, **kw):
    return subprocess.run(cmd, stdout=subprocess.PIPE, stderr=subprocess.STDOUT, text=True, **kw)


def main():
    patch, demo, checks = sys.argv[1], sys.argv[2], sys.argv[3].split(',')
    tier = sys.argv[5] if len(sys.argv) > 5 and sys.argv[4] == '--tier' else 'quick'
    root = tempfile.mkdtemp(prefix='vfseed-', dir='/tmp')
    repo = os.path.join(root, 'repo')
    out = {'patch': patch, 'checks': {}}
    try:
        sh(['git', '-C', '/repo', 'worktree', 'add', '--detach', '-q', repo, 'HEAD'])
        r = sh(['git', '-C', repo, 'apply', os.path.abspath(patch)])
        if r.returncode != 0:
            # the tree has moved on since the patch was written (a later fix: commit): try a three-way merge
            r3 = sh(['git', '-C', repo, 'apply', '--3way', os.path.abspath(patch)])
            if r3.returncode == 0 and not sh(['git', '-C', repo, 'diff', '--name-only', '--diff-filter=U']).stdout.strip():
                sh(['git', '-C', repo, 'reset', '-q'])
                r = r3
            else:
                sh(['git', '-C', repo, 'checkout', '-q', '--force', 'HEAD'])
        out['applies'] = r.returncode == 0
        if not out['applies']:
            out['apply_output'] = r.stdout[-500:]
            print(json.dumps(out))
            return 2
        r = sh(['/venv/bin/python', '-m', 'pytest', '-q', '-p', 'no:cacheprovider', '-x',
                '--deselect', 'tests/midifiles/test_tracks.py::test_merge_large_midifile'], cwd=repo)
        out['tests_pass'] = r.returncode == 0
        out['tests_tail'] = r.stdout.strip().splitlines()[-1:] if r.stdout.strip() else []
        if demo != '-':
            src = open(demo).read()
            # demos were written against the agent's worktree path: redirect to this copy
            import re
            src = re.sub(r"/tmp/wt/C\d\d", repo, src)
            dpath = os.path.join(root, 'demo.py')
            with open(dpath, 'w') as f:
                f.write(src)
            r = sh(['/venv/bin/python', dpath], cwd=root, timeout=300)
            out['demo_fails_with_patch'] = r.returncode != 0
            sh(['git', '-C', repo, 'checkout', '--', '.'])
            r0 = sh(['/venv/bin/python', dpath], cwd=root, timeout=300)
            out['demo_passes_without_patch'] = r0.returncode == 0
            sh(['git', '-C', repo, 'apply', os.path.abspath(patch)])
        env = dict(os.environ, VERIF_REPO=repo, VERIF_EVIDENCE_DIR=os.path.join(root, 'evidence'),
                   VERIF_REPLAY_DIR=os.path.join(root, 'replays'))
        for c in checks:
            r = sh(['/verif/check', c, '--tier', tier], env=env, timeout=3600)
            viol = [l for l in r.stdout.splitlines() if l.startswith('VIOLATION')]
            keys = [l.strip() for l in r.stdout.splitlines() if l.startswith('  key=')]
            out['checks'][c] = {'exit': r.returncode, 'violations': len(viol), 'keys': [k[:200] for k in keys[:4]]}
        print(json.dumps(out))
        return 0
    finally:
        sh(['git', '-C', '/repo', 'worktree', 'remove', '--force', repo])
        shutil.rmtree(root, ignore_errors=True)


if __name__ == '__main__':
    sys.exit(main())
