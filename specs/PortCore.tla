------------------------------ MODULE PortCore ------------------------------
(***************************************************************************)
(* Property-level specification of a port used from several threads: an    *)
(* atomic FIFO queue per lane (one lane for a plain port; one lane per     *)
(* member for a MultiPort, whose members are not ordered relative to each  *)
(* other).  Every public call takes effect atomically at one instant       *)
(* (Lin) between its invocation (Call) and its return (Ret):               *)
(*   send(m)        appends a copy of m to its lane                        *)
(*   poll()         pops the head of a non-empty lane, or answers None.    *)
(*                  None is always allowed: the property fixes exactly-    *)
(*                  once delivery, per-sender order and that no call       *)
(*                  raises; it does not promise that a non-blocking call   *)
(*                  sees a message that is still on its way through the    *)
(*                  device (WeakPoll).  With WeakPoll = FALSE the stronger *)
(*                  atomic-queue reading (None only when empty) is checked *)
(*                  and reported as an observation, not as a violation.    *)
(*   receive()      pops the head of a non-empty lane; waits otherwise     *)
(*   iter_pending() a sequence of atomic pops ending like a poll() that    *)
(*                  answers None                                           *)
(* No call raises.  Results are tagged records [k, v] (k in ok / none /    *)
(* msg / list).                                                            *)
(***************************************************************************)
EXTENDS Integers, Sequences, FiniteSets, TLC

CONSTANT WeakPoll

VARIABLES lanes,   \* lane -> sequence of message ids
          pend     \* thread -> pending call record

Idle == [st |-> "idle", op |-> "", m |-> 0, lane |-> 0, acc |-> <<>>, r |-> [k |-> "", v |-> <<>>]]

R(k, v) == [k |-> k, v |-> v]

AllEmpty == \A i \in DOMAIN lanes : lanes[i] = <<>>

Call(t, op, m, lane) ==
  /\ pend[t].st = "idle"
  /\ pend' = [pend EXCEPT ![t] = [Idle EXCEPT !.st = "called", !.op = op, !.m = m, !.lane = lane]]
  /\ UNCHANGED lanes

Done(t, r) == pend' = [pend EXCEPT ![t].st = "lin", ![t].r = r]

LinSend(t) ==
  /\ pend[t].st = "called" /\ pend[t].op = "send"
  /\ lanes' = [lanes EXCEPT ![pend[t].lane] = Append(@, pend[t].m)]
  /\ Done(t, R("ok", <<>>))

LinPop(t) ==      \* poll / receive with a message available
  /\ pend[t].st = "called" /\ pend[t].op \in {"poll", "receive"}
  /\ \E i \in DOMAIN lanes :
       /\ lanes[i] # <<>>
       /\ lanes' = [lanes EXCEPT ![i] = Tail(@)]
       /\ Done(t, R("msg", <<Head(lanes[i])>>))

LinNone(t) ==     \* a non-blocking call observes the empty port
  /\ pend[t].st = "called" /\ pend[t].op = "poll"
  /\ (WeakPoll \/ AllEmpty) /\ UNCHANGED lanes
  /\ Done(t, R("none", <<>>))

LinIterPop(t) ==
  /\ pend[t].st = "called" /\ pend[t].op = "iterp"
  /\ \E i \in DOMAIN lanes :
       /\ lanes[i] # <<>>
       /\ lanes' = [lanes EXCEPT ![i] = Tail(@)]
       /\ pend' = [pend EXCEPT ![t].acc = Append(@, Head(lanes[i]))]

LinIterEnd(t) ==
  /\ pend[t].st = "called" /\ pend[t].op = "iterp"
  /\ (WeakPoll \/ AllEmpty) /\ UNCHANGED lanes
  /\ Done(t, R("list", pend[t].acc))

Lin(t) == LinSend(t) \/ LinPop(t) \/ LinNone(t) \/ LinIterPop(t) \/ LinIterEnd(t)

Ret(t, r) ==
  /\ pend[t].st = "lin" /\ pend[t].r = r
  /\ pend' = [pend EXCEPT ![t] = Idle]
  /\ UNCHANGED lanes
=============================================================================
