------------------------------- MODULE SmfEnc -------------------------------
(***************************************************************************)
(* C08 read direction: every standard-conformant encoding of an event      *)
(* list.  For a one-track file whose events are <<kind, delta>> pairs      *)
(* (end_of_track appended) the encoder chooses, per event,                 *)
(*    rs : use running status (only offered where it is legal: the         *)
(*         previous event was a channel message with the same status)      *)
(*    pd : number of 0x80 padding bytes on the delta time                  *)
(*    pl : number of padding bytes on the length of a meta / sysex event   *)
(* and a header chunk of length 6 + extra.  mode "corrupt": the canonical  *)
(* encoding without running status, with one data byte of a channel /      *)
(* system common / sysex event raised by 128.                              *)
(***************************************************************************)
EXTENDS SmfWire

CONSTANTS KindSet, DeltaSet, MaxEv, MaxPad

VARIABLES mode, evs, ch, extra, hit
vars == <<mode, evs, ch, extra, hit>>

Choice == [rs : BOOLEAN, pd : 0..MaxPad, pl : 0..MaxPad]

Lists == UNION {[1..n -> KindSet \X DeltaSet] : n \in 0..MaxEv}
Full(l) == Append(l, <<14, 0>>)                  \* the track's end_of_track
Evs(l) == [i \in DOMAIN Full(l) |-> KE(Full(l)[i][1], Full(l)[i][2])]

\* running status is legal for event i iff it and its predecessor are channel
\* events with the same status byte
RsLegal(es, i) == i > 1 /\ es[i].k = "chan" /\ es[i-1].k = "chan" /\ es[i-1].st = es[i].st
HasLen(e) == e.k \in {"meta", "sysex"}

LegalChoices(es, c) ==
  \A i \in DOMAIN es : /\ (c[i].rs => RsLegal(es, i))
                       /\ (~HasLen(es[i]) => c[i].pl = 0)

EncEvent(e, c) ==
  PaddedVlq(e.dt, c.pd) \o
  CASE e.k = "chan"   -> IF c.rs THEN e.d ELSE <<e.st>> \o e.d
    [] e.k = "common" -> <<e.st>> \o e.d
    [] e.k = "sysex"  -> <<240>> \o PaddedVlq(Len(e.d) + 1, c.pl) \o e.d \o <<247>>
    [] e.k = "meta"   -> <<255, e.st>> \o PaddedVlq(Len(e.d), c.pl) \o e.d
EncBody(es, c) == FoldLeft(LAMBDA a, i : a \o EncEvent(es[i], c[i]), <<>>,
                           [i \in DOMAIN es |-> i])
EncFile(es, c, x) ==
  Chunk(MThd, U16(1) \o U16(1) \o U16(480) \o [i \in 1..x |-> 170 + i])
  \o Chunk(MTrk, EncBody(es, c))

NoChoice(es) == [i \in DOMAIN es |-> [rs |-> FALSE, pd |-> 0, pl |-> 0]]

\* data-byte positions (index into the event list, index into d)
DataPositions(es) == {<<i, j>> \in (DOMAIN es) \X (1..4) :
                        es[i].k \in {"chan", "common", "sysex"} /\ j <= Len(es[i].d)}
Corrupt(es, pos, by) == [es EXCEPT ![pos[1]].d = [@ EXCEPT ![pos[2]] = by]]

Init ==
  \/ /\ mode = "legal" /\ hit = <<>>
     /\ \E l \in Lists : /\ evs = Evs(l)
                         /\ ch \in {c \in [DOMAIN Evs(l) -> Choice] : LegalChoices(Evs(l), c)}
     /\ extra \in {0, 1, 3}
  \/ /\ mode = "corrupt" /\ extra = 0
     /\ \E l \in Lists : /\ evs = Evs(l) /\ ch = NoChoice(Evs(l))
                         /\ hit \in DataPositions(Evs(l))
Next == FALSE /\ UNCHANGED vars
Spec == Init /\ [][Next]_vars

\* every legal encoding decodes, under the reference decoder, to the event list
LegalDecodes ==
  mode = "legal" =>
    LET r == RefRead(EncFile(evs, ch, extra)) IN
    /\ r.err = "" /\ r.rslegal /\ r.sysexform /\ r.eot /\ r.exact
    /\ r.tracks = <<evs>>
    /\ (r.minimal <=> \A i \in DOMAIN evs : ch[i].pd = 0 /\ ch[i].pl = 0)
    /\ (r.hdr6 <=> extra = 0)
\* a data byte above 127 is rejected by the reference decoder ...
CorruptRejected ==
  mode = "corrupt" /\ evs[hit[1]].k # "sysex" =>
    RefRead(EncFile(Corrupt(evs, hit, evs[hit[1]].d[hit[2]] + 128), ch, 0)).err # ""

EvFlat(es) == FoldLeft(LAMBDA a, e : a \o <<e.dt, (CASE e.k = "chan" -> 1 [] e.k = "common" -> 2
                                                   [] e.k = "sysex" -> 3 [] e.k = "meta" -> 4),
                                              e.st, Len(e.d)>> \o e.d, <<>>, es)
Emit == PrintT(ToString(
  IF mode = "legal"
  THEN LET b == EncFile(evs, ch, extra) IN
       <<"EMIT", 1, Len(evs)>> \o EvFlat(evs) \o <<Len(b)>> \o b
  ELSE LET bad == Corrupt(evs, hit, evs[hit[1]].d[hit[2]] + 128)
           b == EncFile(bad, ch, 0)
           clipped == Corrupt(evs, hit, 127) IN
       <<"EMIT", 2, Len(evs)>> \o EvFlat(clipped) \o <<Len(b)>> \o b))
=============================================================================
