------------------------------ MODULE MsgDomain ------------------------------
(***************************************************************************)
(* C03: no invalid message state is reachable through the checked API.     *)
(* One message object: its type and an attribute function.  Values are     *)
(* tagged records V(k, v):                                                 *)
(*   k = "int"   v = <<the integer>>                                       *)
(*   k = "float" v = <<ten times the value>> (5 = 0.5, 10 = 1.0)           *)
(*   k = "str" / "none"   an ill-typed value, v = <<>>                     *)
(*   k = "seq"   v = a sequence of integers (sysex data)                   *)
(*   k = "badseq" a sequence with a non-integer item, v = <<>>             *)
(* (v is always a sequence: TLC cannot compare values of different kinds)  *)
(* Ranges are the documented ones (docs/message_types.rst).  Every action  *)
(* of the checked API either succeeds, giving a valid state, or is         *)
(* rejected, leaving the state unchanged.                                  *)
(* The state graph is explored one transition deep from EVERY valid state  *)
(* over the boundary values: Init ranges over the states, Next takes one   *)
(* action and records it in `last', so each edge is emitted exactly once.  *)
(***************************************************************************)
EXTENDS Integers, Sequences, FiniteSets, TLC

V(k, v) == [k |-> k, v |-> v]
I(n) == V("int", <<n>>)

TypeAttrs(t) ==
  CASE t \in {"note_off", "note_on"} -> <<"channel", "note", "velocity">>
    [] t = "polytouch" -> <<"channel", "note", "value">>
    [] t = "control_change" -> <<"channel", "control", "value">>
    [] t = "program_change" -> <<"channel", "program">>
    [] t = "aftertouch" -> <<"channel", "value">>
    [] t = "pitchwheel" -> <<"channel", "pitch">>
    [] t = "sysex" -> <<"data">>
    [] t = "quarter_frame" -> <<"frame_type", "frame_value">>
    [] t = "songpos" -> <<"pos">>
    [] t = "song_select" -> <<"song">>
    [] OTHER -> <<>>
AllTypes == {"note_off", "note_on", "polytouch", "control_change", "program_change",
             "aftertouch", "pitchwheel", "sysex", "quarter_frame", "songpos", "song_select",
             "tune_request", "clock", "start", "continue", "stop", "active_sensing", "reset"}
AttrSet(t) == {TypeAttrs(t)[i] : i \in DOMAIN TypeAttrs(t)} \cup {"time"}

Lo(a) == CASE a = "pitch" -> -8192 [] OTHER -> 0
Hi(a) == CASE a = "channel" -> 15 [] a = "pitch" -> 8191 [] a = "pos" -> 16383
           [] a = "frame_type" -> 7 [] a = "frame_value" -> 15 [] OTHER -> 127
Default(a) == CASE a = "velocity" -> I(64) [] a = "data" -> V("seq", <<>>) [] OTHER -> I(0)

InDomain(a, x) ==
  CASE a = "time" -> x.k \in {"int", "float"}
    [] a = "data" -> x.k = "seq" /\ \A i \in DOMAIN x.v : x.v[i] \in 0..127
    [] OTHER -> x.k = "int" /\ x.v[1] >= Lo(a) /\ x.v[1] <= Hi(a)

\* boundary values inside the range (used to build the valid states)
Inside(a) ==
  CASE a = "time" -> {I(0), V("float", <<5>>)}
    [] a = "data" -> {V("seq", <<>>), V("seq", <<0, 127>>)}
    [] OTHER -> {I(Lo(a)), I(Hi(a))}
\* values offered to every entry point
Probes(a) ==
  CASE a = "time" -> {I(0), I(-3), I(1073741824), V("float", <<5>>), V("float", <<-15>>),
                      V("str", <<>>), V("none", <<>>), V("seq", <<1>>)}
    [] a = "data" -> {V("seq", <<>>), V("seq", <<0>>), V("seq", <<127, 0, 1>>), V("seq", <<128>>),
                      V("seq", <<-1>>), V("seq", <<0, 128>>), V("seq", <<0, 256, 0>>),
                      \* long payloads (a bulk check must not be laxer than the per-byte one)
                      V("seq", [i \in 1..70 |-> i]), V("seq", [i \in 1..70 |-> IF i = 35 THEN 200 ELSE 1]),
                      V("seq", [i \in 1..130 |-> IF i = 130 THEN 128 ELSE 0]),
                      I(5), V("none", <<>>), V("badseq", <<>>), V("float", <<5>>)}
    [] OTHER -> {I(Lo(a) - 1), I(Lo(a)), I(Lo(a) + 1), I(Hi(a) - 1), I(Hi(a)), I(Hi(a) + 1),
                 I(Hi(a) + 1000), V("float", <<5>>), V("float", <<10>>), V("str", <<>>), V("none", <<>>),
                 V("seq", <<1>>)}

Defaults(t) == [a \in AttrSet(t) |-> Default(a)]
ValidStates(t) == {f \in [AttrSet(t) -> UNION {Inside(a) : a \in AttrSet(t)}] :
                     \A a \in AttrSet(t) : f[a] \in Inside(a)}
Valid(t, f) == DOMAIN f = AttrSet(t) /\ \A a \in AttrSet(t) : InDomain(a, f[a])

\* names offered besides the message's own attributes
Foreign(t) == {"bogus", "type"} \cup
              (IF "note" \in AttrSet(t) THEN {"pitch"} ELSE {"note"})
=============================================================================
