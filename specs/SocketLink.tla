----------------------------- MODULE SocketLink -----------------------------
(***************************************************************************)
(* C18: a socket port receiving a byte stream that the peer writes in      *)
(* arbitrary segments and cuts (disconnects / dies) at byte offset `cut'.  *)
(*                                                                         *)
(* Peer (environment) actions: Write(k) - the next k bytes become readable;*)
(* PeerClose - after the first `cut' bytes were written the peer closes.   *)
(* Several peer actions may fall between two receiver steps (in particular *)
(* the last write and the close).                                          *)
(* Receiver: one _receive() round reads every readable byte into the       *)
(* tokenizer and, on end-of-file, closes the port.  Two consumption        *)
(* patterns: "iterate" (for msg in port: blocking receives; the peer acts  *)
(* while the receiver sleeps), "poll" (one poll() after each group of      *)
(* peer actions, then polling until the port reports closed) and "pending" *)
(* (one iter_pending() drain after each group - what MultiPort and         *)
(* PortServer do with their member ports).                                 *)
(***************************************************************************)
EXTENDS Tokenizer

CONSTANTS MaxMsgs, Mode

Items == << <<145, 60, 100>>, <<193, 5>>, <<240, 9, 247>>, <<248>>, <<254>> >>

VARIABLES stream, cut, sent, peerclosed, rcv, status, buf, q, closed,
          delivered, phase, acts, polls
vars == <<stream, cut, sent, peerclosed, rcv, status, buf, q, closed,
          delivered, phase, acts, polls>>

Streams == UNION {{Flatten([i \in 1..k |-> Items[f[i]]]) : f \in [1..k -> 1..Len(Items)]}
                  : k \in 1..MaxMsgs}

Init == /\ stream \in Streams
        /\ cut \in 0..Len(stream)
        /\ sent = 0 /\ peerclosed = FALSE /\ rcv = 0
        /\ status = 0 /\ buf = <<>> /\ q = <<>> /\ closed = FALSE
        /\ delivered = <<>> /\ phase = "env" /\ acts = << <<>> >> /\ polls = <<>>

\* record a peer action in the current group
Act(a) == acts' = [acts EXCEPT ![Len(acts)] = Append(@, a)]

Write(k) ==
  /\ phase = "env" /\ ~peerclosed /\ sent + k <= cut
  /\ sent' = sent + k /\ Act(k)
  /\ UNCHANGED <<stream, cut, peerclosed, rcv, status, buf, q, closed, delivered, phase, polls>>

PeerClose ==
  /\ phase = "env" /\ ~peerclosed /\ sent = cut
  /\ peerclosed' = TRUE /\ Act(0)                   \* 0 stands for "close"
  /\ UNCHANGED <<stream, cut, sent, rcv, status, buf, q, closed, delivered, phase, polls>>

\* the receiver gets its turn; a sleeping receiver is only woken by a peer action
Go == /\ phase = "env"
      /\ (Len(acts) = 1 \/ acts[Len(acts)] # <<>>)
      /\ phase' = "recv"
      /\ UNCHANGED <<stream, cut, sent, peerclosed, rcv, status, buf, q, closed, delivered, acts, polls>>

\* one _receive() round: read what is readable; EOF closes the port
Round == LET r == FeedAll(status, buf, SubSeq(stream, rcv + 1, sent)) IN
         [status |-> r.status, buf |-> r.buf, q |-> q \o r.emit,
          closed |-> closed \/ peerclosed]

\* "iterate": blocking receives until something must be waited for
RecvIterate ==
  /\ phase = "recv" /\ Mode = "iterate"
  /\ LET r == Round IN
       /\ status' = r.status /\ buf' = r.buf /\ rcv' = sent
       /\ delivered' = delivered \o r.q /\ q' = <<>>       \* every queued message is handed out
       /\ closed' = r.closed
       /\ IF r.closed THEN phase' = "done" /\ UNCHANGED acts          \* iteration ends
          ELSE phase' = "env" /\ acts' = Append(acts, <<>>)           \* sleep(): next group
  /\ UNCHANGED <<stream, cut, sent, peerclosed, polls>>

\* "poll": one poll() after each group of peer actions; once the peer has
\* closed, polling continues until the port reports closed and answers None.
\* poll() hands out a queued message without reading; otherwise it does one
\* _receive() round first (unless the port is already closed).
RecvPoll ==
  /\ phase = "recv" /\ Mode = "poll"
  /\ LET noread == q # <<>> \/ closed
         r == IF noread THEN [status |-> status, buf |-> buf, q |-> q, closed |-> closed]
              ELSE Round
         res == IF r.q # <<>> THEN Head(r.q) ELSE <<>>
     IN
       /\ status' = r.status /\ buf' = r.buf /\ closed' = r.closed
       /\ rcv' = IF noread THEN rcv ELSE sent
       /\ q' = IF r.q # <<>> THEN Tail(r.q) ELSE r.q
       /\ polls' = Append(polls, res)
       /\ delivered' = IF r.q # <<>> THEN Append(delivered, res) ELSE delivered
       /\ IF res = <<>> /\ r.closed THEN phase' = "done" /\ UNCHANGED acts
          ELSE IF peerclosed THEN phase' = "recv" /\ UNCHANGED acts
          ELSE phase' = "env" /\ acts' = Append(acts, <<>>)
  /\ UNCHANGED <<stream, cut, sent, peerclosed>>

\* "pending": iter_pending() after each group = poll() until None.  The first
\* poll of an empty open port does one _receive() round; everything that round
\* parsed is handed out, also when the same round saw end-of-file.
RecvPending ==
  /\ phase = "recv" /\ Mode = "pending"
  /\ LET r == IF closed THEN [status |-> status, buf |-> buf, q |-> q, closed |-> closed] ELSE Round IN
       /\ status' = r.status /\ buf' = r.buf /\ closed' = r.closed
       /\ rcv' = IF closed THEN rcv ELSE sent
       /\ delivered' = delivered \o r.q /\ q' = <<>>
       /\ polls' = Append(polls, Flatten(r.q))              \* bytes handed out by this drain
       /\ IF r.closed THEN phase' = "done" /\ UNCHANGED acts
          ELSE phase' = "env" /\ acts' = Append(acts, <<>>)
  /\ UNCHANGED <<stream, cut, sent, peerclosed>>

Next == (\E k \in 1..Len(stream) : Write(k)) \/ PeerClose \/ Go \/ RecvIterate \/ RecvPoll
           \/ RecvPending
Spec == Init /\ [][Next]_vars

\* ---- properties ----
\* exactly the messages whose encodings arrived completely, in order
PrefixComplete == phase = "done" => delivered = ParseAll(SubSeq(stream, 1, cut))
\* never more than that, at any time; never a partial message
NeverMore == \E n \in 0..Len(ParseAll(SubSeq(stream, 1, cut))) :
               delivered \o q = SubSeq(ParseAll(SubSeq(stream, 1, cut)), 1, n)
AllValid == \A i \in DOMAIN delivered : Decode(delivered[i]) # Invalid
ClosedAfterEof == phase = "done" => closed /\ peerclosed /\ rcv = cut

Emit == phase = "done" =>
          PrintT(ToString(<<"EMIT", Mode, stream, cut, acts, delivered, polls>>))
=============================================================================
