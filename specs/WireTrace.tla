----------------------------- MODULE WireTrace ------------------------------
(***************************************************************************)
(* Validates records logged from the real codec against MidiWire:          *)
(*   [t, v]   the message that was constructed                             *)
(*   b        the bytes mido produced for it                               *)
(*   dt, dv   the message mido decoded from b                              *)
(* One initial state per record; rejected record ids are printed.          *)
(***************************************************************************)
EXTENDS MidiWire, TLC, Json, IOUtils

Traces == JsonDeserialize(IOEnv.TRACE_FILE)

VARIABLE i

Init == i \in 1..Len(Traces)
Next == FALSE /\ UNCHANGED i
Spec == Init /\ [][Next]_i

Ok(r) == LET m == Msg(r.t, r.v) IN
         /\ Valid(m)
         /\ Encode(m) = r.b
         /\ Decode(r.b) = Msg(r.dt, r.dv)
         /\ Len(r.b) = r.len

Judge == Ok(Traces[i]) \/ PrintT(ToString(<<"REJECTED", i>>))
=============================================================================
