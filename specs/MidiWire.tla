------------------------------ MODULE MidiWire ------------------------------
(***************************************************************************)
(* The MIDI 1.0 wire format of a single message, written from the MIDI     *)
(* 1.0 tables (not from mido's encode.py / decode.py).                     *)
(*                                                                         *)
(* A message is a record [t |-> type name, v |-> tuple of values] where v  *)
(* lists the values in documented order (channel first for channel         *)
(* messages; the payload for sysex).  `time' is an opaque pass-through     *)
(* token and is not part of the wire format.                               *)
(***************************************************************************)
EXTENDS Integers, Sequences, FiniteSets

Msg(t, v) == [t |-> t, v |-> v]
Invalid   == Msg("invalid", <<>>)

ChannelTypes3 == {"note_off", "note_on", "polytouch", "control_change"}
ChannelTypes2 == {"program_change", "aftertouch"}
OneByteTypes  == {"tune_request", "clock", "start", "continue", "stop",
                  "active_sensing", "reset"}
RealtimeTypes == {"clock", "start", "continue", "stop", "active_sensing", "reset"}
AllTypes == ChannelTypes3 \cup ChannelTypes2 \cup OneByteTypes \cup
            {"pitchwheel", "sysex", "quarter_frame", "songpos", "song_select"}

\* Index used when rows are emitted for the replay drivers.
TypeSeq == <<"note_off", "note_on", "polytouch", "control_change",
             "program_change", "aftertouch", "pitchwheel", "sysex",
             "quarter_frame", "songpos", "song_select", "tune_request",
             "clock", "start", "continue", "stop", "active_sensing", "reset">>
TypeIdx(t) == CHOOSE i \in 1..Len(TypeSeq) : TypeSeq[i] = t

StatusBase(t) ==
  CASE t = "note_off" -> 128        [] t = "note_on" -> 144
    [] t = "polytouch" -> 160       [] t = "control_change" -> 176
    [] t = "program_change" -> 192  [] t = "aftertouch" -> 208
    [] t = "pitchwheel" -> 224      [] t = "sysex" -> 240
    [] t = "quarter_frame" -> 241   [] t = "songpos" -> 242
    [] t = "song_select" -> 243     [] t = "tune_request" -> 246
    [] t = "clock" -> 248           [] t = "start" -> 250
    [] t = "continue" -> 251        [] t = "stop" -> 252
    [] t = "active_sensing" -> 254  [] t = "reset" -> 255

\* Status bytes that start (or are) a defined message.
Defined == (128..243) \cup {246} \cup {248, 250, 251, 252, 254, 255}
RealtimeBytes == {248, 250, 251, 252, 254, 255}

\* Total length in bytes of the message introduced by status byte s
\* (0 for sysex: terminated by F7 instead).
SpecLen(s) == IF s < 192 THEN 3 ELSE IF s < 224 THEN 2 ELSE IF s < 240 THEN 3
              ELSE CASE s = 240 -> 0 [] s = 241 -> 2 [] s = 242 -> 3
                     [] s = 243 -> 2 [] OTHER -> 1

D7  == 0..127
Ch  == 0..15

Valid(m) ==
  /\ m.t \in AllTypes
  /\ CASE m.t \in ChannelTypes3 ->
            Len(m.v) = 3 /\ m.v[1] \in Ch /\ m.v[2] \in D7 /\ m.v[3] \in D7
       [] m.t \in ChannelTypes2 -> Len(m.v) = 2 /\ m.v[1] \in Ch /\ m.v[2] \in D7
       [] m.t = "pitchwheel"    -> Len(m.v) = 2 /\ m.v[1] \in Ch /\ m.v[2] \in -8192..8191
       [] m.t = "sysex"         -> \A i \in DOMAIN m.v : m.v[i] \in D7
       [] m.t = "quarter_frame" -> Len(m.v) = 2 /\ m.v[1] \in 0..7 /\ m.v[2] \in 0..15
       [] m.t = "songpos"       -> Len(m.v) = 1 /\ m.v[1] \in 0..16383
       [] m.t = "song_select"   -> Len(m.v) = 1 /\ m.v[1] \in D7
       [] OTHER                 -> m.v = <<>>

\* Length len(message) must report.
MsgLen(m) == IF m.t = "sysex" THEN Len(m.v) + 2 ELSE SpecLen(StatusBase(m.t))

Encode(m) ==
  LET s == StatusBase(m.t) IN
  CASE m.t \in ChannelTypes3 -> <<s + m.v[1], m.v[2], m.v[3]>>
    [] m.t \in ChannelTypes2 -> <<s + m.v[1], m.v[2]>>
    [] m.t = "pitchwheel"    -> LET p == m.v[2] + 8192 IN      \* 14 bit, LSB first
                                <<s + m.v[1], p % 128, p \div 128>>
    [] m.t = "sysex"         -> <<240>> \o m.v \o <<247>>
    [] m.t = "quarter_frame" -> <<241, m.v[1] * 16 + m.v[2]>>   \* 0nnn dddd
    [] m.t = "songpos"       -> <<242, m.v[1] % 128, m.v[1] \div 128>>
    [] m.t = "song_select"   -> <<243, m.v[1]>>
    [] OTHER                 -> <<s>>

\* One well-formed MIDI 1.0 message: status, then data bytes < 0x80
\* (sysex: payload then F7).
WellFormed(bs) ==
  /\ Len(bs) >= 1 /\ bs[1] \in 128..255
  /\ IF bs[1] = 240
     THEN Len(bs) >= 2 /\ bs[Len(bs)] = 247 /\ \A i \in 2..Len(bs)-1 : bs[i] \in D7
     ELSE \A i \in 2..Len(bs) : bs[i] \in D7

TypeOfStatus(s) ==
  IF s < 240 THEN TypeSeq[((s - 128) \div 16) + 1]
  ELSE CHOOSE t \in AllTypes : StatusBase(t) = s

(***************************************************************************)
(* Decode is total over sequences of arbitrary integers (items outside     *)
(* 0..255 stand for "not a byte": negative, too large, or not an integer). *)
(* It answers a message exactly for one complete well-formed encoding.     *)
(***************************************************************************)
Decode(bs) ==
  IF Len(bs) = 0 \/ \E i \in DOMAIN bs : bs[i] \notin 0..255 THEN Invalid
  ELSE LET s == bs[1]
           d == Tail(bs)
           n == Len(d)
       IN
       IF s < 128 \/ s \notin Defined THEN Invalid
       ELSE IF s = 240 THEN
            IF n >= 1 /\ d[n] = 247 /\ \A i \in 1..(n-1) : d[i] < 128
            THEN Msg("sysex", SubSeq(d, 1, n - 1)) ELSE Invalid
       ELSE IF n # SpecLen(s) - 1 \/ \E i \in 1..n : d[i] > 127 THEN Invalid
       ELSE LET t == TypeOfStatus(s) IN
            CASE t \in ChannelTypes3 -> Msg(t, <<s % 16, d[1], d[2]>>)
              [] t \in ChannelTypes2 -> Msg(t, <<s % 16, d[1]>>)
              [] t = "pitchwheel"    -> Msg(t, <<s % 16, d[1] + 128 * d[2] - 8192>>)
              [] t = "quarter_frame" -> Msg(t, <<d[1] \div 16, d[1] % 16>>)
              [] t = "songpos"       -> Msg(t, <<d[1] + 128 * d[2]>>)
              [] t = "song_select"   -> Msg(t, <<d[1]>>)
              [] OTHER               -> Msg(t, <<>>)

(***************************************************************************)
(* Theorems (checked by TLC in WireCheck over explicit domains)            *)
(***************************************************************************)
RoundTrip(m) ==
  /\ Valid(m)
  /\ WellFormed(Encode(m))
  /\ Len(Encode(m)) = MsgLen(m)
  /\ Decode(Encode(m)) = m
  /\ Encode(m)[1] = StatusBase(m.t) + (IF StatusBase(m.t) < 240 THEN m.v[1] ELSE 0)

\* Accepted strings are exactly the images of Encode.
DecodeSound(bs) ==
  LET m == Decode(bs) IN
  m # Invalid => Valid(m) /\ Encode(m) = bs /\ WellFormed(bs)
=============================================================================
