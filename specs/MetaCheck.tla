----------------------------- MODULE MetaCheck ------------------------------
(***************************************************************************)
(* C09: enumerates the documented attribute domains of every meta message  *)
(* type, checks MetaRoundTrip on the specification and emits                *)
(*   accept rows  <<"A", type, values, bytes>>   for replay (constructor   *)
(*                accepts, bytes() equal, from_bytes / track read return   *)
(*                an equal message)                                        *)
(*   probe rows   <<"P", type, attribute index, value, in-domain?>>  for   *)
(*                values at and just beyond the limits of each integer     *)
(*                attribute.                                               *)
(***************************************************************************)
EXTENDS MetaWire, TLC

CONSTANTS SeqNums, ByteVals, Exponents, TextLens

VARIABLES kind, m, probe
vars == <<kind, m, probe>>

FullSeq == 0..65535
QuickSeq == (0..300) \cup (32500..32900) \cup (65200..65535)
FullByte == 0..255
QuickByte == {0, 1, 2, 15, 16, 127, 128, 129, 254, 255}
FullExp == 0..255
Tempos == {0, 1, 255, 256, 65535, 65536, 500000, 16777214, 16777215}

Text(L, base, span) == [i \in 1..L |-> base + (i % span)]

AcceptInit ==
  \/ \E n \in SeqNums : m = MMsg("sequence_number", <<n>>)
  \/ \E t \in {"channel_prefix", "midi_port"}, b \in ByteVals : m = MMsg(t, <<b>>)
  \/ m = MMsg("end_of_track", <<>>)
  \/ \E x \in Tempos : m = MMsg("set_tempo", <<x>>)
  \/ \E r \in 0..3, h \in {0, 1, 23, 31, 32, 255}, mi \in {0, 59}, s \in {0, 59},
        f \in {0, 1, 255}, sf \in {0, 99} : m = MMsg("smpte_offset", <<r, h, mi, s, f, sf>>)
  \/ \E n \in {0, 4, 255}, e \in Exponents, c \in {0, 24, 255}, b \in {0, 8, 255} :
        m = MMsg("time_signature", <<n, e, c, b>>)
  \/ \E k \in 1..30 : m = MMsg("key_signature", <<k>>)
  \/ \E t \in TextTypes, L \in TextLens : m = MMsg(t, Text(L, 32, 90))
  \/ \E L \in {l \in TextLens : l <= 200} : m = MMsg("text", Text(L, 128, 128))   \* high bytes
  \/ \E t \in TextTypes, L \in {0, 5} : m = MMsg(t, Text(L, 65, 20) \o <<0>>)       \* trailing NUL
  \/ \E t \in TextTypes : m = MMsg(t, <<32, 65, 32, 10>>)                          \* blanks around
  \/ \E L \in TextLens : m = MMsg("sequencer_specific", Text(L, 0, 256))
  \/ \E tb \in {10, 96, 126}, L \in TextLens : m = MMsg("unknown_meta", <<tb>> \o Text(L, 0, 256))

\* integer attributes: (type, index) -> documented range
AttrRange(t, i) ==
  CASE t = "sequence_number" -> <<0, 65535>>
    [] t \in {"channel_prefix", "midi_port"} -> <<0, 255>>
    [] t = "set_tempo" -> <<0, 16777215>>
    [] t = "smpte_offset" -> (CASE i = 2 -> <<0, 255>> [] i = 3 -> <<0, 59>> [] i = 4 -> <<0, 59>>
                                [] i = 5 -> <<0, 255>> [] i = 6 -> <<0, 99>>)
    [] t = "time_signature" -> <<0, 255>>
IntAttrs == {<<"sequence_number", 1>>, <<"channel_prefix", 1>>, <<"midi_port", 1>>,
             <<"set_tempo", 1>>, <<"smpte_offset", 2>>, <<"smpte_offset", 3>>,
             <<"smpte_offset", 4>>, <<"smpte_offset", 5>>, <<"smpte_offset", 6>>,
             <<"time_signature", 1>>, <<"time_signature", 3>>, <<"time_signature", 4>>}
InRange(t, i, x) == x >= AttrRange(t, i)[1] /\ x <= AttrRange(t, i)[2]

ProbeInit ==
  \E a \in IntAttrs :
    LET r == AttrRange(a[1], a[2]) IN
    \E x \in {r[1] - 2, r[1] - 1, r[1], r[1] + 1, r[2] - 1, r[2], r[2] + 1, r[2] + 2} :
       probe = <<a[1], a[2], x>>

VlqProbes == {0, 1, 127, 128, 129, 255, 256, 16383, 16384, 999999, 1000000, 2097151, 2097152,
              268435455}
Init == \/ kind = "A" /\ AcceptInit /\ probe = <<>>
        \/ kind = "V" /\ m = MInvalid /\ \E n \in VlqProbes : probe = <<n>>
        \/ kind = "P" /\ ProbeInit /\ m = MInvalid
Next == FALSE /\ UNCHANGED vars
Spec == Init /\ [][Next]_vars

RoundTripInv == kind = "A" => MetaRoundTrip(m)
VlqInv == /\ kind = "A" => VlqValue(Vlq(Len(Payload(m)))) = Len(Payload(m))
          /\ kind = "V" => /\ IsMinimalVlq(Vlq(probe[1])) /\ VlqValue(Vlq(probe[1])) = probe[1]
                           /\ VlqLen(Vlq(probe[1]) \o <<0>>) = Len(Vlq(probe[1]))

Emit == PrintT(ToString(
  IF kind = "A" THEN <<"EMIT", "A", m.t, m.v, IF SmpteEncodable(m) THEN MetaEncode(m) ELSE <<>> >>
  ELSE IF kind = "V" THEN <<"EMIT", "V", probe[1], Vlq(probe[1])>>
  ELSE <<"EMIT", "P", probe[1], probe[2], probe[3], InRange(probe[1], probe[2], probe[3])>>))
=============================================================================
