------------------------------ MODULE SyxFile -------------------------------
(***************************************************************************)
(* C19: SYX files.  A file is either binary (the sysex messages' bytes one *)
(* after another, first byte F0) or plain text (two-digit hex numbers      *)
(* separated by arbitrary whitespace).  Reading runs the bytes through the *)
(* Tokenizer and keeps the sysex messages.  Writing keeps only the sysex   *)
(* messages of the list.                                                   *)
(* Text is modelled at the level the property talks about: a sequence of   *)
(* byte values (the hex pairs) plus a layout id naming which whitespace    *)
(* separates them - whitespace is insignificant by definition - and the    *)
(* malformed-text classes that must raise ValueError.                      *)
(***************************************************************************)
EXTENDS Tokenizer

CONSTANTS MaxList

Pool == << Msg("sysex", <<>>), Msg("sysex", <<1>>), Msg("sysex", <<127, 0>>),
           Msg("note_on", <<0, 60, 64>>), Msg("clock", <<>>), Msg("songpos", <<300>>) >>
Layouts == 1..9          \* see the driver: " ", "\n", "\t", "\r\n", "  ", form feed, none, mixed, lower case
BadTexts == 1..6         \* odd digit count, non-hex character, split pair, "0x" prefix, comma separated, trailing junk

VARIABLES mode, msgs, layout
vars == <<mode, msgs, layout>>

IsSysex(tok) == tok[1] = 240
SysexOnly(l) == SelectSeq([i \in DOMAIN l |-> Encode(l[i])], IsSysex)
Written(l) == Flatten(SysexOnly(l))                 \* what a binary file holds; the hex pairs of a text file
ReadBytes(bs) == IF bs = <<>> THEN <<>> ELSE SelectSeq(ParseAll(bs), IsSysex)
\* a file produced elsewhere may hold other messages between the sysex ones,
\* real-time bytes inside a sysex, or a sysex that was cut short
RawPool == << <<240, 247>>, <<240, 1, 247>>, <<240, 1, 248, 2, 247>>, <<240, 1, 254, 247>>,
              <<240, 5, 6>>, <<144, 60, 64>>, <<248>>, <<240, 127, 0, 247>>,
              <<240, 1, 244, 2, 247>> >>       \* an undefined status byte (F4) inside a dump is skipped
ForeignRaw(f) == Flatten([i \in DOMAIN f |-> RawPool[f[i]]])

Init ==
  \/ /\ mode \in {"bin", "text"}
     /\ \E k \in 0..MaxList : msgs \in [1..k -> 1..Len(Pool)]
     /\ layout \in (IF mode = "text" THEN Layouts ELSE {0})
  \/ /\ mode = "foreign_bin" /\ layout = 0
     /\ \E k \in 1..MaxList : msgs \in {f \in [1..k -> 1..Len(RawPool)] : RawPool[f[1]][1] = 240}
  \/ /\ mode = "badtext" /\ msgs = <<>> /\ layout \in BadTexts
Next == FALSE /\ UNCHANGED vars
Spec == Init /\ [][Next]_vars

L == IF mode = "foreign_bin" THEN <<>> ELSE [i \in DOMAIN msgs |-> Pool[msgs[i]]]

SyxRoundTrip == mode \in {"bin", "text"} => ReadBytes(Written(L)) = SysexOnly(L)
NoSysexGivesEmpty == (mode \in {"bin", "text"} /\ SysexOnly(L) = <<>>) => Written(L) = <<>>
\* reading is the tokenizer followed by the sysex filter; every sysex handed out is valid
ForeignRead == ReadBytes(ForeignRaw(msgs))
ForeignDropped == mode = "foreign_bin" =>
   /\ \A i \in DOMAIN ForeignRead : Decode(ForeignRead[i]) # Invalid /\ ForeignRead[i][1] = 240
   /\ Len(ForeignRead) <= Len(msgs)
BinaryDetected == (mode = "bin" /\ Written(L) # <<>>) => Written(L)[1] = 240

EncFlat(l) == FoldLeft(LAMBDA a, e : a \o <<Len(e)>> \o e, <<>>, l)
Emit == PrintT(ToString(
  IF mode = "foreign_bin"
  THEN <<"EMIT", 3, layout, Len(msgs)>> \o EncFlat([i \in DOMAIN msgs |-> RawPool[msgs[i]]])
       \o <<Len(ForeignRead)>> \o EncFlat(ForeignRead)
  ELSE <<"EMIT", CASE mode = "bin" -> 1 [] mode = "text" -> 2 [] OTHER -> 4,
         layout, Len(msgs)>> \o EncFlat([i \in DOMAIN L |-> Encode(L[i])])
       \o <<Len(SysexOnly(L))>> \o EncFlat(SysexOnly(L))))
=============================================================================
