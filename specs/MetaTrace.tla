----------------------------- MODULE MetaTrace ------------------------------
(***************************************************************************)
(* Validates records logged from the real meta codec against MetaWire:     *)
(* [t, v] the message constructed, b the bytes the code produced, dt / dv  *)
(* the message it decoded from b (from_bytes and a read through a track).  *)
(***************************************************************************)
EXTENDS MetaWire, TLC, Json, IOUtils

Traces == JsonDeserialize(IOEnv.TRACE_FILE)
VARIABLE i
Init == i \in 1..Len(Traces)
Next == FALSE /\ UNCHANGED i
Spec == Init /\ [][Next]_i

Ok(r) == LET mm == MMsg(r.t, r.v) IN
         /\ MValid(mm)
         /\ MetaEncode(mm) = r.b
         /\ MetaDecode(r.b) = MMsg(r.dt, r.dv)
         /\ MMsg(r.dt, r.dv) = MMsg(r.tt, r.tv)
Judge == Ok(Traces[i]) \/ PrintT(ToString(<<"REJECTED", i>>))
=============================================================================
