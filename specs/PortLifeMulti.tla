--------------------------- MODULE PortLifeMulti ----------------------------
(***************************************************************************)
(* C11 for MultiPort: a MultiPort over two device ports A and B, each with *)
(* its own script ("nothing" / "arrive").  MultiPort._receive gathers, in  *)
(* a shuffled member order, everything each open member has pending (each  *)
(* member is polled until it answers None) into the MultiPort's own queue; *)
(* receive() then pops that queue.  A blocking receive() repeats the       *)
(* gathering with one sleep() in between until a message is deliverable.   *)
(* The member order of a call is a parameter of the action (the replay     *)
(* driver scripts random.shuffle accordingly).                             *)
(***************************************************************************)
EXTENDS Integers, Sequences, FiniteSets, TLC

CONSTANTS MaxScript, MaxCalls

VARIABLES closed, q, ma, mb, log, hist, scripts0
vars == <<closed, q, ma, mb, log, hist, scripts0>>

R(k, v) == [k |-> k, v |-> v]
Mem(qq, sc, nx) == [q |-> qq, script |-> sc, nextid |-> nx]

\* one poll() of a member port: queued message, else one device poll
MPoll(m) ==
  IF m.q # <<>> THEN [m |-> [m EXCEPT !.q = Tail(@)], r |-> Head(m.q), polls |-> 0]
  ELSE IF m.script = <<>> THEN [m |-> m, r |-> 0, polls |-> 1]
  ELSE IF Head(m.script) = "arrive"
       THEN [m |-> [m EXCEPT !.script = Tail(@), !.nextid = @ + 1], r |-> m.nextid, polls |-> 1]
       ELSE [m |-> [m EXCEPT !.script = Tail(@)], r |-> 0, polls |-> 1]

\* iter_pending() of a member: poll until None
RECURSIVE MDrain(_, _, _)
MDrain(m, got, polls) ==
  LET o == MPoll(m) IN
  IF o.r = 0 THEN [m |-> o.m, got |-> got, polls |-> polls + o.polls]
  ELSE MDrain(o.m, Append(got, o.r), polls + o.polls)

St(c, qq, a, b) == [closed |-> c, q |-> qq, ma |-> a, mb |-> b]
Cur == St(closed, q, ma, mb)

\* MultiPort._receive: members in the order given by aFirst
Gather(s, aFirst) ==
  LET da == MDrain(s.ma, <<>>, 0)
      db == MDrain(s.mb, <<>>, 0)
  IN [s |-> [s EXCEPT !.ma = da.m, !.mb = db.m,
                      !.q = @ \o (IF aFirst THEN da.got \o db.got ELSE db.got \o da.got)],
      polls |-> da.polls + db.polls]

Out(s, r, sl, pl) == [s |-> s, r |-> r, sleeps |-> sl, polls |-> pl]
Pop(s) == [s EXCEPT !.q = Tail(@)]

RECURSIVE RecvLoop(_, _, _, _, _)
RecvLoop(s, block, aFirst, sl, pl) ==
  LET g == Gather(s, aFirst) IN
  IF g.s.q # <<>> THEN Out(Pop(g.s), R("msg", <<Head(g.s.q)>>), sl, pl + g.polls)
  ELSE IF ~block THEN Out(g.s, R("none", <<>>), sl, pl + g.polls)
  ELSE RecvLoop(g.s, block, aFirst, sl + 1, pl + g.polls)

Recv(s, block, aFirst) ==
  IF s.q # <<>> THEN Out(Pop(s), R("msg", <<Head(s.q)>>), 0, 0)
  ELSE IF s.closed THEN Out(s, IF block THEN R("raise", <<>>) ELSE R("none", <<>>), 0, 0)
  ELSE RecvLoop(s, block, aFirst, 0, 0)

Delivers(m) == m.q # <<>> \/ \E i \in DOMAIN m.script : m.script[i] = "arrive"
CanReturn(s) == s.q # <<>> \/ s.closed \/ Delivers(s.ma) \/ Delivers(s.mb)

RECURSIVE PendLoop(_, _, _, _)
PendLoop(s, aFirst, got, pl) ==
  LET o == Recv(s, FALSE, aFirst) IN
  IF o.r.k = "msg" THEN PendLoop(o.s, aFirst, Append(got, o.r.v[1]), pl + o.polls)
  ELSE Out(o.s, R("list", got), 0, pl + o.polls)

RECURSIVE IterLoop(_, _)
IterLoop(s, got) ==          \* only issued on a closed MultiPort: drains and ends
  LET o == Recv(s, TRUE, TRUE) IN
  IF o.r.k = "msg" THEN IterLoop(o.s, Append(got, o.r.v[1]))
  ELSE Out(o.s, R("list", got), 0, 0)

H(op, o, aFirst) == [op |-> op, r |-> o.r, sleeps |-> o.sleeps, polls |-> o.polls,
                     afirst |-> aFirst, closed_before |-> closed, qlen_before |-> Len(q)]
Apply(op, o, aFirst) ==
  /\ closed' = o.s.closed /\ q' = o.s.q /\ ma' = o.s.ma /\ mb' = o.s.mb
  /\ hist' = Append(hist, H(op, o, aFirst))
  /\ UNCHANGED scripts0

Scripts == UNION {[1..k -> {"nothing", "arrive"}] : k \in 0..MaxScript}

Init == /\ closed = FALSE /\ q = <<>> /\ log = <<>> /\ hist = <<>>
        /\ \E sa \in Scripts, sb \in Scripts :
             /\ ma = Mem(<<>>, sa, 1) /\ mb = Mem(<<>>, sb, 51)
             /\ scripts0 = <<sa, sb>>

Send == LET m == 100 + Len(hist) IN
        IF closed THEN Apply("send", Out(Cur, R("ValueError", <<>>), 0, 0), TRUE) /\ UNCHANGED log
        ELSE Apply("send", Out(Cur, R("ok", <<m>>), 0, 0), TRUE)
             /\ log' = log \o <<"a_send", "b_send">>        \* every member gets a copy
Receive == \E f \in BOOLEAN : CanReturn(Cur) /\ Apply("receive", Recv(Cur, TRUE, f), f) /\ UNCHANGED log
Poll    == \E f \in BOOLEAN : Apply("poll", Recv(Cur, FALSE, f), f) /\ UNCHANGED log
IterPending == \E f \in BOOLEAN : Apply("iter_pending", PendLoop(Cur, f, <<>>, 0), f) /\ UNCHANGED log
Iterate == closed /\ Apply("iterate", IterLoop(Cur, <<>>), TRUE) /\ UNCHANGED log
Close   == Apply("close", Out([Cur EXCEPT !.closed = TRUE], R("ok", <<>>), 0, 0), TRUE) /\ UNCHANGED log

Next == /\ Len(hist) < MaxCalls
        /\ (Send \/ Receive \/ Poll \/ IterPending \/ Iterate \/ Close)
Spec == Init /\ [][Next]_vars

\* ---- properties ----
DrainBeforeStop ==
  \A i \in DOMAIN hist :
     (hist[i].op \in {"receive", "poll"} /\ hist[i].qlen_before > 0) => hist[i].r.k = "msg"
NonBlockingNeverWaits ==
  \A i \in DOMAIN hist : hist[i].op # "receive" => hist[i].sleeps = 0
SendAfterCloseRaises ==
  \A i \in DOMAIN hist : hist[i].op = "send" =>
     (hist[i].closed_before <=> hist[i].r.k = "ValueError")
IterEndsCleanly ==
  \A i \in DOMAIN hist : hist[i].op \in {"iterate", "iter_pending"} => hist[i].r.k = "list"
\* nothing is lost or duplicated between the members and the MultiPort
Conservation ==
  LET got == UNION {{hist[i].r.v[j] : j \in DOMAIN hist[i].r.v} : i \in
                    {k \in DOMAIN hist : hist[k].r.k \in {"msg", "list"}}}
  IN Cardinality(got) + Len(q) + Len(ma.q) + Len(mb.q) = (ma.nextid - 1) + (mb.nextid - 51)

Emit == Len(hist) = MaxCalls =>
          PrintT(ToString(<<"EMIT", "multi", FALSE, scripts0, hist, closed, q, log>>))
=============================================================================
