------------------------------ MODULE MsgText -------------------------------
(***************************************************************************)
(* C14: the text form of messages.  A line is a type word followed by      *)
(* argument tokens; a token is [n |-> name, eq |-> has '=', val |-> value] *)
(* (values as in MsgDomain, plus k = "lparen" / "rparen" for data with a   *)
(* missing parenthesis).  Parse is total: a message (attribute function)   *)
(* or an error; Render is the documented format.  parse_string_stream is   *)
(* modelled as a fold over lines with a line counter that counts every     *)
(* input line.                                                             *)
(***************************************************************************)
EXTENDS MsgDomain, SequencesExt

Tok(n, eq, val) == [n |-> n, eq |-> eq, val |-> val]

ValueOk(t, n, x) ==
  /\ n \in AttrSet(t)
  /\ CASE n = "time" -> x.k \in {"int", "float"}
       [] n = "data" -> x.k = "seq" /\ \A i \in DOMAIN x.v : x.v[i] \in 0..127
       [] OTHER -> InDomain(n, x)

\* names must be distinct (duplicated attributes are left open by the property)
Distinct(args) == \A i, j \in DOMAIN args : i # j => args[i].n # args[j].n

ParseOk(t, args) ==
  /\ t \in AllTypes
  /\ \A i \in DOMAIN args : args[i].eq /\ ValueOk(t, args[i].n, args[i].val)
Parsed(t, args) ==
  [a \in AttrSet(t) |-> IF \E i \in DOMAIN args : args[i].n = a
                        THEN args[CHOOSE i \in DOMAIN args : args[i].n = a].val
                        ELSE Default(a)]

\* documented format: type, then every attribute in order, then time
Render(t, f) == [i \in 1..(Len(TypeAttrs(t)) + 1) |->
                   IF i <= Len(TypeAttrs(t)) THEN Tok(TypeAttrs(t)[i], TRUE, f[TypeAttrs(t)[i]])
                   ELSE Tok("time", TRUE, f["time"])]

(***************************************************************************)
(* Enumeration.  mode "line": a type word and up to two tokens.            *)
(*              mode "render": every valid boundary state of every type.   *)
(*              mode "stream": up to MaxLines lines from LineTable.        *)
(***************************************************************************)
CONSTANTS MaxLines

TypeWords == {"note_on", "sysex", "pitchwheel", "clock", "foo", "Note_on", ""}
Tokens == {
  Tok("note", TRUE, I(60)), Tok("note", TRUE, I(128)), Tok("note", TRUE, I(-1)),
  Tok("note", TRUE, V("str", <<>>)), Tok("note", TRUE, V("float", <<5>>)),
  Tok("note", FALSE, I(0)), Tok("bogus", TRUE, I(1)), Tok("channel", TRUE, I(15)),
  Tok("channel", TRUE, I(16)), Tok("pitch", TRUE, I(-8192)), Tok("pitch", TRUE, I(8192)),
  Tok("time", TRUE, I(7)), Tok("time", TRUE, V("float", <<-15>>)), Tok("time", TRUE, V("str", <<>>)),
  Tok("time", FALSE, I(0)),
  Tok("data", TRUE, V("seq", <<>>)), Tok("data", TRUE, V("seq", <<1, 2>>)),
  Tok("data", TRUE, V("seq", <<128>>)), Tok("data", TRUE, V("badseq", <<>>)),
  Tok("data", TRUE, V("lparen", <<1, 2>>)), Tok("data", TRUE, V("rparen", <<1, 2>>)),
  Tok("data", TRUE, I(123)),
  \* nothing after the '=' sign
  Tok("data", TRUE, V("empty", <<>>)), Tok("note", TRUE, V("empty", <<>>)),
  Tok("time", TRUE, V("empty", <<>>)) }

\* lines used in streams: <<type word, args, decoration>>
LineTable == <<
  <<"note_on", <<Tok("note", TRUE, I(60))>>, "plain">>,                    \* 1 valid
  <<"note_on", <<Tok("channel", TRUE, I(15))>>, "comment_after">>,         \* 2 valid + comment
  <<"", <<>>, "blank">>,                                                   \* 3 blank
  <<"", <<>>, "comment_only">>,                                            \* 4 comment
  <<"foo", <<>>, "plain">>,                                                \* 5 unknown type
  <<"note_on", <<Tok("note", FALSE, I(0))>>, "plain">>,                    \* 6 missing '='
  <<"note_on", <<Tok("note", TRUE, V("str", <<>>))>>, "plain">>,           \* 7 bad number
  <<"note_on", <<Tok("bogus", TRUE, I(1))>>, "plain">>,                    \* 8 unknown attribute
  <<"sysex", <<Tok("data", TRUE, V("lparen", <<1, 2>>))>>, "plain">>,      \* 9 bad data syntax
  <<"note_on", <<Tok("note", TRUE, I(128))>>, "spaces">>,                  \* 10 out of range
  <<"sysex", <<Tok("data", TRUE, V("seq", <<1, 2>>))>>, "spaces">>,        \* 11 valid, indented
  <<"", <<>>, "spaces_only">> >>                                           \* 12 whitespace only

VARIABLES mode, tw, args, st, lines
vars == <<mode, tw, args, st, lines>>

Init ==
  \/ /\ mode = "line" /\ st = <<>> /\ lines = <<>>
     /\ tw \in TypeWords
     /\ \E k \in 0..2 : args \in {a \in [1..k -> Tokens] : Distinct(a)}
  \/ /\ mode = "render" /\ args = <<>> /\ lines = <<>>
     /\ tw \in AllTypes /\ st \in ValidStates(tw)
  \/ /\ mode = "stream" /\ tw = "" /\ args = <<>> /\ st = <<>>
     /\ \E k \in 0..MaxLines : lines \in [1..k -> 1..Len(LineTable)]
Next == FALSE /\ UNCHANGED vars
Spec == Init /\ [][Next]_vars

\* what parse_string_stream yields for each input line
LineOut(i, n) ==
  LET l == LineTable[i] IN
  IF l[3] \in {"blank", "comment_only", "spaces_only"} THEN <<>>
  ELSE IF ParseOk(l[1], l[2]) THEN << <<1, i>> >>       \* (message, None)
  ELSE << <<0, n>> >>                                    \* (None, "line n: ...")
StreamOut == FoldLeft(LAMBDA a, n : a \o LineOut(lines[n], n), <<>>, [n \in DOMAIN lines |-> n])

\* ---- theorems ----
RenderParses == mode = "render" =>
   /\ ParseOk(tw, Render(tw, st))
   /\ Parsed(tw, Render(tw, st)) = st
ParsedIsValid == (mode = "line" /\ ParseOk(tw, args)) => Valid(tw, Parsed(tw, args))
\* every line of the stream is accounted for, errors carry their own line number
StreamShape == mode = "stream" =>
   /\ Len(StreamOut) <= Len(lines)
   /\ \A k \in DOMAIN StreamOut : StreamOut[k][1] = 0 =>
         StreamOut[k][2] \in DOMAIN lines /\ LineOut(lines[StreamOut[k][2]], StreamOut[k][2]) = <<StreamOut[k]>>

Emit == PrintT(ToString(
  CASE mode = "line" -> <<"EMIT", "line", tw, args, ParseOk(tw, args),
                          IF ParseOk(tw, args) THEN Parsed(tw, args) ELSE <<>> >>
    [] mode = "render" -> <<"EMIT", "render", tw, Render(tw, st), st>>
    [] mode = "stream" -> <<"EMIT", "stream", lines, StreamOut>>))
=============================================================================
