---------------------------- MODULE WireStrings -----------------------------
(***************************************************************************)
(* C02: Decode accepts exactly the images of Encode.  The state space is   *)
(* every string of length 0..MaxLen over Alphabet (byte-class              *)
(* representatives plus the non-byte items -1, 256 and 1000 = "not an      *)
(* integer").  Each row <<verdict, string>> is emitted for replay into     *)
(* Message.from_bytes / from_hex.                                          *)
(***************************************************************************)
EXTENDS MidiWire, TLC

CONSTANTS Alphabet, MinLen, MaxLen

VARIABLE bs

\* one representative (or two) per byte class, plus the non-byte items
ClassAlphabet == {0, 1, 127, 128, 143, 144, 192, 207, 224, 239, 240, 241, 242, 243,
                  244, 245, 246, 247, 248, 249, 253, 254, 255, -1, 256, 1000}
LongAlphabet == {0, 127, 128, 144, 240, 247, 248}

Strings == UNION {[1..k -> Alphabet] : k \in MinLen..MaxLen}

Init == bs \in Strings
Next == FALSE /\ UNCHANGED bs
Spec == Init /\ [][Next]_bs

SoundInv == DecodeSound(bs)
\* verdict 1 = accept (then the decoded message follows), 0 = reject
Row == LET d == Decode(bs) IN
       IF d = Invalid THEN <<0, Len(bs)>> \o bs
       ELSE <<1, Len(bs)>> \o bs \o <<TypeIdx(d.t), Len(d.v)>> \o d.v
EmitInv == PrintT(ToString(<<"EMIT", Row>>))
=============================================================================
