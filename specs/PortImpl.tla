------------------------------ MODULE PortImpl ------------------------------
(***************************************************************************)
(* Implementation-shaped model of mido/ports.py used from several threads. *)
(* One action per access to shared state - exactly the points at which the *)
(* deterministic scheduler of the harness can switch threads:              *)
(*   acq / rel   RLock acquire / release   (with self._lock)               *)
(*   test        truth test of the message deque (if self._messages)       *)
(*   pop / put   deque popleft / append                                    *)
(*   wput / wtest / wget   byte-wise device wire in _send / _receive       *)
(*   sleep       the polling sleep() of a blocking receive                 *)
(* pc[t] names the access thread t performs next.                          *)
(*                                                                         *)
(* Port kinds:                                                             *)
(*   echo    EchoPort: _send appends to the port's own deque               *)
(*   device  a lock-protected device port in loopback: _send writes the    *)
(*           message's two bytes to a wire, _receive reads the wire byte   *)
(*           by byte into the parser, which appends complete messages      *)
(*   ioport  the IOPort wrapper around two device ports (input/output,     *)
(*           looped back): the wrapper itself has a DummyLock, so its own  *)
(*           test-and-pop on the input's deque is unprotected unless       *)
(*           AtomicPop (the repaired design: pop, tolerate empty)          *)
(***************************************************************************)
EXTENDS Integers, Sequences, FiniteSets, TLC

CONSTANTS Scenario,     \* name of the program (see Prog below)
          MaxPreempt,   \* bound on preemptive context switches
          MaxSteps,     \* bound on schedule length (cuts spinning receivers)
          Locking,      \* FALSE: the port lock is a DummyLock (demonstration)
          AtomicPop     \* TRUE: repaired IOPort/receive (atomic pop)

Op(o, m) == [op |-> o, m |-> m]
S(m) == Op("send", m)
P == Op("poll", 0)
Rv == Op("recv", 0)
I == Op("iterp", 0)

\* Scenario table: kind, pre-queued messages, one program per thread.
Kind ==
  CASE Scenario \in {"echo_2s2p", "echo_s2_r2", "echo_s2_iter_p", "echo_pre2_3p"} -> "echo"
    [] Scenario \in {"dev_2s_r2", "dev_s2_2p"} -> "device"
    [] Scenario \in {"io_pre1_2p", "io_s_2p", "io_s2_r_p"} -> "ioport"
InitQ ==
  CASE Scenario = "io_pre1_2p" -> <<1>>
    [] Scenario = "echo_pre2_3p" -> <<1, 2>>
    [] OTHER -> <<>>
Prog ==
  CASE Scenario = "echo_2s2p"      -> << <<S(1)>>, <<S(2)>>, <<P>>, <<P>> >>
    [] Scenario = "echo_s2_r2"     -> << <<S(1), S(2)>>, <<Rv, Rv>> >>
    [] Scenario = "echo_s2_iter_p" -> << <<S(1), S(2)>>, <<I>>, <<P>> >>
    [] Scenario = "echo_pre2_3p"   -> << <<P>>, <<P>>, <<P>> >>
    [] Scenario = "dev_2s_r2"      -> << <<S(1)>>, <<S(2)>>, <<Rv, Rv>> >>
    [] Scenario = "dev_s2_2p"      -> << <<S(1), S(2)>>, <<P>>, <<P, P>> >>
    [] Scenario = "io_pre1_2p"     -> << <<P>>, <<P>> >>
    [] Scenario = "io_s_2p"        -> << <<S(1)>>, <<P>>, <<P>> >>
    [] Scenario = "io_s2_r_p"      -> << <<S(1), S(2)>>, <<Rv>>, <<P>> >>

Threads == DOMAIN Prog
SentIds == UNION {{Prog[t][i].m : i \in {j \in DOMAIN Prog[t] : Prog[t][j].op = "send"}} : t \in Threads}
           \cup {InitQ[i] : i \in DOMAIN InitQ}

VARIABLES q,       \* the input port's message deque
          wire,    \* device wire: sequence of <<message id, byte index>>
          par,     \* parser: id of the message whose first byte was read (0 none)
          lock,    \* lock id -> owning thread (0 free); 1 = port/input lock, 2 = output lock
          pc, ip, acc, hold, inner, res,
          cur, np, sched
vars == <<q, wire, par, lock, pc, ip, acc, hold, inner, res, cur, np, sched>>

R(k, v) == [k |-> k, v |-> v]

SendLock == IF Kind = "ioport" THEN 2 ELSE 1

CurOp(t) == Prog[t][ip[t]]
Blocking(t) == CurOp(t).op = "recv"

First(o) == IF o.op = "send" THEN "s_acq"
            ELSE IF Kind = "ioport" THEN (IF AtomicPop THEN "o_pop1" ELSE "o_test1")
            ELSE "r_acq1"

Init ==
  /\ q = InitQ /\ wire = <<>> /\ par = 0
  /\ lock = [i \in {1, 2} |-> 0]
  /\ ip = [t \in Threads |-> 1]
  /\ pc = [t \in Threads |-> First(Prog[t][1])]
  /\ acc = [t \in Threads |-> <<>>]
  /\ hold = [t \in Threads |-> 0]
  /\ inner = [t \in Threads |-> FALSE]
  /\ res = [t \in Threads |-> <<>>]
  /\ cur = 0 /\ np = 0 /\ sched = <<>>

IsAcq(t) == pc[t] \in {"s_acq", "r_acq1", "r_acq2"}
LockOf(t) == IF pc[t] = "s_acq" THEN SendLock ELSE 1
Enabled(t) == /\ pc[t] # "done"
              /\ (IsAcq(t) /\ Locking) => lock[LockOf(t)] \in {0, t}

\* the current operation of t completes with result r
Complete(t, r) ==
  IF CurOp(t).op = "iterp" /\ r.k = "msg"
  THEN /\ acc' = [acc EXCEPT ![t] = Append(@, r.v[1])]       \* iter_pending: poll again
       /\ pc' = [pc EXCEPT ![t] = First(CurOp(t))]
       /\ UNCHANGED <<ip, res>>
  ELSE LET rr == IF CurOp(t).op = "iterp" /\ r.k = "none" THEN R("list", acc[t]) ELSE r IN
       /\ res' = [res EXCEPT ![t] = Append(@, rr)]
       /\ acc' = [acc EXCEPT ![t] = <<>>]
       /\ IF ip[t] < Len(Prog[t])
          THEN /\ ip' = [ip EXCEPT ![t] = @ + 1]
               /\ pc' = [pc EXCEPT ![t] = First(Prog[t][ip[t] + 1])]
          ELSE /\ pc' = [pc EXCEPT ![t] = "done"] /\ UNCHANGED ip

Goto(t, l) == pc' = [pc EXCEPT ![t] = l] /\ UNCHANGED <<ip, res, acc>>

Take(t, i) == lock' = [lock EXCEPT ![i] = IF Locking THEN t ELSE 0]
Free(t, i) == lock' = [lock EXCEPT ![i] = 0]

\* the inner (input port's) receive returns value v to its caller
InnerReturn(t, r) ==
  IF inner[t]
  THEN /\ inner' = [inner EXCEPT ![t] = FALSE]
       /\ IF r.k = "msg" THEN Complete(t, r)               \* if msg: return msg
          ELSE Goto(t, IF AtomicPop THEN "o_pop2" ELSE "o_test2")
  ELSE /\ Complete(t, r) /\ UNCHANGED inner

Step(t) ==
  LET m == CurOp(t).m IN
  CASE pc[t] = "s_acq" ->
         /\ Take(t, SendLock)
         /\ Goto(t, IF Kind = "echo" THEN "s_put" ELSE "s_w1")
         /\ UNCHANGED <<q, wire, par, hold, inner>>
    [] pc[t] = "s_put" ->
         /\ q' = Append(q, m) /\ Goto(t, "s_rel")
         /\ UNCHANGED <<wire, par, lock, hold, inner>>
    [] pc[t] = "s_w1" ->
         /\ wire' = Append(wire, <<m, 1>>) /\ Goto(t, "s_w2")
         /\ UNCHANGED <<q, par, lock, hold, inner>>
    [] pc[t] = "s_w2" ->
         /\ wire' = Append(wire, <<m, 2>>) /\ Goto(t, "s_rel")
         /\ UNCHANGED <<q, par, lock, hold, inner>>
    [] pc[t] = "s_rel" ->
         /\ Free(t, SendLock) /\ Complete(t, R("ok", <<>>))
         /\ UNCHANGED <<q, wire, par, hold, inner>>
    \* ---- IOPort wrapper: unprotected test / pop on the input's deque ----
    [] pc[t] = "o_test1" ->                      \* original code: if self._messages
         /\ IF q # <<>> THEN Goto(t, "o_pop1") /\ UNCHANGED inner
            ELSE inner' = [inner EXCEPT ![t] = TRUE] /\ Goto(t, "r_acq1")
         /\ UNCHANGED <<q, wire, par, lock, hold>>
    [] pc[t] = "o_pop1" ->
         /\ IF q # <<>> THEN q' = Tail(q) /\ Complete(t, R("msg", <<Head(q)>>)) /\ UNCHANGED inner
            ELSE IF AtomicPop                      \* repaired: empty deque tolerated
                 THEN q' = q /\ inner' = [inner EXCEPT ![t] = TRUE] /\ Goto(t, "r_acq1")
                 ELSE q' = q /\ Complete(t, R("raise", <<>>)) /\ UNCHANGED inner   \* IndexError
         /\ UNCHANGED <<wire, par, lock, hold>>
    [] pc[t] = "o_test2" ->
         /\ IF q # <<>> THEN Goto(t, "o_pop2") ELSE Complete(t, R("none", <<>>))
         /\ UNCHANGED <<q, wire, par, lock, hold, inner>>
    [] pc[t] = "o_pop2" ->
         /\ IF q # <<>> THEN q' = Tail(q) /\ Complete(t, R("msg", <<Head(q)>>))
            ELSE q' = q /\ Complete(t, IF AtomicPop THEN R("none", <<>>) ELSE R("raise", <<>>))
         /\ UNCHANGED <<wire, par, lock, hold, inner>>
    \* ---- BaseInput.receive on the (input) port ----
    [] pc[t] = "r_acq1" ->
         /\ Take(t, 1) /\ Goto(t, IF AtomicPop THEN "r_pop1" ELSE "r_test1")
         /\ UNCHANGED <<q, wire, par, hold, inner>>
    [] pc[t] = "r_test1" ->
         /\ Goto(t, IF q # <<>> THEN "r_pop1" ELSE "r_rel1e")
         /\ UNCHANGED <<q, wire, par, lock, hold, inner>>
    [] pc[t] \in {"r_pop1", "r_pop2"} ->
         /\ IF q # <<>>
            THEN /\ hold' = [hold EXCEPT ![t] = Head(q)] /\ q' = Tail(q)
                 /\ Goto(t, IF pc[t] = "r_pop1" THEN "r_rel1" ELSE "r_rel2")
            ELSE IF AtomicPop                      \* repaired: empty deque tolerated
                 THEN /\ hold' = hold /\ q' = q
                      /\ Goto(t, IF pc[t] = "r_pop1" THEN "r_rel1e"
                                 ELSE IF Blocking(t) THEN "r_rel2s" ELSE "r_rel2n")
                 ELSE /\ hold' = [hold EXCEPT ![t] = -1] /\ q' = q    \* IndexError
                      /\ Goto(t, IF pc[t] = "r_pop1" THEN "r_rel1" ELSE "r_rel2")
         /\ UNCHANGED <<wire, par, lock, inner>>
    [] pc[t] \in {"r_rel1", "r_rel2"} ->
         /\ Free(t, 1)
         /\ InnerReturn(t, IF hold[t] = -1 THEN R("raise", <<>>) ELSE R("msg", <<hold[t]>>))
         /\ UNCHANGED <<q, wire, par, hold>>
    [] pc[t] = "r_rel1e" ->
         /\ Free(t, 1) /\ Goto(t, "r_acq2")
         /\ UNCHANGED <<q, wire, par, hold, inner>>
    [] pc[t] = "r_acq2" ->
         /\ Take(t, 1) /\ Goto(t, IF Kind # "echo" THEN "r_wtest"
                                    ELSE IF AtomicPop THEN "r_pop2" ELSE "r_test2")
         /\ UNCHANGED <<q, wire, par, hold, inner>>
    [] pc[t] = "r_wtest" ->
         /\ Goto(t, IF wire # <<>> THEN "r_wget"
                    ELSE IF AtomicPop THEN "r_pop2" ELSE "r_test2")
         /\ UNCHANGED <<q, wire, par, lock, hold, inner>>
    [] pc[t] = "r_wget" ->
         /\ wire # <<>>
         /\ wire' = Tail(wire)
         /\ IF Head(wire)[2] = 1
            THEN par' = Head(wire)[1] /\ Goto(t, "r_wtest")
            ELSE par' = par /\ Goto(t, "r_put")
         /\ UNCHANGED <<q, lock, hold, inner>>
    [] pc[t] = "r_put" ->
         /\ q' = Append(q, par) /\ par' = 0 /\ Goto(t, "r_wtest")
         /\ UNCHANGED <<wire, lock, hold, inner>>
    [] pc[t] = "r_test2" ->
         /\ Goto(t, IF q # <<>> THEN "r_pop2"
                    ELSE IF Blocking(t) THEN "r_rel2s" ELSE "r_rel2n")
         /\ UNCHANGED <<q, wire, par, lock, hold, inner>>
    [] pc[t] = "r_rel2n" ->
         /\ Free(t, 1) /\ InnerReturn(t, R("none", <<>>))
         /\ UNCHANGED <<q, wire, par, hold>>
    [] pc[t] = "r_rel2s" ->
         /\ Free(t, 1) /\ Goto(t, "r_sleep")
         /\ UNCHANGED <<q, wire, par, hold, inner>>
    [] pc[t] = "r_sleep" ->
         /\ Goto(t, "r_acq2")
         /\ UNCHANGED <<q, wire, par, lock, hold, inner>>

\* a switch away from a thread that could have continued is a preemption;
\* leaving a thread that is about to sleep() is voluntary
Preempts(t) == cur # 0 /\ cur # t /\ Enabled(cur) /\ pc[cur] # "r_sleep"

Run(t) ==
  /\ Enabled(t)
  /\ Len(sched) < MaxSteps
  /\ Preempts(t) => np < MaxPreempt
  /\ np' = IF Preempts(t) THEN np + 1 ELSE np
  /\ cur' = t
  /\ sched' = Append(sched, <<t, pc[t]>>)      \* thread and the access it performs
  /\ Step(t)

Next == \E t \in Threads : Run(t)
Spec == Init /\ [][Next]_vars

AllDone == \A t \in Threads : pc[t] = "done"

\* ---- properties ----
Results == UNION {{res[t][i] : i \in DOMAIN res[t]} : t \in Threads}
NoRaise == \A r \in Results : r.k # "raise"
MsgsOf(r) == IF r.k \in {"msg", "list"} THEN r.v ELSE <<>>
RECURSIVE Cat(_)
Cat(ss) == IF ss = <<>> THEN <<>> ELSE Head(ss) \o Cat(Tail(ss))
RecvBy(t) == Cat([i \in DOMAIN res[t] |-> MsgsOf(res[t][i])])
AllRecv == Cat([t \in Threads |-> RecvBy(t)])
NoDup(s) == \A i, j \in DOMAIN s : i # j => s[i] # s[j]
\* nothing is received twice or invented, at any time
AtMostOnce == NoDup(AllRecv \o q) /\ \A i \in DOMAIN AllRecv : AllRecv[i] \in SentIds
\* when every thread has finished, each message sent was received or is still queued
ExactlyOnce == AllDone =>
  {AllRecv[i] : i \in DOMAIN AllRecv} \cup {q[i] : i \in DOMAIN q}
     \cup {wire[i][1] : i \in DOMAIN wire} = SentIds
\* one receiver sees the messages of one sender in the order sent
\* (ids grow along each sender's program and along the pre-queued messages)
SenderOf(m) == IF \E i \in DOMAIN InitQ : InitQ[i] = m THEN 0
               ELSE CHOOSE t \in Threads : \E i \in DOMAIN Prog[t] : Prog[t][i] = S(m)
PerSenderFifo == \A t \in Threads : \A i, j \in DOMAIN RecvBy(t) :
                    (i < j /\ SenderOf(RecvBy(t)[i]) = SenderOf(RecvBy(t)[j]))
                       => RecvBy(t)[i] < RecvBy(t)[j]
MutualExclusion == \A t1, t2 \in Threads :
   (t1 # t2 /\ Locking) =>
      ~(pc[t1] \in {"r_test1", "r_pop1", "r_rel1", "r_rel1e", "r_wtest", "r_wget", "r_put",
                    "r_test2", "r_pop2", "r_rel2", "r_rel2n", "r_rel2s"}
        /\ pc[t2] \in {"r_test1", "r_pop1", "r_rel1", "r_rel1e", "r_wtest", "r_wget", "r_put",
                       "r_test2", "r_pop2", "r_rel2", "r_rel2n", "r_rel2s"})

Emit == AllDone => PrintT(ToString(<<"EMIT", Scenario, Kind, InitQ, Prog, AtomicPop, sched, res, q>>))
=============================================================================
