------------------------------ MODULE SyxTrace ------------------------------
(***************************************************************************)
(* Validates records logged from the real write_syx_file / read_syx_file:  *)
(* msgs = encodings of the list written, binfile = bytes of the binary     *)
(* file, rbin / rtext = encodings read back from the binary / text file,   *)
(* rlay = read back from a text file laid out by hand with other whitespace.*)
(***************************************************************************)
EXTENDS Tokenizer, Json, IOUtils

Traces == JsonDeserialize(IOEnv.TRACE_FILE)
VARIABLE i
Init == i \in 1..Len(Traces)
Next == FALSE /\ UNCHANGED i
Spec == Init /\ [][Next]_i

IsSysex(tok) == tok[1] = 240
Ok(r) == LET sx == SelectSeq(r.msgs, IsSysex) IN
         /\ r.binfile = Flatten(sx)
         /\ r.rbin = sx /\ r.rtext = sx /\ r.rlay = sx
         /\ (r.binfile = <<>> \/ SelectSeq(ParseAll(r.binfile), IsSysex) = sx)
         /\ \A k \in DOMAIN sx : Decode(sx[k]) # Invalid
Judge == Ok(Traces[i]) \/ PrintT(ToString(<<"REJECTED", i>>))
=============================================================================
