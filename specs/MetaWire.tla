------------------------------ MODULE MetaWire ------------------------------
(***************************************************************************)
(* Meta events of the Standard MIDI File format: FF <type> <length> <data>.*)
(* A meta message is [t |-> type name, v |-> values] with v in documented  *)
(* attribute order.  Conventions that keep every value a small integer:    *)
(*   text-like attributes are byte sequences (the text already encoded in  *)
(*     the file's charset - the charset tables are not modelled);          *)
(*   time_signature.denominator is carried as its exponent e (2**e);       *)
(*   smpte_offset.frame_rate as index 0..3 (24, 25, 29.97, 30);            *)
(*   key_signature.key as index 1..30 into KeyTable.                       *)
(* Unknown meta types are [t |-> "unknown_meta", v |-> <<type_byte>> \o d].*)
(***************************************************************************)
EXTENDS Vlq, FiniteSets

MMsg(t, v) == [t |-> t, v |-> v]
MInvalid == MMsg("invalid", <<>>)

TextTypes == {"text", "copyright", "track_name", "instrument_name", "lyrics",
              "marker", "cue_marker", "device_name"}
KnownTypes == TextTypes \cup {"sequence_number", "channel_prefix", "midi_port",
              "end_of_track", "set_tempo", "smpte_offset", "time_signature",
              "key_signature", "sequencer_specific"}

TypeByte(t) ==
  CASE t = "sequence_number" -> 0 [] t = "text" -> 1 [] t = "copyright" -> 2
    [] t = "track_name" -> 3 [] t = "instrument_name" -> 4 [] t = "lyrics" -> 5
    [] t = "marker" -> 6 [] t = "cue_marker" -> 7 [] t = "device_name" -> 9
    [] t = "channel_prefix" -> 32 [] t = "midi_port" -> 33 [] t = "end_of_track" -> 47
    [] t = "set_tempo" -> 81 [] t = "smpte_offset" -> 84 [] t = "time_signature" -> 88
    [] t = "key_signature" -> 89 [] t = "sequencer_specific" -> 127
KnownBytes == {TypeByte(t) : t \in KnownTypes}
TypeOfByte(b) == CHOOSE t \in KnownTypes : TypeByte(t) = b

\* <<sharps(+)/flats(-), minor>> for key index 1..30:
\* major keys Cb..C# then minor keys Abm..A#m
KeyTable == [i \in 1..30 |-> IF i <= 15 THEN <<i - 8, 0>> ELSE <<i - 23, 1>>]
Byte(n) == IF n < 0 THEN n + 256 ELSE n          \* two's complement byte

IsBytes(s) == \A i \in DOMAIN s : s[i] \in 0..255

\* documented domains
MValid(m) ==
  CASE m.t \in TextTypes -> IsBytes(m.v)
    [] m.t = "sequence_number" -> Len(m.v) = 1 /\ m.v[1] \in 0..65535
    [] m.t \in {"channel_prefix", "midi_port"} -> Len(m.v) = 1 /\ m.v[1] \in 0..255
    [] m.t = "end_of_track" -> m.v = <<>>
    [] m.t = "set_tempo" -> Len(m.v) = 1 /\ m.v[1] \in 0..16777215
    [] m.t = "smpte_offset" -> /\ Len(m.v) = 6 /\ m.v[1] \in 0..3 /\ m.v[2] \in 0..255
                               /\ m.v[3] \in 0..59 /\ m.v[4] \in 0..59
                               /\ m.v[5] \in 0..255 /\ m.v[6] \in 0..99
    [] m.t = "time_signature" -> /\ Len(m.v) = 4 /\ m.v[1] \in 0..255 /\ m.v[2] \in 0..255
                                 /\ m.v[3] \in 0..255 /\ m.v[4] \in 0..255
    [] m.t = "key_signature" -> Len(m.v) = 1 /\ m.v[1] \in 1..30
    [] m.t = "sequencer_specific" -> IsBytes(m.v)
    [] m.t = "unknown_meta" -> Len(m.v) >= 1 /\ m.v[1] \in (0..127) \ KnownBytes
                               /\ IsBytes(Tail(m.v))
    [] OTHER -> FALSE

\* The hour field of an SMPTE offset shares its byte with the frame rate
\* (0rrhhhhh): only hours 0..31 fit.  The documentation nevertheless gives
\* the range 0..255 (known finding D6).
SmpteEncodable(m) == m.t = "smpte_offset" => m.v[2] \in 0..31

Payload(m) ==
  CASE m.t \in TextTypes \cup {"sequencer_specific"} -> m.v
    [] m.t = "sequence_number" -> <<m.v[1] \div 256, m.v[1] % 256>>
    [] m.t \in {"channel_prefix", "midi_port"} -> <<m.v[1]>>
    [] m.t = "end_of_track" -> <<>>
    [] m.t = "set_tempo" -> <<m.v[1] \div 65536, (m.v[1] \div 256) % 256, m.v[1] % 256>>
    [] m.t = "smpte_offset" -> <<m.v[1] * 32 + m.v[2], m.v[3], m.v[4], m.v[5], m.v[6]>>
    [] m.t = "time_signature" -> m.v
    [] m.t = "key_signature" -> <<Byte(KeyTable[m.v[1]][1]), KeyTable[m.v[1]][2]>>
    [] m.t = "unknown_meta" -> Tail(m.v)

MTypeByte(m) == IF m.t = "unknown_meta" THEN m.v[1] ELSE TypeByte(m.t)

MetaEncode(m) == <<255, MTypeByte(m)>> \o Vlq(Len(Payload(m))) \o Payload(m)

DecodePayload(tb, d) ==
  IF tb \notin KnownBytes THEN MMsg("unknown_meta", <<tb>> \o d)
  ELSE LET t == TypeOfByte(tb) IN
    CASE t \in TextTypes \cup {"sequencer_specific"} -> MMsg(t, d)
      [] t = "sequence_number" -> IF Len(d) = 2 THEN MMsg(t, <<d[1] * 256 + d[2]>>) ELSE MInvalid
      [] t \in {"channel_prefix", "midi_port"} -> IF Len(d) = 1 THEN MMsg(t, d) ELSE MInvalid
      [] t = "end_of_track" -> IF d = <<>> THEN MMsg(t, <<>>) ELSE MInvalid
      [] t = "set_tempo" -> IF Len(d) = 3 THEN MMsg(t, <<d[1] * 65536 + d[2] * 256 + d[3]>>)
                            ELSE MInvalid
      [] t = "smpte_offset" -> IF Len(d) = 5 /\ d[1] < 128
                               THEN MMsg(t, <<d[1] \div 32, d[1] % 32, d[2], d[3], d[4], d[5]>>)
                               ELSE MInvalid
      [] t = "time_signature" -> IF Len(d) = 4 THEN MMsg(t, d) ELSE MInvalid
      [] t = "key_signature" ->
           IF Len(d) = 2 /\ \E i \in 1..30 : <<Byte(KeyTable[i][1]), KeyTable[i][2]>> = d
           THEN MMsg(t, <<CHOOSE i \in 1..30 : <<Byte(KeyTable[i][1]), KeyTable[i][2]>> = d>>)
           ELSE MInvalid

\* FF <type> <vlq length> <data>, nothing before or after
MetaDecode(bs) ==
  IF Len(bs) < 3 \/ bs[1] # 255 \/ bs[2] > 127 THEN MInvalid
  ELSE LET rest == SubSeq(bs, 3, Len(bs))
           n == VlqLen(rest)
       IN IF n = 0 THEN MInvalid
          ELSE LET len == VlqValue(SubSeq(rest, 1, n))
                   d == SubSeq(rest, n + 1, Len(rest))
               IN IF Len(d) # len THEN MInvalid ELSE DecodePayload(bs[2], d)

MetaRoundTrip(m) ==
  /\ MValid(m)
  /\ SmpteEncodable(m) =>
       /\ IsBytes(MetaEncode(m))
       /\ LET e == MetaEncode(m)
              n == VlqLen(SubSeq(e, 3, Len(e)))
          IN /\ e[1] = 255 /\ e[2] = MTypeByte(m)
             /\ IsMinimalVlq(SubSeq(e, 3, 2 + n))
             /\ VlqValue(SubSeq(e, 3, 2 + n)) = Len(e) - 2 - n
       /\ MetaDecode(MetaEncode(m)) = m
=============================================================================
