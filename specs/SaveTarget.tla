----------------------------- MODULE SaveTarget -----------------------------
(***************************************************************************)
(* What MidiFile.save(file=f) may do to the file object it is handed.      *)
(* The target is a seekable (or write-only) byte store that may already    *)
(* hold other content - a rewound buffer, a file opened for update, a      *)
(* container into which the MIDI file is embedded at some offset.  The     *)
(* file that save() produces is the region [start, start + n) where start  *)
(* is the position at which the target was handed over; everything outside *)
(* that region belongs to the caller.                                      *)
(*                                                                         *)
(* A writer may stream (Write), and it may go back to fill in a length it  *)
(* did not know yet (Seek back, Write, Seek forward) - but only inside the *)
(* region it has written itself: `hw' is the high-water mark of that       *)
(* region.  Seeking relative to the END of the target is the error this    *)
(* module exists for: the end of the target is not the end of the file.    *)
(*                                                                         *)
(* cells: the target as a sequence of owners - "old" (caller's content),   *)
(* "new" (written by this save).  Content is abstracted away: the bytes    *)
(* are judged by SmfWire; this module judges WHERE they go.                *)
(***************************************************************************)
EXTENDS Integers, Sequences, TLC

CONSTANTS MaxOld,      \* length of the content the target holds beforehand
          MaxWrite,    \* longest single write
          MaxOps,
          Discipline   \* TRUE: seeks stay inside [start, hw]; FALSE: a seek may also go to the end of the target

VARIABLES cells, pos, start, hw, nops, done
vars == <<cells, pos, start, hw, nops, done>>

Old(n) == [i \in 1..n |-> "old"]

Init == /\ \E n \in 0..MaxOld : cells = Old(n)
        /\ \E p \in 0..Len(cells) : pos = p /\ start = p /\ hw = p
        /\ nops = 0 /\ done = FALSE

Put(s, p, n) ==        \* n cells written at position p (0-based) of s
  LET len == IF p + n > Len(s) THEN p + n ELSE Len(s) IN
  [i \in 1..len |-> IF i > p /\ i <= p + n THEN "new" ELSE IF i <= Len(s) THEN s[i] ELSE "hole"]

Write == /\ ~done /\ nops < MaxOps
         /\ \E n \in 1..MaxWrite :
              /\ cells' = Put(cells, pos, n)
              /\ pos' = pos + n
              /\ hw' = IF pos + n > hw THEN pos + n ELSE hw
         /\ nops' = nops + 1 /\ UNCHANGED <<start, done>>

Seek == /\ ~done /\ nops < MaxOps
        /\ \E p \in (start..hw) \cup (IF Discipline THEN {} ELSE {Len(cells)}) : pos' = p
        /\ nops' = nops + 1 /\ UNCHANGED <<cells, start, hw, done>>

Finish == /\ ~done /\ pos = hw /\ done' = TRUE
          /\ UNCHANGED <<cells, pos, start, hw, nops>>

Next == Write \/ Seek \/ Finish
Spec == Init /\ [][Next]_vars

\* the file is one contiguous region of the target, beginning where the target was handed over,
\* ending where the writer stands; nothing outside it was touched and nothing inside it is old
Contiguous ==
  done => /\ \A i \in 1..Len(cells) : (i > start /\ i <= hw) <=> cells[i] = "new"
          /\ pos = hw
NoHoles == \A i \in 1..Len(cells) : cells[i] # "hole"
=============================================================================
