------------------------------ MODULE Playback ------------------------------
(***************************************************************************)
(* C13: playback timing follows the tempo map.                             *)
(* Time is exact: the unit is one microsecond-tick (us * tick); seconds =   *)
(* units / (10^6 * ticks_per_beat), a division the replay driver performs  *)
(* with exact rationals.  An event is <<delta ticks, kind>> with kind      *)
(*   "n" a channel message, "x" a non-tempo meta message, "u" a meta       *)
(*   message of a type mido does not know (UnknownMetaMessage),            *)
(*   "t1" / "t2" / "t3" set_tempo to 1 / 16777215 / 250000 us per beat,    *)
(*   "t0" set_tempo back to the default 500000,                            *)
(*   "e" end_of_track.                                                     *)
(***************************************************************************)
EXTENDS TrackOps

CONSTANTS MaxTracks, MaxEvents, Deltas, KindsUsed, WithPlay

DefaultTempo == 500000
TempoOf(k) == CASE k = "t1" -> 1 [] k = "t2" -> 16777215 [] k = "t3" -> 250000 [] k = "t0" -> 500000
IsTempo(k) == k \in {"t0", "t1", "t2", "t3"}
IsMetaKind(k) == k \in {"x", "u", "e", "t0", "t1", "t2", "t3"}

VARIABLES tracks, delays, metaflag
vars == <<tracks, delays, metaflag>>

\* ids as in MergeCheck: 10 * track + position; end_of_track has id 0
AsEvs(tr, t) == [i \in DOMAIN tr |-> Ev(tr[i][1], IF tr[i][2] = "e" THEN 0 ELSE 10 * t + i)]
KindOfId(id) == IF id = 0 THEN "e" ELSE tracks[id \div 10][id % 10][2]
MergedEvs == Merge([t \in DOMAIN tracks |-> AsEvs(tracks[t], t)])

\* iteration: each merged message with its delta in us*tick; a set_tempo
\* applies only to the deltas after it
Iteration ==
  FoldLeft(LAMBDA a, e :
             [tempo |-> IF IsTempo(KindOfId(e.id)) THEN TempoOf(KindOfId(e.id)) ELSE a.tempo,
              out |-> Append(a.out, <<e.id, e.dt * a.tempo>>)],
           [tempo |-> DefaultTempo, out |-> <<>>], MergedEvs).out
Length == FoldLeft(LAMBDA a, x : a + x[2], 0, Iteration)

\* the tempo-map integral, written independently: cumulative time of the
\* message at absolute tick T = sum over tempo segments
CumulativeOK ==
  LET it == Iteration
      abs == AbsTimes(MergedEvs) IN
  \A i \in DOMAIN it :
     LET cum == FoldLeft(LAMBDA a, x : a + x[2], 0, SubSeq(it, 1, i))
         \* integral: for every earlier message j, ticks between j-1 and j at the tempo then in force
         integ == FoldLeft(LAMBDA a, j :
                     [t |-> IF IsTempo(KindOfId(it[j][1])) THEN TempoOf(KindOfId(it[j][1])) ELSE a.t,
                      s |-> a.s + (abs[j] - (IF j = 1 THEN 0 ELSE abs[j-1])) * a.t],
                     [t |-> DefaultTempo, s |-> 0], [j \in 1..i |-> j]).s
     IN cum = integ

\* play(): virtual clock in the same unit; Start is the clock value when play
\* is entered; delays[k] is how long the consumer keeps the k-th yielded message
Start == 7
Play ==
  FoldLeft(LAMBDA a, x :
     LET input == a.input + x[2]
         dur == input - (a.clock - Start)
         clock1 == IF dur > 0 THEN a.clock + dur ELSE a.clock
         sleeps1 == IF dur > 0 THEN Append(a.sleeps, dur) ELSE a.sleeps
         skip == IsMetaKind(KindOfId(x[1])) /\ ~metaflag
     IN IF skip THEN [a EXCEPT !.input = input, !.clock = clock1, !.sleeps = sleeps1]
        ELSE [input |-> input, clock |-> clock1 + delays[a.k], sleeps |-> sleeps1,
              yields |-> Append(a.yields, <<x[1], clock1, input>>), k |-> a.k + 1],
     [input |-> 0, clock |-> Start, sleeps |-> <<>>, yields |-> <<>>, k |-> 1], Iteration)

NYields == Cardinality({i \in DOMAIN Iteration :
                         ~(IsMetaKind(KindOfId(Iteration[i][1])) /\ ~metaflag)})

NeverEarly(p) == \A i \in DOMAIN p.yields : p.yields[i][2] >= Start + p.yields[i][3]
\* a message is yielded exactly at its scheduled time unless the consumer
\* came back later than that - lateness is never accumulated
NoDrift(p) ==
  LET y == p.yields IN
  \A i \in DOMAIN y :
     LET back == IF i = 1 THEN Start ELSE y[i-1][2] + delays[i-1] IN
     y[i][2] = (IF Start + y[i][3] > back THEN Start + y[i][3] ELSE back)

Shapes == UNION {[1..n -> Deltas \X KindsUsed] : n \in 0..MaxEvents}
Init == /\ \E k \in 0..MaxTracks : tracks \in [1..k -> Shapes]
        /\ IF WithPlay
           THEN /\ metaflag \in BOOLEAN
                /\ delays \in [1..NYields -> {0, 1000, 60000000}]
           ELSE metaflag = TRUE /\ delays = <<>>
Next == FALSE /\ UNCHANGED vars
Spec == Init /\ [][Next]_vars

PlayInv == WithPlay => LET p == Play IN NeverEarly(p) /\ NoDrift(p)

KindCode(k) == CASE k = "n" -> 1 [] k = "x" -> 2 [] k = "t1" -> 3 [] k = "t2" -> 4
                 [] k = "t3" -> 5 [] k = "e" -> 6 [] k = "t0" -> 7 [] k = "u" -> 8
Emit == LET it == Iteration
           pl == IF WithPlay THEN Play ELSE [sleeps |-> <<>>, yields |-> <<>>] IN
  PrintT(ToString(
  <<"EMIT", Len(tracks)>>
  \o FoldLeft(LAMBDA a, t : a \o <<Len(tracks[t])>>
                \o FoldLeft(LAMBDA b, x : b \o <<x[1], KindCode(x[2])>>, <<>>, tracks[t]),
              <<>>, [t \in DOMAIN tracks |-> t])
  \o <<Len(it)>> \o FoldLeft(LAMBDA a, x : a \o <<x[1], x[2]>>, <<>>, it)
  \o (IF WithPlay
      THEN <<IF metaflag THEN 1 ELSE 0, Len(delays)>> \o delays
           \o <<Len(pl.sleeps)>> \o pl.sleeps
           \o <<Len(pl.yields)>> \o FoldLeft(LAMBDA a, y : a \o <<y[1], y[2]>>, <<>>, pl.yields)
      ELSE <<>>)))
=============================================================================
