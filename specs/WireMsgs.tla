------------------------------ MODULE WireMsgs ------------------------------
(***************************************************************************)
(* C01: every valid message round-trips through the wire format.  The      *)
(* state space is the message domain itself (one initial state per         *)
(* message, no transitions); TLC checks RoundTrip in every state and       *)
(* emits one row (type index, values, bytes) per message for replay into   *)
(* the real Message class.                                                 *)
(***************************************************************************)
EXTENDS MidiWire, TLC

CONSTANTS Chans, Data, Pitches, Positions, SysexAlpha, SysexMaxLen, EmitRows

VARIABLE m

FullChans     == 0..15
FullData      == 0..127
FullPitches   == -8192..8191
FullPositions == 0..16383
BoundaryPitches == {-8192, -8191, -8065, -8064, -129, -128, -127, -1, 0, 1, 127, 128, 129,
                    8063, 8064, 8190, 8191}
BoundaryPositions == {0, 1, 127, 128, 129, 255, 256, 16255, 16256, 16382, 16383}

\* Written as a disjunction (not one big set) so that TLC enumerates the
\* 1.33 million initial states without materialising the set.
Init ==
  \/ \E t \in ChannelTypes3, c \in Chans, a \in Data, b \in Data : m = Msg(t, <<c, a, b>>)
  \/ \E t \in ChannelTypes2, c \in Chans, a \in Data : m = Msg(t, <<c, a>>)
  \/ \E c \in Chans, p \in Pitches : m = Msg("pitchwheel", <<c, p>>)
  \/ \E p \in Positions : m = Msg("songpos", <<p>>)
  \/ \E a \in 0..7, b \in 0..15 : m = Msg("quarter_frame", <<a, b>>)
  \/ \E a \in Data : m = Msg("song_select", <<a>>)
  \/ \E t \in OneByteTypes : m = Msg(t, <<>>)
  \/ \E k \in 0..SysexMaxLen : \E s \in [1..k -> SysexAlpha] : m = Msg("sysex", s)
Next == FALSE /\ UNCHANGED m
Spec == Init /\ [][Next]_m

Row(x) == <<TypeIdx(x.t), Len(x.v)>> \o x.v \o Encode(x)
Emit == EmitRows => PrintT(ToString(<<"EMIT", Row(m)>>))

RoundTripInv == RoundTrip(m)
EmitInv == Emit
=============================================================================
