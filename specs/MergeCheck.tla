----------------------------- MODULE MergeCheck -----------------------------
(***************************************************************************)
(* C12: every list of up to MaxTracks tracks of up to MaxEvents events     *)
(* with delta times from Deltas, end_of_track anywhere (missing, repeated, *)
(* mid-track).  Message ids are 10 * track + position.                     *)
(***************************************************************************)
EXTENDS TrackOps

CONSTANTS MaxTracks, MaxEvents, Deltas

VARIABLE tracks

Shapes == UNION {[1..n -> Deltas \X BOOLEAN] : n \in 0..MaxEvents}
MkTrack(t, sh) == [i \in DOMAIN sh |-> Ev(sh[i][1], IF sh[i][2] THEN 0 ELSE 10 * t + i)]

Init == \E k \in 0..MaxTracks : \E f \in [1..k -> Shapes] :
           tracks = [t \in 1..k |-> MkTrack(t, f[t])]
Next == FALSE /\ UNCHANGED tracks
Spec == Init /\ [][Next]_tracks

PipelineAgrees == Pipeline(tracks) = Merge(tracks)
Shape ==
  LET m == Merge(tracks) IN
  /\ IsEot(m[Len(m)]) /\ \A i \in 1..(Len(m) - 1) : ~IsEot(m[i])
  /\ TotalTicks(m) = Duration(tracks)
  /\ Len(m) = Cardinality(Stamped(tracks)) + 1
  /\ \A i \in DOMAIN m : m[i].dt >= 0

Flat(evs) == FoldLeft(LAMBDA a, e : a \o <<e.dt, e.id>>, <<>>, evs)
Emit == PrintT(ToString(<<"EMIT", Len(tracks)>>
          \o FoldLeft(LAMBDA a, t : a \o <<Len(tracks[t])>> \o Flat(tracks[t]), <<>>,
                      [t \in DOMAIN tracks |-> t])
          \o <<Len(Merge(tracks))>> \o Flat(Merge(tracks))))
=============================================================================
