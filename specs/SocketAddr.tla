----------------------------- MODULE SocketAddr -----------------------------
(***************************************************************************)
(* C18, last clause: format_address and parse_address are mutually         *)
(* inverse.  An address is a sequence of one-character strings.            *)
(***************************************************************************)
EXTENDS Integers, Sequences, SequencesExt, TLC

CONSTANTS MaxHost, MaxText

VARIABLES kind, host, port, text
vars == <<kind, host, port, text>>

HostChars == {"a", ".", "1", "-", "A"}      \* (host names keep their case)
TextChars == {"a", ":", "1", "0"}
Ports == {1, 9, 10, 80, 8080, 65535}

DigitChar(d) == CASE d = 0 -> "0" [] d = 1 -> "1" [] d = 2 -> "2" [] d = 3 -> "3" [] d = 4 -> "4"
                  [] d = 5 -> "5" [] d = 6 -> "6" [] d = 7 -> "7" [] d = 8 -> "8" [] d = 9 -> "9"
RECURSIVE Digits(_)
Digits(n) == IF n < 10 THEN <<DigitChar(n)>> ELSE Append(Digits(n \div 10), DigitChar(n % 10))

Format(h, p) == h \o <<":">> \o Digits(p)

IsDigit(c) == c \in {"0", "1", "2", "3", "4", "5", "6", "7", "8", "9"}
DigitVal(c) == CHOOSE d \in 0..9 : DigitChar(d) = c
Value(ds) == FoldLeft(LAMBDA a, c : IF a > 100000 THEN a ELSE a * 10 + DigitVal(c), 0, ds)

Colons(s) == {i \in DOMAIN s : s[i] = ":"}
\* parse: exactly one colon, port a decimal number in 1..65535
Parse(s) ==
  IF Cardinality(Colons(s)) # 1 THEN [ok |-> FALSE, host |-> <<>>, port |-> 0]
  ELSE LET i == CHOOSE j \in Colons(s) : TRUE
           h == SubSeq(s, 1, i - 1)
           ds == SubSeq(s, i + 1, Len(s))
       IN IF ds = <<>> \/ (\E k \in DOMAIN ds : ~IsDigit(ds[k]))
             \/ Value(ds) < 1 \/ Value(ds) > 65535
          THEN [ok |-> FALSE, host |-> <<>>, port |-> 0]
          ELSE [ok |-> TRUE, host |-> h, port |-> Value(ds)]

Init ==
  \/ /\ kind = "format" /\ text = <<>> /\ port \in Ports
     /\ \E k \in 0..MaxHost : host \in [1..k -> HostChars]
  \/ /\ kind = "parse" /\ host = <<>> /\ port = 0
     /\ \E k \in 0..MaxText : text \in [1..k -> TextChars]
Next == FALSE /\ UNCHANGED vars
Spec == Init /\ [][Next]_vars

FormatParseInverse == kind = "format" =>
   LET r == Parse(Format(host, port)) IN r.ok /\ r.host = host /\ r.port = port
ParseThenFormat == kind = "parse" =>
   LET r == Parse(text) IN r.ok => Parse(Format(r.host, r.port)) = r

Emit == PrintT(ToString(
   IF kind = "format" THEN <<"EMIT", "format", host, port, Format(host, port)>>
   ELSE <<"EMIT", "parse", text, Parse(text).ok, Parse(text).host, Parse(text).port>>))
=============================================================================
