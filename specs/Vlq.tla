-------------------------------- MODULE Vlq ---------------------------------
(***************************************************************************)
(* Variable-length quantities of the Standard MIDI File format: 7 bits per *)
(* byte, most significant group first, bit 7 set on every byte but the     *)
(* last.  The minimal encoding uses no leading 0x80 bytes.                 *)
(***************************************************************************)
EXTENDS Integers, Sequences, SequencesExt

RECURSIVE VlqGroups(_)
VlqGroups(n) == IF n < 128 THEN <<n>> ELSE Append(VlqGroups(n \div 128), n % 128)

\* minimal encoding of n >= 0
Vlq(n) == LET g == VlqGroups(n) IN
          [i \in DOMAIN g |-> IF i < Len(g) THEN g[i] + 128 ELSE g[i]]

\* a (possibly padded) encoding: p leading 0x80 bytes
PaddedVlq(n, p) == [i \in 1..p |-> 128] \o Vlq(n)

IsVlq(bs) == /\ Len(bs) >= 1 /\ bs[Len(bs)] < 128
             /\ \A i \in 1..(Len(bs) - 1) : bs[i] >= 128
VlqValue(bs) == FoldLeft(LAMBDA a, b : a * 128 + (b % 128), 0, bs)
IsMinimalVlq(bs) == IsVlq(bs) /\ (Len(bs) > 1 => bs[1] # 128)

\* number of bytes of the VLQ that starts bs (0 if none terminates)
VlqLen(bs) == IF \E i \in DOMAIN bs : bs[i] < 128
              THEN CHOOSE i \in DOMAIN bs : bs[i] < 128 /\ \A j \in 1..(i-1) : bs[j] >= 128
              ELSE 0
=============================================================================
