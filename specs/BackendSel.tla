----------------------------- MODULE BackendSel -----------------------------
(***************************************************************************)
(* C20: backend selection and port-opening arguments.  One state per       *)
(* configuration cell; Expected is the precedence function:                *)
(*   module  : explicit name beats MIDO_BACKEND beats the default          *)
(*   api     : api in the call beats the api keyword of the Backend beats  *)
(*             the API suffix of the name that selected the module         *)
(*   port    : explicit port name beats MIDO_DEFAULT_* (only with          *)
(*             use_environ) beats None                                     *)
(*   import  : at construction iff load, otherwise at first use            *)
(* Strings are symbolic: modules "mod" (argument), "emod" (environment),   *)
(* "dmod" (default); APIs "KA" (keyword), "NA" (argument suffix), "EA"     *)
(* (environment suffix), "CA" (in the call); port names "given", "envin",  *)
(* "envout", "envio", "none".                                              *)
(* Left open on purpose: whether use_environ = FALSE also disables         *)
(* MIDO_BACKEND (the statement ties use_environ to the default ports only; *)
(* the code honours MIDO_BACKEND regardless) - cells with use_environ =    *)
(* FALSE, no explicit name and MIDO_BACKEND set are emitted with           *)
(* open = TRUE and accept both answers.                                    *)
(***************************************************************************)
EXTENDS Integers, Sequences, FiniteSets, TLC

VARIABLES name,      \* "absent" | "plain" | "withapi"
          apikw,     \* BOOLEAN: api= keyword given to Backend()
          envb,      \* "unset" | "plain" | "withapi"   (MIDO_BACKEND)
          envin, envout, envio,   \* BOOLEAN: MIDO_DEFAULT_* set
          useenv, load, native, getdev,
          call,      \* the call made on the backend
          pname,     \* BOOLEAN: port name given in the call
          capi       \* BOOLEAN: api= given in the call
vars == <<name, apikw, envb, envin, envout, envio, useenv, load, native, getdev, call, pname, capi>>

Calls == {"open_input", "open_output", "open_ioport",
          "get_input_names", "get_output_names", "get_ioport_names"}

Init == /\ name \in {"absent", "plain", "withapi"} /\ apikw \in BOOLEAN
        /\ envb \in {"unset", "plain", "withapi"}
        /\ envin \in BOOLEAN /\ envout \in BOOLEAN /\ envio \in BOOLEAN
        /\ useenv \in BOOLEAN /\ load \in BOOLEAN /\ native \in BOOLEAN /\ getdev \in BOOLEAN
        /\ call \in Calls /\ pname \in BOOLEAN /\ capi \in BOOLEAN
        /\ (call \notin {"open_input", "open_output", "open_ioport"} => ~pname)
Next == FALSE /\ UNCHANGED vars
Spec == Init /\ [][Next]_vars

Module == IF name # "absent" THEN "mod" ELSE IF envb # "unset" THEN "emod" ELSE "dmod"
Open == name = "absent" /\ envb # "unset" /\ ~useenv          \* see header
BackendApi == IF apikw THEN "KA"
              ELSE IF name = "withapi" THEN "NA"
              ELSE IF name = "absent" /\ envb = "withapi" THEN "EA"
              ELSE "none"
CallApi == IF capi THEN "CA" ELSE BackendApi
ImportAt == IF load THEN "construct" ELSE "call"

Env(set, v) == IF useenv /\ set THEN v ELSE "none"
C(cls, n, a) == [cls |-> cls, name |-> n, api |-> a]

Constructed ==
  CASE call = "open_input"  -> << C("Input", IF pname THEN "given" ELSE Env(envin, "envin"), CallApi) >>
    [] call = "open_output" -> << C("Output", IF pname THEN "given" ELSE Env(envout, "envout"), CallApi) >>
    [] call = "open_ioport" ->
         LET n == IF pname THEN "given" ELSE Env(envio, "envio") IN
         IF native THEN << C("IOPort", n, CallApi) >>
         ELSE IF n # "none" THEN << C("Input", n, CallApi), C("Output", n, CallApi) >>
         ELSE << C("Input", Env(envin, "envin"), CallApi), C("Output", Env(envout, "envout"), CallApi) >>
    [] OTHER -> <<>>

\* the module's device list: <<name, is_input, is_output>>
\* (a device may be listed once as input and once as output, in another order)
Devices == << <<"a", TRUE, FALSE>>, <<"b", TRUE, FALSE>>, <<"c", TRUE, FALSE>>, <<"x", TRUE, FALSE>>,
              <<"c", FALSE, TRUE>>, <<"a", FALSE, TRUE>>, <<"y", FALSE, TRUE>>, <<"b", FALSE, TRUE>>,
              <<"d", TRUE, TRUE>> >>
OutputNames == {Devices[i][1] : i \in {j \in DOMAIN Devices : Devices[j][3]}}
Names(P(_)) == LET s == SelectSeq(Devices, P) IN [i \in DOMAIN s |-> s[i][1]]
Listing ==
  IF ~getdev THEN <<>>
  ELSE CASE call = "get_input_names"  -> Names(LAMBDA d : d[2])
         [] call = "get_output_names" -> Names(LAMBDA d : d[3])
         \* the input names that are also output names, in input order
         [] call = "get_ioport_names" -> Names(LAMBDA d : d[2] /\ d[1] \in OutputNames)
         [] OTHER -> <<>>
QueryApi == IF call \in {"get_input_names", "get_output_names", "get_ioport_names"} /\ getdev
            THEN CallApi ELSE "none"

\* ---- internal consistency of the precedence function ----
ExplicitBeatsEnvironment == name # "absent" => Module = "mod"
EnvironmentBeatsDefault == (name = "absent" /\ envb # "unset") => Module = "emod"
KeywordBeatsSuffix == apikw => BackendApi = "KA"
SuffixOnlyOfSelectingName == (name = "plain" /\ ~apikw) => BackendApi = "none"
ApiReachesEveryConstructor ==
  \A i \in DOMAIN Constructed : Constructed[i].api = CallApi
ExplicitPortBeatsEnvironment ==
  pname => \A i \in DOMAIN Constructed : Constructed[i].name = "given"
NoEnvironmentWithoutUseEnviron ==
  ~useenv => \A i \in DOMAIN Constructed : Constructed[i].name \in {"given", "none"}
IOPortPairing == (call = "open_ioport" /\ ~native) => Len(Constructed) = 2

B(b) == IF b THEN 1 ELSE 0
Emit == PrintT(ToString(<<"EMIT", name, B(apikw), envb, B(envin), B(envout), B(envio), B(useenv),
          B(load), B(native), B(getdev), call, B(pname), B(capi),
          Module, B(Open), ImportAt, Constructed, Listing, QueryApi>>))
=============================================================================
