---------------------------- MODULE MidiFileObj -----------------------------
(***************************************************************************)
(* C16: a MidiFile always reflects its current contents.                   *)
(* Contents: type, ticks_per_beat and the tracks (sequences of             *)
(* <<delta, id>>; id 0 = end_of_track).  Edits are the documented ways of  *)
(* changing a file; observations are iteration, length, merged_track and   *)
(* save.  Property: every observation equals the function Obs of the       *)
(* *current* contents (a state predicate - history-free by construction).  *)
(*                                                                         *)
(* The implementation-shaped part is the variable `memo': with             *)
(* Memo = "stale" it reproduces the original code, which caches the merged *)
(* track on first use and invalidates it only in add_track(); TLC then     *)
(* finds the shortest history after which an observation shows old         *)
(* contents.  Memo = "none" is the repaired design (merge on access).      *)
(***************************************************************************)
EXTENDS TrackOps

CONSTANTS MaxOps, Memo, OpSet

VARIABLES ftype, tpb, tracks, memo, hist, nextid, doubled
vars == <<ftype, tpb, tracks, memo, hist, nextid, doubled>>

Obs(trs) == Merge(trs)                 \* what iteration / length / merged_track are functions of

None == <<[dt |-> -1, id |-> -1]>>      \* no memo
Seen == IF Memo = "stale" /\ memo # None THEN memo ELSE Obs(tracks)

H(op, a, b, c, seen) == [op |-> op, a |-> a, b |-> b, c |-> c, seen |-> seen,
                         type |-> ftype, tpb |-> tpb, tracks |-> tracks]

Edit(op, a, b, c, newtracks, keepmemo) ==
  /\ tracks' = newtracks
  /\ memo' = IF keepmemo THEN memo ELSE None
  /\ hist' = Append(hist, [H(op, a, b, c, <<>>) EXCEPT !.tracks = newtracks])
  /\ doubled' = (doubled \/ op = "track_double")
  /\ UNCHANGED <<ftype, tpb>>

\* every fourth new message is an end_of_track with a non-zero delta (ids: 0)
NewMsg == IF nextid % 4 = 2 THEN Ev(2, 0) ELSE Ev(nextid % 3, 10 + nextid)

AddTrack ==       \* mid.add_track()  (the only edit that drops the memo in the original code)
  /\ "add_track" \in OpSet /\ Len(tracks) < 3
  /\ Edit("add_track", 0, 0, 0, Append(tracks, <<>>), FALSE) /\ UNCHANGED nextid
TracksAppend ==   \* mid.tracks.append(MidiTrack([msg]))
  /\ "tracks_append" \in OpSet /\ Len(tracks) < 3
  /\ Edit("tracks_append", NewMsg.dt, NewMsg.id, 0, Append(tracks, <<NewMsg>>), TRUE)
  /\ nextid' = nextid + 1
TracksRemove ==   \* del mid.tracks[i]
  /\ "tracks_remove" \in OpSet
  /\ \E i \in DOMAIN tracks :
       Edit("tracks_remove", i, 0, 0, [j \in 1..(Len(tracks) - 1) |-> IF j < i THEN tracks[j] ELSE tracks[j + 1]], TRUE)
  /\ UNCHANGED nextid
MsgAppend ==      \* mid.tracks[t].append(msg)
  /\ "msg_append" \in OpSet
  /\ \E t \in DOMAIN tracks : Len(tracks[t]) < 3 /\
       Edit("msg_append", t, NewMsg.dt, NewMsg.id, [tracks EXCEPT ![t] = Append(@, NewMsg)], TRUE)
  /\ nextid' = nextid + 1
MsgInsert ==      \* mid.tracks[t].insert(0, msg)
  /\ "msg_insert" \in OpSet
  /\ \E t \in DOMAIN tracks : Len(tracks[t]) < 3 /\
       Edit("msg_insert", t, NewMsg.dt, NewMsg.id, [tracks EXCEPT ![t] = <<NewMsg>> \o @], TRUE)
  /\ nextid' = nextid + 1
MsgDelete ==      \* del mid.tracks[t][i]
  /\ "msg_delete" \in OpSet
  /\ \E t \in DOMAIN tracks : \E i \in DOMAIN tracks[t] :
       Edit("msg_delete", t, i, 0,
            [tracks EXCEPT ![t] = [j \in 1..(Len(@) - 1) |-> IF j < i THEN @[j] ELSE @[j + 1]]], TRUE)
  /\ UNCHANGED nextid
MsgSetTime ==     \* mid.tracks[t][i].time = v
  /\ "msg_time" \in OpSet /\ ~doubled
  /\ \E t \in DOMAIN tracks : \E i \in DOMAIN tracks[t] : \E v \in {0, 5} :
       /\ tracks[t][i].dt # v
       /\ Edit("msg_time", t, i, v, [tracks EXCEPT ![t][i].dt = v], TRUE)
  /\ UNCHANGED nextid
MsgSetAttr ==     \* mid.tracks[t][i].note = ... / .tempo = ...  (in place, same delta)
  /\ "msg_attr" \in OpSet /\ ~doubled
  /\ \E t \in DOMAIN tracks : \E i \in DOMAIN tracks[t] :
       /\ tracks[t][i].id \notin {0, 200}
       /\ Edit("msg_attr", t, i, tracks[t][i].id + 30, [tracks EXCEPT ![t][i].id = @ + 30], TRUE)
  /\ UNCHANGED nextid
MsgReplace ==     \* mid.tracks[t][i] = msg   (a new message with the same delta)
  /\ "msg_replace" \in OpSet
  /\ \E t \in DOMAIN tracks : \E i \in DOMAIN tracks[t] :
       /\ tracks[t][i].id \notin {0, 200}
       /\ Edit("msg_replace", t, i, tracks[t][i].id + 60, [tracks EXCEPT ![t][i].id = @ + 60], TRUE)
  /\ UNCHANGED nextid
MsgSwapTimes ==   \* the deltas of two neighbours are exchanged (the track's total is unchanged)
  /\ "msg_swap" \in OpSet /\ ~doubled
  /\ \E t \in DOMAIN tracks : \E i \in DOMAIN tracks[t] :
       /\ i < Len(tracks[t]) /\ tracks[t][i].dt # tracks[t][i + 1].dt
       /\ Edit("msg_swap", t, i, 0, [tracks EXCEPT ![t][i].dt = tracks[t][i + 1].dt,
                                                   ![t][i + 1].dt = tracks[t][i].dt], TRUE)
  /\ UNCHANGED nextid
TrackDouble ==    \* mid.tracks[t] = mid.tracks[t] * 2   (the same message objects twice; further
                  \* in-place message edits would hit both occurrences, so none are modelled after it)
  /\ "track_double" \in OpSet /\ ~doubled
  /\ \E t \in DOMAIN tracks : tracks[t] # <<>> /\ Len(tracks[t]) <= 2 /\
       Edit("track_double", t, 0, 0, [tracks EXCEPT ![t] = @ \o @], TRUE)
  /\ UNCHANGED nextid
TracksReverse ==  \* mid.tracks = list(reversed(mid.tracks))   (a NEW list object; track order decides ties)
  /\ "tracks_reverse" \in OpSet /\ Len(tracks) >= 2
  /\ Edit("tracks_reverse", 0, 0, 0, [i \in DOMAIN tracks |-> tracks[Len(tracks) + 1 - i]], TRUE)
  /\ UNCHANGED nextid
Flatten ==        \* mid.tracks[:] = [mid.merged_track]   (the usual way to flatten a file)
  /\ "flatten" \in OpSet /\ ftype # 2 /\ tracks # <<>> /\ Len(Obs(tracks)) <= 4
  /\ Edit("flatten", 0, 0, 0, <<Obs(tracks)>>, TRUE)
  /\ UNCHANGED nextid
TrackSlice ==     \* mid.tracks[t] = mid.tracks[t][1:]   (a slice of a MidiTrack is a MidiTrack)
  /\ "track_slice" \in OpSet
  /\ \E t \in DOMAIN tracks : tracks[t] # <<>> /\
       Edit("track_slice", t, 0, 0, [tracks EXCEPT ![t] = Tail(@)], TRUE)
  /\ UNCHANGED nextid
TrackName ==      \* mid.tracks[t].name = '...'  inserts a track_name message (id 200, delta 0)
                  \* at the front unless the track already has one
  /\ "track_name" \in OpSet
  /\ \E t \in DOMAIN tracks : Len(tracks[t]) < 4 /\
       Edit("track_name", t, 0, 0,
            IF \E i \in DOMAIN tracks[t] : tracks[t][i].id = 200 THEN tracks
            ELSE [tracks EXCEPT ![t] = <<Ev(0, 200)>> \o @], TRUE)
  /\ UNCHANGED nextid
SetTpb ==
  /\ "set_tpb" \in OpSet
  /\ \E v \in {96, 480} : v # tpb /\ tpb' = v
       /\ hist' = Append(hist, [H("set_tpb", v, 0, 0, <<>>) EXCEPT !.tpb = v])
  /\ UNCHANGED <<ftype, tracks, memo, nextid, doubled>>
SetType ==
  /\ "set_type" \in OpSet
  /\ \E v \in {0, 1, 2} : v # ftype /\ ftype' = v      \* types 0 and 1 are both synchronous: all tracks merge
       /\ hist' = Append(hist, [H("set_type", v, 0, 0, <<>>) EXCEPT !.type = v])
  /\ UNCHANGED <<tpb, tracks, memo, nextid, doubled>>

Observe(op) ==    \* iterate / length / merged_track all go through the merged track
  /\ op \in OpSet
  /\ hist' = Append(hist, H(op, 0, 0, 0, Seen))
  /\ memo' = IF Memo = "stale" /\ ftype # 2 THEN Seen ELSE memo
  /\ UNCHANGED <<ftype, tpb, tracks, nextid, doubled>>
Save ==           \* save() writes the tracks directly
  /\ "save" \in OpSet
  /\ hist' = Append(hist, H("save", 0, 0, 0, <<>>))
  /\ UNCHANGED <<ftype, tpb, tracks, memo, nextid, doubled>>

Init == /\ ftype = 1 /\ tpb = 480 /\ tracks = <<>> /\ memo = None /\ hist = <<>> /\ nextid = 1
        /\ doubled = FALSE
Next == /\ Len(hist) < MaxOps
        /\ \/ AddTrack \/ TracksAppend \/ TracksRemove \/ MsgAppend \/ MsgInsert \/ MsgDelete
           \/ MsgSetTime \/ MsgSetAttr \/ MsgReplace \/ MsgSwapTimes \/ TrackSlice \/ TrackName \/ TrackDouble \/ Flatten \/ TracksReverse
           \/ SetTpb \/ SetType
           \/ Observe("iterate") \/ Observe("length") \/ Observe("merged_track") \/ Observe("play") \/ Observe("iter_nested") \/ Save
Spec == Init /\ [][Next]_vars

\* ---- the property ----
\* "iter_nested": an iteration during which length is read after the first message
IsObs(h) == h.op \in {"iterate", "length", "merged_track", "play", "iter_nested"}
ObservationIsFunctionOfContents ==
  \A i \in DOMAIN hist : IsObs(hist[i]) => hist[i].seen = Obs(hist[i].tracks)

\* ---- emission: complete histories with the contents after every step ----
Flat(evs) == FoldLeft(LAMBDA a, e : a \o <<e.dt, e.id>>, <<>>, evs)
TrFlat(trs) == <<Len(trs)>> \o FoldLeft(LAMBDA a, t : a \o <<Len(trs[t])>> \o Flat(trs[t]), <<>>,
                                         [t \in DOMAIN trs |-> t])
OpCode(op) == CASE op = "add_track" -> 1 [] op = "tracks_append" -> 2 [] op = "tracks_remove" -> 3
                [] op = "msg_append" -> 4 [] op = "msg_insert" -> 5 [] op = "msg_delete" -> 6
                [] op = "msg_time" -> 7 [] op = "set_tpb" -> 8 [] op = "set_type" -> 9
                [] op = "iterate" -> 10 [] op = "length" -> 11 [] op = "merged_track" -> 12
                [] op = "save" -> 13 [] op = "play" -> 14
                [] op = "msg_attr" -> 15 [] op = "msg_replace" -> 16 [] op = "msg_swap" -> 17
                [] op = "track_slice" -> 18 [] op = "track_name" -> 19
                [] op = "track_double" -> 20 [] op = "iter_nested" -> 21 [] op = "flatten" -> 22 [] op = "tracks_reverse" -> 23
NObs == Cardinality({i \in DOMAIN hist : IsObs(hist[i]) \/ hist[i].op = "save"})
Emit == (Len(hist) = MaxOps /\ NObs >= 1 /\ (IsObs(hist[MaxOps]) \/ hist[MaxOps].op = "save")) =>
  PrintT(ToString(<<"EMIT", Len(hist)>> \o
    FoldLeft(LAMBDA a, h : a \o <<OpCode(h.op), h.a, h.b, h.c, h.type, h.tpb>> \o TrFlat(h.tracks)
                              \o <<Len(h.seen)>> \o Flat(h.seen),
             <<>>, hist)))
=============================================================================
