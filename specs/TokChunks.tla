----------------------------- MODULE TokChunks ------------------------------
(***************************************************************************)
(* C05: parsing does not depend on how the stream is chunked or consumed.  *)
(* A behaviour picks a stream (a concatenation of up to MaxItems items:    *)
(* complete messages of several lengths, a sysex with a real-time byte     *)
(* inside, a stray data byte, a message cut short), then interleaves       *)
(* feeding it in chunks of any size with retrieval calls.  `hist' records  *)
(* every call with the result the specification expects; terminal          *)
(* behaviours are emitted for replay on the real Parser and ParserQueue.   *)
(***************************************************************************)
EXTENDS Tokenizer

CONSTANTS MaxItems, MaxChunks, MaxRet

Items == << <<145, 1, 2>>, <<193, 5>>, <<240, 9, 247>>, <<248>>, <<7>>,
            <<242, 1>>, <<240, 3, 250, 4, 247>> >>

VARIABLES stream, pos, status, buf, queue, out, hist, nchunk, nret, done
vars == <<stream, pos, status, buf, queue, out, hist, nchunk, nret, done>>

Streams == UNION {{Flatten([i \in 1..k |-> Items[f[i]]]) : f \in [1..k -> 1..Len(Items)]}
                  : k \in 1..MaxItems}

Init == /\ stream \in Streams
        /\ pos = 0 /\ status = 0 /\ buf = <<>> /\ queue = <<>> /\ out = <<>>
        /\ hist = <<>> /\ nchunk = 0 /\ nret = 0 /\ done = FALSE

H(op, n, r) == [op |-> op, n |-> n, r |-> r]

FeedChunk(k) ==
  /\ ~done /\ pos + k <= Len(stream)
  /\ (nchunk + 1 < MaxChunks \/ pos + k = Len(stream))   \* last allowed chunk takes the rest
  /\ LET r == FeedAll(status, buf, SubSeq(stream, pos + 1, pos + k)) IN
       /\ status' = r.status /\ buf' = r.buf
       /\ queue' = queue \o r.emit
       /\ hist' = Append(hist, H("feed", k, <<>>))
  /\ pos' = pos + k /\ nchunk' = nchunk + 1
  /\ UNCHANGED <<stream, out, nret, done>>

Get ==
  /\ ~done /\ nret < MaxRet
  /\ IF queue = <<>>
     THEN hist' = Append(hist, H("get", 0, <<>>)) /\ UNCHANGED <<queue, out>>
     ELSE /\ hist' = Append(hist, H("get", 1, <<Head(queue)>>))       \* first in, first out
          /\ queue' = Tail(queue) /\ out' = Append(out, Head(queue))
  /\ nret' = nret + 1
  /\ UNCHANGED <<stream, pos, status, buf, nchunk, done>>

\* one step of an iteration that is then abandoned: it = iter(parser); next(it).
\* Exactly one message is taken; the others stay retrievable in order.
IterOne ==
  /\ ~done /\ nret < MaxRet
  /\ IF queue = <<>>
     THEN hist' = Append(hist, H("iter1", 0, <<>>)) /\ UNCHANGED <<queue, out>>
     ELSE /\ hist' = Append(hist, H("iter1", 1, <<Head(queue)>>))
          /\ queue' = Tail(queue) /\ out' = Append(out, Head(queue))
  /\ nret' = nret + 1
  /\ UNCHANGED <<stream, pos, status, buf, nchunk, done>>

Pending ==
  /\ ~done /\ nret < MaxRet
  /\ hist' = Append(hist, H("pending", Len(queue), <<>>))
  /\ nret' = nret + 1
  /\ UNCHANGED <<stream, pos, status, buf, queue, out, nchunk, done>>

IterAll ==
  /\ ~done /\ (nret < MaxRet \/ pos = Len(stream))
  /\ hist' = Append(hist, H("iter", Len(queue), queue))
  /\ out' = out \o queue /\ queue' = <<>>
  /\ nret' = nret + 1
  /\ done' = (pos = Len(stream))
  /\ UNCHANGED <<stream, pos, status, buf, nchunk>>

Next == (\E k \in 1..Len(stream) : FeedChunk(k)) \/ Get \/ IterOne \/ Pending \/ IterAll
Spec == Init /\ [][Next]_vars

\* ---- properties ----
\* whatever the chunking and retrieval pattern, what was parsed so far is
\* the parse of the bytes fed so far
ChunkIndependence == out \o queue = ParseAll(SubSeq(stream, 1, pos))
ControlAgrees == LET r == FeedAll(0, <<>>, SubSeq(stream, 1, pos)) IN
                 r.status = status /\ r.buf = buf
FinalComplete == done => out = ParseAll(stream) /\ queue = <<>>

Emit == done => PrintT(ToString(<<"EMIT", stream, hist>>))
=============================================================================
