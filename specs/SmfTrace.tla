------------------------------ MODULE SmfTrace ------------------------------
(***************************************************************************)
(* C08 write direction / C07: the bytes written by the real save() must    *)
(* decode, under the reference decoder, to the normal form of the          *)
(* in-memory file, with every conformance flag set.  Records:              *)
(*   [type, tpb, tracks |-> <<track, ...>>, bytes]                         *)
(*   track = sequence of <<dt, kind name, status / meta type, data>>       *)
(***************************************************************************)
EXTENDS SmfWire, Json, IOUtils

Traces == JsonDeserialize(IOEnv.TRACE_FILE)
VARIABLE i
Init == i \in 1..Len(Traces)
Next == FALSE /\ UNCHANGED i
Spec == Init /\ [][Next]_i

ToE(x) == E(x[1], x[2], x[3], x[4])
FileOf(r) == [type |-> r.type, tpb |-> r.tpb,
              tracks |-> [t \in DOMAIN r.tracks |-> [k \in DOMAIN r.tracks[t] |-> ToE(r.tracks[t][k])]]]
Why(r) == LET d == RefRead(r.bytes) IN
          IF d.err # "" THEN d.err
          ELSE IF ~d.minimal THEN "non-minimal VLQ"
          ELSE IF ~d.rslegal THEN "illegal running status"
          ELSE IF ~d.sysexform THEN "sysex without F7"
          ELSE IF ~d.eot THEN "track does not end in exactly one end_of_track"
          ELSE IF ~d.hdr6 THEN "header length"
          ELSE IF ~d.exact THEN "trailing bytes / chunk length"
          ELSE IF AsFile(d) # NormalizeFile(FileOf(r)) THEN "decoded events differ"
          ELSE ""
Judge == Why(Traces[i]) = "" \/ PrintT(ToString(<<"REJECTED", i, Why(Traces[i])>>))
=============================================================================
