------------------------------- MODULE MsgObj -------------------------------
(***************************************************************************)
(* C03: one transition from every valid state (see MsgDomain for the value *)
(* conventions and the documented ranges).                                 *)
(***************************************************************************)
EXTENDS MsgDomain

CONSTANTS Types      \* the message types explored in this run

VARIABLES typ, attrs, last
vars == <<typ, attrs, last>>

NoAct == [act |-> "none", name |-> "", val |-> I(0), name2 |-> "", val2 |-> I(0),
          ok |-> TRUE, pre |-> <<>>]
Act(act, name, val, name2, val2, ok) ==
  [act |-> act, name |-> name, val |-> val, name2 |-> name2, val2 |-> val2, ok |-> ok,
   pre |-> attrs]

Init == /\ typ \in Types /\ attrs \in ValidStates(typ) /\ last = NoAct

Names(t) == AttrSet(t) \cup Foreign(t)
Offered(t, n) == IF n \in AttrSet(t) THEN Probes(n) ELSE {I(0), I(1)}
Accepts(t, n, x) == n \in AttrSet(t) /\ InDomain(n, x)

\* msg.name = value
SetAttr ==
  \E n \in Names(typ) : \E x \in Offered(typ, n) :
    /\ last' = Act("setattr", n, x, "", I(0), Accepts(typ, n, x))
    /\ attrs' = IF Accepts(typ, n, x) THEN [attrs EXCEPT ![n] = x] ELSE attrs
    /\ UNCHANGED typ

\* del msg.name: never allowed
DelAttr ==
  \E n \in AttrSet(typ) \cup {"type", "bogus"} :
    /\ last' = Act("delattr", n, I(0), "", I(0), FALSE)
    /\ UNCHANGED <<typ, attrs>>

\* entry points that build a NEW object from (this object's values +) overrides:
\* copy(**ovr), Message(type, **args), from_dict, from_str.  One or two
\* overrides; the second one is always a valid value of another attribute, so
\* that an invalid first one must still reject the whole call.
OtherValid(t, n) == {<<m, x>> \in (AttrSet(t) \ {n}) \X UNION {Inside(a) : a \in AttrSet(t)} :
                       x \in Inside(m)} \cup {<<"", I(0)>>}
Build(kind) ==
  \E n \in Names(typ) \ {"type"} : \E x \in Offered(typ, n) : \E o \in OtherValid(typ, n) :
    /\ last' = Act(kind, n, x, o[1], o[2], Accepts(typ, n, x))
    /\ UNCHANGED <<typ, attrs>>              \* the original is never changed
\* copy(type=...) : the same type is allowed, another one is not
CopyType ==
  \E same \in BOOLEAN :
    /\ last' = Act("copy_type", IF same THEN "same" ELSE "other", I(0), "", I(0), same)
    /\ UNCHANGED <<typ, attrs>>

\* msg.data += seq  (sysex only)
IAddData ==
  /\ typ = "sysex"
  /\ \E x \in Probes("data") :
       LET ok == x.k = "seq" /\ \A i \in DOMAIN x.v : x.v[i] \in 0..127 IN
       /\ last' = Act("iadd", "data", x, "", I(0), ok)
       /\ attrs' = IF ok THEN [attrs EXCEPT !["data"] = V("seq", @.v \o x.v)] ELSE attrs
       /\ UNCHANGED typ

Next == /\ last = NoAct
        /\ SetAttr \/ DelAttr \/ Build("copy") \/ Build("new") \/ Build("from_dict")
           \/ Build("from_str") \/ CopyType \/ IAddData
Spec == Init /\ [][Next]_vars

\* ---- properties ----
AllValid == Valid(typ, attrs)
TypeStable == [][typ' = typ /\ DOMAIN attrs' = DOMAIN attrs]_vars
RejectIsNoOp == [][(last'.ok = FALSE) => attrs' = attrs]_vars

Emit == last # NoAct =>
  PrintT(ToString(<<"EMIT", typ, last.pre, last.act, last.name, last.val, last.name2, last.val2,
                    last.ok, attrs>>))
=============================================================================
