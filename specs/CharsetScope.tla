---------------------------- MODULE CharsetScope ----------------------------
(***************************************************************************)
(* C17: the charset of a MidiFile is in force only for the duration of its *)
(* load or save call.  `charset' is the process-wide setting used by every *)
(* meta text encode / decode; a call sets it on entry and must restore it  *)
(* on every exit - normal or exceptional.  Scoped = FALSE reproduces the   *)
(* original context manager without try/finally.                           *)
(*                                                                         *)
(* A call processes NItems events; a fault of some kind may strike at      *)
(* event k (0 = before the first event: header / unknown charset).         *)
(***************************************************************************)
EXTENDS Integers, Sequences, TLC

CONSTANTS Scoped, NItems, MaxCalls

Charsets == {"latin1", "utf-8", "cp1252", "shift_jis", "utf-16", "utf-16-le", "iso2022_jp"}
LoadFaults == {"truncate", "bad_data_byte", "undecodable_text", "unknown_charset"}
SaveFaults == {"non_integer_time", "unencodable_text", "unknown_charset", "realtime_message"}

VARIABLES charset, saved, pc, call, hist
vars == <<charset, saved, pc, call, hist>>

NoCall == [kind |-> "", cs |-> "", fault |-> "", at |-> 0]

Init == charset = "latin1" /\ saved = <<>> /\ pc = 0 /\ call = NoCall /\ hist = <<>>

\* entry of MidiFile._load / _save: with meta_charset(self.charset)
Begin ==
  /\ saved = <<>> /\ Len(hist) < MaxCalls
  /\ \E kind \in {"load", "save"}, cs \in Charsets :
       \E fault \in (IF kind = "load" THEN LoadFaults ELSE SaveFaults) \cup {"none"} :
         \E at \in 0..NItems :
           /\ (fault = "none" => at = 0)
           /\ (fault = "unknown_charset" => at = 1)      \* strikes at the first text event
           /\ call' = [kind |-> kind, cs |-> cs, fault |-> fault, at |-> at]
           /\ saved' = <<charset>>
           /\ charset' = IF fault = "unknown_charset" THEN "no-such-charset" ELSE cs
           /\ pc' = 0
  /\ UNCHANGED hist

\* one event is read / written with the charset in force
Item ==
  /\ saved # <<>> /\ pc < NItems
  /\ ~(call.fault # "none" /\ call.at = pc + 1)
  /\ ~(call.fault # "none" /\ call.at = 0)
  /\ pc' = pc + 1
  /\ UNCHANGED <<charset, saved, call, hist>>

\* the call raises while processing event call.at (0: in the header)
Fail ==
  /\ saved # <<>> /\ call.fault # "none"
  /\ (call.at = 0 /\ pc = 0) \/ call.at = pc + 1
  /\ charset' = IF Scoped THEN saved[1] ELSE charset          \* finally: restore
  /\ saved' = <<>>
  /\ hist' = Append(hist, [call EXCEPT !.fault = call.fault] @@ [raised |-> TRUE, after |-> charset'])
  /\ pc' = 0 /\ call' = NoCall

End ==
  /\ saved # <<>> /\ pc = NItems /\ call.fault = "none"
  /\ charset' = saved[1] /\ saved' = <<>>
  /\ hist' = Append(hist, call @@ [raised |-> FALSE, after |-> charset'])
  /\ pc' = 0 /\ call' = NoCall

Next == Begin \/ Item \/ Fail \/ End
Spec == Init /\ [][Next]_vars

\* outside a call the default is in force again, whatever happened inside
ScopedCharset == saved = <<>> => charset = "latin1"
\* inside the call the file's charset is in force
InForceDuringCall == (saved # <<>> /\ call.fault # "unknown_charset") => charset = call.cs

Emit == (saved = <<>> /\ Len(hist) = MaxCalls) =>
          PrintT(ToString(<<"EMIT", [i \in DOMAIN hist |->
               <<hist[i].kind, hist[i].cs, hist[i].fault, hist[i].at>>]>>))
=============================================================================
