---------------------------- MODULE CharsetScope ----------------------------
(***************************************************************************)
(* C17: the charset of a MidiFile is in force only for the duration of its *)
(* load or save call.  `charset' is the process-wide setting used by every *)
(* meta text encode / decode; a call sets it on entry and must restore, on *)
(* every exit - normal or exceptional - what it found.  Scoped = FALSE     *)
(* reproduces the original context manager without try/finally.            *)
(*                                                                         *)
(* A call processes NItems events; a fault of some kind may strike at      *)
(* event k (0 = before the first event: header / unknown charset).         *)
(* Calls nest (a track that is a generator, or a file object, may itself   *)
(* load or save another file while the outer call is between two events):  *)
(* `stack' holds one frame per call in progress, innermost last.  An       *)
(* exception of a nested call is caught by the code that made the nested   *)
(* call and does not reach the outer call.                                 *)
(***************************************************************************)
EXTENDS Integers, Sequences, TLC

CONSTANTS Scoped, NItems, MaxCalls, MaxDepth, Charsets

AllCharsets == {"latin1", "utf-8", "cp1252", "shift_jis", "utf-16", "utf-16-le", "iso2022_jp", "gb2312", "euc_kr"}
FewCharsets == {"latin1", "utf-8", "shift_jis"}
\* "interrupt": the call is left by an exception that is not an Exception (KeyboardInterrupt,
\* SystemExit, a cancellation) raised by the file object or by a lazily produced track
LoadFaults == {"truncate", "bad_data_byte", "undecodable_text", "unknown_charset", "interrupt"}
SaveFaults == {"non_integer_time", "unencodable_text", "unknown_charset", "realtime_message", "interrupt"}

VARIABLES charset, stack, hist, ncalls
vars == <<charset, stack, hist, ncalls>>

Frame(kind, cs, fault, at, old) ==
  [kind |-> kind, cs |-> cs, fault |-> fault, at |-> at, pc |-> 0, saved |-> old]
Top == stack[Len(stack)]
Depth == Len(stack)
Pop == SubSeq(stack, 1, Len(stack) - 1)

Init == charset = "latin1" /\ stack = <<>> /\ hist = <<>> /\ ncalls = 0

\* the innermost call is about to fail (its next step is Fail)
Failing(f) == f.fault # "none" /\ ((f.at = 0 /\ f.pc = 0) \/ f.at = f.pc + 1)

\* entry of MidiFile._load / _save: with meta_charset(self.charset).
\* A nested call begins while the outer call is between two events (and
\* has processed at least its header).
Begin ==
  /\ Depth < MaxDepth /\ ncalls < MaxCalls
  /\ (Depth > 0 => ~Failing(Top))
  /\ \E kind \in {"load", "save"}, cs \in Charsets :
       \E fault \in (IF kind = "load" THEN LoadFaults ELSE SaveFaults) \cup {"none"} :
         \E at \in 0..NItems :
           /\ (fault = "none" => at = 0)
           /\ (fault = "unknown_charset" => at = 1)      \* strikes at the first text event
           /\ stack' = Append(stack, Frame(kind, cs, fault, at, charset))
           /\ charset' = IF fault = "unknown_charset" THEN "no-such-charset" ELSE cs
           /\ hist' = Append(hist, <<"begin", kind, cs, fault, at>>)
  /\ ncalls' = ncalls + 1

\* one event is read / written with the charset in force
Item ==
  /\ Depth > 0 /\ Top.pc < NItems /\ ~Failing(Top)
  /\ stack' = [stack EXCEPT ![Depth].pc = @ + 1]
  /\ hist' = Append(hist, <<"item", "", "", "", 0>>)
  /\ UNCHANGED <<charset, ncalls>>

\* the call raises while processing event Top.at (0: in the header)
Fail ==
  /\ Depth > 0 /\ Failing(Top)
  /\ charset' = IF Scoped THEN Top.saved ELSE charset          \* finally: restore
  /\ stack' = Pop
  /\ hist' = Append(hist, <<"raise", "", "", "", 0>>)
  /\ UNCHANGED ncalls

End ==
  /\ Depth > 0 /\ Top.pc = NItems /\ Top.fault = "none"
  /\ charset' = Top.saved /\ stack' = Pop
  /\ hist' = Append(hist, <<"end", "", "", "", 0>>)
  /\ UNCHANGED ncalls

Next == Begin \/ Item \/ Fail \/ End
Spec == Init /\ [][Next]_vars

\* outside every call the default is in force again, whatever happened inside
ScopedCharset == stack = <<>> => charset = "latin1"
\* inside a call - also after a nested call has come and gone - that file's charset is in force
InForceDuringCall == (stack # <<>> /\ Top.fault # "unknown_charset") => charset = Top.cs
\* every frame remembers what the call below it (or the default) had set
SavedChain == \A i \in DOMAIN stack :
                 stack[i].saved = IF i = 1 THEN "latin1"
                                  ELSE IF stack[i-1].fault = "unknown_charset" THEN "no-such-charset"
                                  ELSE stack[i-1].cs

Emit == (stack = <<>> /\ ncalls = MaxCalls) => PrintT(ToString(<<"EMIT", hist>>))
=============================================================================
