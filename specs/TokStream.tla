----------------------------- MODULE TokStream ------------------------------
(***************************************************************************)
(* C04 / C06: the tokenizer driven by every byte string up to MaxLen over  *)
(* Alphabet.  Every state (= every string) is emitted with the expected    *)
(* output and the control state reached.                                   *)
(***************************************************************************)
EXTENDS Tokenizer

CONSTANTS Alphabet, MaxLen

VARIABLES status, buf, out, inp
vars == <<status, buf, out, inp>>

Init == status = 0 /\ buf = <<>> /\ out = <<>> /\ inp = <<>>

FeedByte(b) ==
  /\ Len(inp) < MaxLen
  /\ LET r == Step(status, buf, b) IN
       /\ status' = r.status
       /\ buf' = r.buf
       /\ out' = out \o r.emit
  /\ inp' = Append(inp, b)

Next == \E b \in Alphabet : FeedByte(b)
Spec == Init /\ [][Next]_vars

\* ---- properties (C04) ----
TypeOK ==
  /\ status \in {0} \cup {s \in Defined : SpecLen(s) # 1}
  /\ (status = 0 => buf = <<>>)
  /\ (status # 0 => Len(buf) >= 1 /\ buf[1] = status
                    /\ (status # 240 => Len(buf) < SpecLen(status)))
\* there is no error state: every byte value is accepted in every state
Total == \A b \in 0..255 : Step(status, buf, b).status \in 0..255
AllYieldedValid == \A i \in DOMAIN out : Decode(out[i]) # Invalid
RealtimeExact ==
  LET rt == SelectSeq(inp, LAMBDA b : b \in RealtimeBytes) IN
  SelectSeq(out, IsRT) = [i \in DOMAIN rt |-> << rt[i] >>]
NoInvention ==
  IsSubsequence(Flatten(SelectSeq(out, LAMBDA t : ~IsRT(t))),
                SelectSeq(inp, LAMBDA b : b < 248))
\* the state machine agrees with the fold used by the other modules
FoldAgrees == LET r == FeedAll(0, <<>>, inp) IN
              r.emit = out /\ r.status = status /\ r.buf = buf

\* ---- C06: resynchronisation, evaluated in every reachable control state ----
Resync == \A M \in ProbeMsgs :
            FeedAll(status, buf, Encode(M)).emit = << Encode(M) >>

\* ... and stray data / EOX bytes after M add nothing (M not real-time: a
\* real-time M inside an open sysex leaves the sysex open)
ResyncThenStray == \A M \in ProbeMsgs : ~IsRT(Encode(M)) =>
            FeedAll(status, buf, Encode(M) \o <<0, 127, 247>>).emit = << Encode(M) >>

\* ---- emission for the replay drivers ----
\* all-integer, self-delimiting row: inp | status, buf | out tokens
Row == <<Len(inp)>> \o inp \o <<status, Len(buf)>> \o buf \o <<Len(out)>>
       \o Flatten([i \in DOMAIN out |-> <<Len(out[i])>> \o out[i]])
EmitState == PrintT(ToString(<<"EMIT", Row>>))
=============================================================================
