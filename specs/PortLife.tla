------------------------------ MODULE PortLife ------------------------------
(***************************************************************************)
(* C11: sequential lifecycle of one port.  A behaviour fixes a device      *)
(* script - what each successive _receive() call of the device will find - *)
(* and then performs up to MaxCalls public calls.  Every call is recorded  *)
(* in `hist' with the result, the number of sleep() calls and the number   *)
(* of device polls the specification expects, for replay on the real port  *)
(* classes.                                                                *)
(*                                                                         *)
(* Script items:  "nothing"       no data                                  *)
(*                "arrive"        one message arrives                      *)
(*                "close"         the device closes itself (e.g. EOF)      *)
(*                "arrive_close"  a message arrives, then the device closes*)
(*                "arrive3", "arrive3_close"  the same with three messages *)
(*                                taken in by one _receive() call          *)
(* Kinds: "io" (BaseIOPort device double), "in" (BaseInput double),        *)
(*        "out" (BaseOutput double), "outs" (an output whose class         *)
(*        overrides the public send() instead of _send(), as mido's own    *)
(*        rtmidi backend does), "echo" (EchoPort),                         *)
(*        "ioport" (IOPort wrapper around an input and an output double;   *)
(*        its script has no self-closing items).                           *)
(***************************************************************************)
EXTENDS Integers, Sequences, FiniteSets, TLC

CONSTANTS Kind, Autoreset, MaxScript, MaxCalls

VARIABLES closed, q, script, log, nextid, hist, script0
vars == <<closed, q, script, log, nextid, hist, script0>>

R(k, v) == [k |-> k, v |-> v]

ScriptItems == IF Kind \in {"io", "in"} THEN {"nothing", "arrive", "close", "arrive_close", "arrive3", "arrive3_close"}
               ELSE IF Kind = "ioport" THEN {"nothing", "arrive", "arrive3"}
               ELSE {}
HasInput  == Kind \notin {"out", "outs"}
HasOutput == Kind # "in"

\* what the device(s) see when the port is closed (first time only)
CloseLog == CASE Kind = "ioport" -> <<"in_close">> \o (IF Autoreset THEN <<"out_reset">> ELSE <<>>)
                                    \o <<"out_close">>
              [] Kind = "in"     -> <<"close">>
              [] Kind = "echo"   -> <<"close">>
              [] OTHER           -> (IF Autoreset THEN <<"reset">> ELSE <<>>) \o <<"close">>

LogTok(x) == IF Kind = "ioport" THEN (IF x = "reset" THEN "out_reset" ELSE "out_panic") ELSE x

St(c, qq, sc, lg, nx) == [closed |-> c, q |-> qq, script |-> sc, log |-> lg, nextid |-> nx]
Cur == St(closed, q, script, log, nextid)

DoClose(s) == IF s.closed THEN s
              ELSE [s EXCEPT !.closed = TRUE, !.log = @ \o CloseLog]

\* one _receive() call of the device
Dev(s) ==
  IF s.script = <<>> THEN s
  ELSE LET it == Head(s.script)
           s1 == [s EXCEPT !.script = Tail(@)]
           arr == [s1 EXCEPT !.q = Append(@, s1.nextid), !.nextid = @ + 1]
           arr2 == [arr EXCEPT !.q = Append(Append(@, arr.nextid), arr.nextid + 1), !.nextid = @ + 2]
       IN CASE it = "nothing" -> s1
            [] it = "arrive" -> arr
            [] it = "close" -> DoClose(s1)
            [] it = "arrive_close" -> DoClose(arr)
            [] it = "arrive3" -> arr2
            [] it = "arrive3_close" -> DoClose(arr2)

Pop(s) == [s EXCEPT !.q = Tail(@)]
Out(s, r, sl, pl) == [s |-> s, r |-> r, sleeps |-> sl, polls |-> pl]

\* the `while True:' loop of BaseInput.receive (sl sleeps, pl device polls so far)
RECURSIVE RecvLoop(_, _, _, _)
RecvLoop(s, block, sl, pl) ==
  LET s1 == Dev(s) IN
  IF s1.q # <<>> THEN Out(Pop(s1), R("msg", <<Head(s1.q)>>), sl, pl + 1)
  ELSE IF ~block THEN Out(s1, R("none", <<>>), sl, pl + 1)
  ELSE IF s1.closed THEN Out(s1, R("raise", <<>>), sl, pl + 1)     \* closed inside receive
  ELSE RecvLoop(s1, block, sl + 1, pl + 1)                           \* one sleep per empty poll

Recv(s, block) ==
  IF s.q # <<>> THEN Out(Pop(s), R("msg", <<Head(s.q)>>), 0, 0)       \* drain first
  ELSE IF s.closed THEN Out(s, IF block THEN R("raise", <<>>) ELSE R("none", <<>>), 0, 0)
  ELSE RecvLoop(s, block, 0, 0)

\* a blocking receive returns only if a message is queued, the port is
\* closed, or the script still delivers a message or a close
Delivers(sc) == \E i \in DOMAIN sc : sc[i] # "nothing"
CanReturn(s) == s.q # <<>> \/ s.closed \/ Delivers(s.script)

\* `for msg in port': blocking receives until the port is closed and drained
RECURSIVE IterLoop(_, _, _, _)
IterLoop(s, got, sl, pl) ==
  LET o == Recv(s, TRUE) IN
  IF o.r.k = "msg" THEN IterLoop(o.s, Append(got, o.r.v[1]), sl + o.sleeps, pl + o.polls)
  ELSE Out(o.s, R("list", got), sl + o.sleeps, pl + o.polls)      \* ends without exception
\* iteration ends only if the port is closed or the script closes it
Closes(sc) == \E i \in DOMAIN sc : sc[i] \in {"close", "arrive_close", "arrive3_close"}

\* `for msg in port: ... break' - the consumer leaves the loop after n messages; whatever the
\* port has taken in beyond those stays receivable
RECURSIVE TakeLoop(_, _, _, _, _)
TakeLoop(s, got, n, sl, pl) ==
  IF Len(got) = n THEN Out(s, R("list", got), sl, pl)
  ELSE LET o == Recv(s, TRUE) IN
       IF o.r.k = "msg" THEN TakeLoop(o.s, Append(got, o.r.v[1]), n, sl + o.sleeps, pl + o.polls)
       ELSE Out(o.s, R("list", got), sl + o.sleeps, pl + o.polls)
RECURSIVE Arrivals(_)
Arrivals(sc) == IF sc = <<>> THEN 0
                ELSE (CASE Head(sc) \in {"arrive", "arrive_close"} -> 1
                        [] Head(sc) \in {"arrive3", "arrive3_close"} -> 3
                        [] OTHER -> 0) + Arrivals(Tail(sc))

\* iter_pending (and EchoPort's __iter__): polls until None
RECURSIVE PendLoop(_, _, _)
PendLoop(s, got, pl) ==
  LET o == Recv(s, FALSE) IN
  IF o.r.k = "msg" THEN PendLoop(o.s, Append(got, o.r.v[1]), pl + o.polls)
  ELSE Out(o.s, R("list", got), 0, pl + o.polls)

H(op, o) == [op |-> op, r |-> o.r, sleeps |-> o.sleeps, polls |-> o.polls,
             closed_before |-> closed, qlen_before |-> Len(q)]

Apply(op, o) ==
  /\ closed' = o.s.closed /\ q' = o.s.q /\ script' = o.s.script
  /\ log' = o.s.log /\ nextid' = o.s.nextid
  /\ hist' = Append(hist, H(op, o))
  /\ UNCHANGED script0

Scripts == UNION {[1..k -> ScriptItems] : k \in 0..MaxScript}

Init == /\ closed = FALSE /\ q = <<>> /\ log = <<>> /\ nextid = 1 /\ hist = <<>>
        /\ script \in (IF ScriptItems = {} THEN {<<>>} ELSE Scripts)
        /\ script0 = script

\* send(m): ValueError once closed; otherwise the device sees a copy
Send ==
  /\ HasOutput
  /\ LET m == 100 + Len(hist) IN
     IF closed THEN Apply("send", Out(Cur, R("ValueError", <<>>), 0, 0))
     ELSE IF Kind = "echo"
          THEN Apply("send", Out([Cur EXCEPT !.q = Append(@, m)], R("ok", <<m>>), 0, 0))
          ELSE Apply("send", Out([Cur EXCEPT !.log = Append(@, "send")], R("ok", <<m>>), 0, 0))

\* the device write fails (the cable was pulled for a moment): the error reaches the
\* caller and the port stays exactly as it was - open, usable, nothing logged
SendFail ==
  /\ Kind \in {"io", "out", "ioport"} /\ ~closed
  /\ Apply("send_fail", Out(Cur, R("OSError", <<>>), 0, 0))

Receive == HasInput /\ CanReturn(Cur) /\ Apply("receive", Recv(Cur, TRUE))
Poll    == HasInput /\ Apply("poll", Recv(Cur, FALSE))
Iterate == /\ HasInput
           /\ IF Kind = "echo" THEN Apply("iterate", PendLoop(Cur, <<>>, 0))
              ELSE (closed \/ Closes(script)) /\ Apply("iterate", IterLoop(Cur, <<>>, 0, 0))
IterPending == HasInput /\ Apply("iter_pending", PendLoop(Cur, <<>>, 0))
IterTake == /\ HasInput /\ Kind # "echo"
            /\ (closed \/ Closes(script) \/ Len(q) + Arrivals(script) >= 2)      \* cannot wait for ever
            /\ Apply("iter_take", TakeLoop(Cur, <<>>, 2, 0, 0))
\* reset(): "all notes off" and "reset all controllers" on all 16 channels;
\* panic(): "all sounds off" on all 16 channels; both do nothing on a closed port
Reset   == /\ HasOutput /\ Kind # "echo"
           /\ Apply("reset", Out(IF closed THEN Cur ELSE [Cur EXCEPT !.log = Append(@, LogTok("reset"))],
                                  R("ok", <<>>), 0, 0))
Panic   == /\ HasOutput /\ Kind # "echo"
           /\ Apply("panic", Out(IF closed THEN Cur ELSE [Cur EXCEPT !.log = Append(@, LogTok("panic"))],
                                  R("ok", <<>>), 0, 0))
Close   == Apply("close", Out(DoClose(Cur), R("ok", <<>>), 0, 0))
Exit    == Apply("exit", Out(DoClose(Cur), R("ok", <<>>), 0, 0))     \* with port: ... __exit__

Next == /\ Len(hist) < MaxCalls
        /\ (Send \/ SendFail \/ Receive \/ Poll \/ Iterate \/ IterPending \/ IterTake \/ Close \/ Exit \/ Reset \/ Panic)
Spec == Init /\ [][Next]_vars

\* ---- properties (C11) ----
Count(s, x) == Cardinality({i \in DOMAIN s : s[i] = x})
\* the device is released exactly once, after the reset messages (once) when autoreset
CloseOnce ==
  LET closes == {i \in DOMAIN log : log[i] \in {"close", "out_close"}} IN
  /\ Cardinality(closes) <= 1
  /\ closed <=> (Cardinality(closes) = 1)
  /\ \A i \in closes : i = Len(log)                         \* nothing reaches the device afterwards
  /\ \A i \in closes : Autoreset /\ Kind \notin {"in", "echo"} =>
        i > 1 /\ log[i - 1] \in {"reset", "out_reset"}        \* the reset messages come right before
NoTrafficAfterClose ==
  \A i \in DOMAIN hist : (hist[i].closed_before /\ hist[i].op \in {"reset", "panic", "close", "exit"})
      => hist[i].r.k = "ok"
SendAfterCloseRaises ==
  \A i \in DOMAIN hist : hist[i].op = "send" =>
     (hist[i].closed_before <=> hist[i].r.k = "ValueError")
\* a closed port first hands out what it had taken in
DrainBeforeStop ==
  \A i \in DOMAIN hist :
     (hist[i].op \in {"receive", "poll"} /\ hist[i].qlen_before > 0) => hist[i].r.k = "msg"
IterEndsCleanly ==
  \A i \in DOMAIN hist : hist[i].op \in {"iterate", "iter_pending", "iter_take"} => hist[i].r.k = "list"
NonBlockingNeverWaits ==
  \A i \in DOMAIN hist : hist[i].op \in {"poll", "iter_pending", "send", "close", "exit", "reset", "panic"}
     => hist[i].sleeps = 0
\* a failed device write changes nothing: the port behaves afterwards as if the call had not been made
FailedWriteIsNoOp ==
  \A i \in DOMAIN hist : hist[i].op = "send_fail" =>
     /\ ~hist[i].closed_before
     /\ (i < Len(hist) => hist[i+1].closed_before = FALSE /\ hist[i+1].qlen_before = hist[i].qlen_before)
\* a blocking receive never sleeps while a message is deliverable
ReturnsWhenDeliverable ==
  \A i \in DOMAIN hist :
     (hist[i].op = "receive" /\ hist[i].qlen_before > 0) => hist[i].sleeps = 0 /\ hist[i].polls = 0
QueueOnlyGrowsByArrival == Len(q) <= nextid - 1 + Len(hist)

Emit == Len(hist) = MaxCalls =>
          PrintT(ToString(<<"EMIT", Kind, Autoreset, script0, hist, closed, q, log>>))
=============================================================================
