--------------------------- MODULE TokenizerTrace ---------------------------
(***************************************************************************)
(* Validates traces recorded from the real Parser / ParserQueue against    *)
(* the Tokenizer specification.  A batch file holds many traces; each is a *)
(* sequence of events, one per public call:                                *)
(*   [a |-> "feed",    b |-> bytes fed, p |-> pending() afterwards]        *)
(*   [a |-> "get",     k |-> 0/1 (None / message), r |-> its bytes]        *)
(*   [a |-> "pending", r |-> n]                                            *)
(*   [a |-> "iter",    r |-> list of byte lists drained by iteration]      *)
(* Acceptance: a trace is accepted iff all its lines can be consumed.      *)
(***************************************************************************)
EXTENDS Tokenizer, Json, IOUtils

Traces == JsonDeserialize(IOEnv.TRACE_FILE)

VARIABLES tid, l, status, buf, queue
vars == <<tid, l, status, buf, queue>>

ASSUME TLCSet(1, {})
ASSUME TLCSet(2, [i \in 1..Len(Traces) |-> 0])

Init == tid \in 1..Len(Traces) /\ l = 1 /\ status = 0 /\ buf = <<>> /\ queue = <<>>

Ev == Traces[tid][l]

Feed == /\ Ev.a = "feed"
        /\ LET r == FeedAll(status, buf, Ev.b) IN
             /\ status' = r.status /\ buf' = r.buf
             /\ queue' = queue \o r.emit
             /\ Ev.p = Len(queue')
             /\ \A i \in DOMAIN r.emit : Decode(r.emit[i]) # Invalid
Get ==  /\ Ev.a = "get"
        /\ IF queue = <<>> THEN Ev.k = 0 /\ UNCHANGED queue
           ELSE Ev.k = 1 /\ Ev.r = Head(queue) /\ queue' = Tail(queue)
        /\ UNCHANGED <<status, buf>>
Pending == Ev.a = "pending" /\ Ev.r = Len(queue) /\ UNCHANGED <<status, buf, queue>>
Iter == Ev.a = "iter" /\ Ev.r = queue /\ queue' = <<>> /\ UNCHANGED <<status, buf>>

Next == /\ l <= Len(Traces[tid])
        /\ (Feed \/ Get \/ Pending \/ Iter)
        /\ l' = l + 1 /\ UNCHANGED tid
Spec == Init /\ [][Next]_vars

Note == /\ TLCSet(2, [TLCGet(2) EXCEPT ![tid] = IF @ < l THEN l ELSE @])
        /\ (l = Len(Traces[tid]) + 1) => TLCSet(1, TLCGet(1) \cup {tid})
Post == LET rej == (1..Len(Traces)) \ TLCGet(1) IN
        \A t \in rej : PrintT(ToString(<<"REJECTED", t, TLCGet(2)[t]>>))
=============================================================================
