------------------------------ MODULE SmfWire -------------------------------
(***************************************************************************)
(* The Standard MIDI File format (SMF 1.0) at byte level, written from the *)
(* format description, not from mido.                                      *)
(*                                                                         *)
(* Abstract event: [dt, k, st, d]                                          *)
(*   k = "chan"   st = status byte 0x80..0xEF, d = its 1 or 2 data bytes   *)
(*   k = "common" st in {F1, F2, F3, F6},      d = its 0..2 data bytes     *)
(*   k = "sysex"  st = F0,                     d = payload (no F0 / F7)    *)
(*   k = "meta"   st = meta type byte,         d = payload                 *)
(*   k = "rt"     st = real-time status (not storable)                     *)
(* Abstract file: [type, tpb, tracks].                                     *)
(***************************************************************************)
EXTENDS Vlq, TLC

E(dt, k, st, d) == [dt |-> dt, k |-> k, st |-> st, d |-> d]
Eot(dt) == E(dt, "meta", 47, <<>>)
IsEotE(e) == e.k = "meta" /\ e.st = 47

DataLen(s) == IF s < 192 THEN 2 ELSE IF s < 224 THEN 1 ELSE IF s < 240 THEN 2
              ELSE CASE s = 241 -> 1 [] s = 242 -> 2 [] s = 243 -> 1
                     [] s = 246 -> 0 [] OTHER -> -1     \* -1: not storable

\* what save() may normalise in a track
FixEotE(evs) ==
  LET r == FoldLeft(LAMBDA a, e :
              IF IsEotE(e) THEN [a EXCEPT !.accum = a.accum + e.dt]
              ELSE [out |-> Append(a.out, [e EXCEPT !.dt = e.dt + a.accum]), accum |-> 0],
              [out |-> <<>>, accum |-> 0], evs)
  IN Append(r.out, Eot(r.accum))
NormalizeFile(f) == [f EXCEPT !.tracks = [t \in DOMAIN f.tracks |-> FixEotE(f.tracks[t])]]

\* Storability is judged on what would be written, i.e. on the normal form:
\* a negative delta that end_of_track folding cancels is not written.
StorableEvent(e) == e.k # "rt" /\ e.dt >= 0
Storable(f) == /\ f.type \in 0..2
               /\ (f.type = 0 => Len(f.tracks) = 1)
               /\ \A t \in DOMAIN f.tracks : \A i \in DOMAIN FixEotE(f.tracks[t]) :
                     StorableEvent(FixEotE(f.tracks[t])[i])

U16(n) == <<n \div 256, n % 256>>
U32(n) == <<n \div 16777216, (n \div 65536) % 256, (n \div 256) % 256, n % 256>>
MThd == <<77, 84, 104, 100>>
MTrk == <<77, 84, 114, 107>>

\* bytes of one event after its delta time; rs = running status in effect
EventBytes(e, useRs) ==
  CASE e.k = "chan"   -> IF useRs THEN e.d ELSE <<e.st>> \o e.d
    [] e.k = "common" -> <<e.st>> \o e.d
    [] e.k = "sysex"  -> <<240>> \o Vlq(Len(e.d) + 1) \o e.d \o <<247>>
    [] e.k = "meta"   -> <<255, e.st>> \o Vlq(Len(e.d)) \o e.d
NextRs(e) == IF e.k = "chan" THEN e.st ELSE 0        \* cancelled by everything else

\* the canonical writer: minimal VLQs, running status whenever legal
TrackBody(evs) ==
  FoldLeft(LAMBDA a, e :
             [bytes |-> a.bytes \o Vlq(e.dt) \o EventBytes(e, e.k = "chan" /\ e.st = a.rs),
              rs |-> NextRs(e)],
           [bytes |-> <<>>, rs |-> 0], evs).bytes
Chunk(name, body) == name \o U32(Len(body)) \o body
CanonWrite(f) ==
  LET g == NormalizeFile(f) IN
  Chunk(MThd, U16(g.type) \o U16(Len(g.tracks)) \o U16(g.tpb))
  \o FoldLeft(LAMBDA a, t : a \o Chunk(MTrk, TrackBody(g.tracks[t])), <<>>,
              [t \in DOMAIN g.tracks |-> t])

(***************************************************************************)
(* Reference decoder.  Lenient where the standard allows alternatives      *)
(* (padded VLQs, longer header) and reports conformance flags:             *)
(*   minimal   every VLQ is minimal                                        *)
(*   rslegal   running status only directly after channel events           *)
(*   eot       every track ends in FF 2F 00 and has no other end_of_track  *)
(*   sysexform every F0 event ends in F7                                   *)
(*   hdr6      the header chunk has length 6                               *)
(* err # "" means the bytes are not a Standard MIDI File.                  *)
(***************************************************************************)
B32(bs, p) == bs[p] * 16777216 + bs[p+1] * 65536 + bs[p+2] * 256 + bs[p+3]
B16(bs, p) == bs[p] * 256 + bs[p+1]

ReadVlq(bs, p, lim) ==       \* VLQ starting at p, not reading beyond lim
  LET n == VlqLen(SubSeq(bs, p, IF lim < p + 4 THEN lim ELSE p + 4)) IN
  IF n = 0 THEN [ok |-> FALSE, v |-> 0, n |-> 0, min |-> TRUE]
  ELSE [ok |-> TRUE, v |-> VlqValue(SubSeq(bs, p, p + n - 1)), n |-> n,
        min |-> IsMinimalVlq(SubSeq(bs, p, p + n - 1))]

Fail(a, why) == [a EXCEPT !.err = why]

\* one event at a.p; a = [p, rs, evs, err, minimal, rslegal, sysexform]
ReadEvent(bs, a, lim) ==
  LET dv == ReadVlq(bs, a.p, lim) IN
  IF ~dv.ok THEN Fail(a, "bad delta") ELSE
  LET p1 == a.p + dv.n
      a1 == [a EXCEPT !.minimal = a.minimal /\ dv.min] IN
  IF p1 > lim THEN Fail(a1, "event missing") ELSE
  LET b == bs[p1] IN
  IF b < 128 THEN                                   \* running status
     IF a1.rs = 0 THEN Fail([a1 EXCEPT !.rslegal = FALSE], "running status without status")
     ELSE LET n == DataLen(a1.rs) IN
          IF p1 + n - 1 > lim THEN Fail(a1, "truncated event")
          ELSE [a1 EXCEPT !.p = p1 + n,
                          !.evs = Append(@, E(dv.v, "chan", a1.rs, SubSeq(bs, p1, p1 + n - 1)))]
  ELSE IF b = 255 THEN
     IF p1 + 1 > lim THEN Fail(a1, "truncated meta") ELSE
     LET lv == ReadVlq(bs, p1 + 2, lim) IN
     IF ~lv.ok THEN Fail(a1, "bad meta length") ELSE
     LET q == p1 + 2 + lv.n IN
     IF q + lv.v - 1 > lim THEN Fail(a1, "truncated meta") ELSE
     [a1 EXCEPT !.p = q + lv.v, !.rs = 0, !.minimal = a1.minimal /\ lv.min,
                !.evs = Append(@, E(dv.v, "meta", bs[p1 + 1], SubSeq(bs, q, q + lv.v - 1)))]
  ELSE IF b = 240 THEN
     LET lv == ReadVlq(bs, p1 + 1, lim) IN
     IF ~lv.ok THEN Fail(a1, "bad sysex length") ELSE
     LET q == p1 + 1 + lv.n IN
     IF q + lv.v - 1 > lim THEN Fail(a1, "truncated sysex") ELSE
     LET body == SubSeq(bs, q, q + lv.v - 1)
         closed == lv.v >= 1 /\ body[lv.v] = 247 IN
     [a1 EXCEPT !.p = q + lv.v, !.rs = 0, !.minimal = a1.minimal /\ lv.min,
                !.sysexform = a1.sysexform /\ closed,
                !.evs = Append(@, E(dv.v, "sysex", 240,
                                    IF closed THEN SubSeq(body, 1, lv.v - 1) ELSE body))]
  ELSE IF DataLen(b) < 0 THEN Fail(a1, "status not allowed in a file")
  ELSE LET n == DataLen(b) IN
       IF p1 + n > lim THEN Fail(a1, "truncated event")
       ELSE IF \E i \in 1..n : bs[p1 + i] > 127 THEN Fail(a1, "data byte > 127")
       ELSE [a1 EXCEPT !.p = p1 + 1 + n, !.rs = IF b < 240 THEN b ELSE 0,
                       !.evs = Append(@, E(dv.v, IF b < 240 THEN "chan" ELSE "common", b,
                                           SubSeq(bs, p1 + 1, p1 + n)))]

RECURSIVE ReadEvents(_, _, _)
ReadEvents(bs, a, lim) ==
  IF a.err # "" \/ a.p > lim THEN a ELSE ReadEvents(bs, ReadEvent(bs, a, lim), lim)

A0(p) == [p |-> p, rs |-> 0, evs |-> <<>>, err |-> "", minimal |-> TRUE, rslegal |-> TRUE,
          sysexform |-> TRUE]

\* one MTrk chunk at p
ReadTrack(bs, p) ==
  IF p + 7 > Len(bs) \/ SubSeq(bs, p, p + 3) # MTrk THEN Fail(A0(p), "no MTrk")
  ELSE LET n == B32(bs, p + 4) IN
       IF p + 7 + n > Len(bs) THEN Fail(A0(p), "chunk longer than file")
       ELSE LET a == ReadEvents(bs, A0(p + 8), p + 7 + n) IN
            IF a.err = "" /\ a.p # p + 8 + n THEN Fail(a, "event crosses chunk end") ELSE a

RECURSIVE ReadTracks(_, _, _, _)
ReadTracks(bs, p, k, acc) ==
  IF k = 0 \/ acc.err # "" THEN [acc EXCEPT !.p = p]
  ELSE LET a == ReadTrack(bs, p) IN
       ReadTracks(bs, a.p, k - 1,
                  [acc EXCEPT !.tracks = Append(@, a.evs), !.err = a.err,
                              !.minimal = @ /\ a.minimal, !.rslegal = @ /\ a.rslegal,
                              !.sysexform = @ /\ a.sysexform])

TrackEndsOk(evs) == /\ evs # <<>> /\ IsEotE(evs[Len(evs)])
                    /\ \A i \in 1..(Len(evs) - 1) : ~IsEotE(evs[i])

RefRead(bs) ==
  LET bad(why) == [err |-> why, type |-> 0, tpb |-> 0, tracks |-> <<>>, minimal |-> TRUE,
                   rslegal |-> TRUE, sysexform |-> TRUE, eot |-> TRUE, hdr6 |-> TRUE,
                   p |-> 0, exact |-> FALSE] IN
  IF Len(bs) < 14 \/ SubSeq(bs, 1, 4) # MThd THEN bad("no MThd")
  ELSE LET hl == B32(bs, 5) IN
       IF hl < 6 \/ 8 + hl > Len(bs) THEN bad("bad header length")
       ELSE LET r == ReadTracks(bs, 9 + hl, B16(bs, 11),
                        [err |-> "", tracks |-> <<>>, minimal |-> TRUE, rslegal |-> TRUE,
                         sysexform |-> TRUE, p |-> 0]) IN
            [err |-> r.err, type |-> B16(bs, 9), tpb |-> B16(bs, 13), tracks |-> r.tracks,
             minimal |-> r.minimal, rslegal |-> r.rslegal, sysexform |-> r.sysexform,
             eot |-> \A t \in DOMAIN r.tracks : TrackEndsOk(r.tracks[t]),
             hdr6 |-> hl = 6, p |-> r.p, exact |-> r.p = Len(bs) + 1]

Conformant(r) == r.err = "" /\ r.minimal /\ r.rslegal /\ r.sysexform /\ r.eot /\ r.hdr6 /\ r.exact
AsFile(r) == [type |-> r.type, tpb |-> r.tpb, tracks |-> r.tracks]

\* ---- a table of event kinds used by the enumerating modules ----
Kinds == <<
  [k |-> "chan", st |-> 144, d |-> <<60, 64>>],      \* 1 note_on ch0
  [k |-> "chan", st |-> 144, d |-> <<61, 0>>],       \* 2 note_on ch0 (running status after 1)
  [k |-> "chan", st |-> 145, d |-> <<60, 64>>],      \* 3 note_on ch1
  [k |-> "chan", st |-> 192, d |-> <<5>>],           \* 4 program_change
  [k |-> "chan", st |-> 224, d |-> <<0, 64>>],       \* 5 pitchwheel 0
  [k |-> "common", st |-> 241, d |-> <<53>>],        \* 6 quarter_frame
  [k |-> "common", st |-> 242, d |-> <<1, 2>>],      \* 7 songpos
  [k |-> "common", st |-> 246, d |-> <<>>],          \* 8 tune_request
  [k |-> "sysex", st |-> 240, d |-> <<>>],           \* 9 sysex, empty
  [k |-> "sysex", st |-> 240, d |-> <<1, 2>>],       \* 10 sysex
  [k |-> "meta", st |-> 1, d |-> <<97>>],            \* 11 text "a"
  [k |-> "meta", st |-> 81, d |-> <<7, 161, 32>>],   \* 12 set_tempo 500000
  [k |-> "meta", st |-> 96, d |-> <<1, 2>>],         \* 13 unknown meta 0x60
  [k |-> "meta", st |-> 47, d |-> <<>>],             \* 14 end_of_track
  [k |-> "common", st |-> 243, d |-> <<3>>],         \* 15 song_select
  [k |-> "meta", st |-> 10, d |-> <<>>],             \* 16 unknown meta 0x0A, empty
  [k |-> "rt", st |-> 248, d |-> <<>>],              \* 17 clock   (not storable)
  [k |-> "rt", st |-> 255, d |-> <<>>] >>            \* 18 reset   (not storable)
KE(kd, dt) == E(dt, Kinds[kd].k, Kinds[kd].st, Kinds[kd].d)
=============================================================================
