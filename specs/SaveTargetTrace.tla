-------------------------- MODULE SaveTargetTrace --------------------------
(***************************************************************************)
(* Validates the calls a real MidiFile.save(file=f) made on its target,    *)
(* recorded by a file object that logs every write / seek / tell /         *)
(* truncate with the position before and after:                            *)
(*   [a |-> "write", n |-> bytes written, p |-> position afterwards]       *)
(*   [a |-> "seek",  p |-> position afterwards]                            *)
(*   [a |-> "tell",  p |-> position]                                       *)
(*   [a |-> "end",   p |-> position when save() returned]                  *)
(* against SaveTarget: writes go to pos, seeks stay inside [start, hw],    *)
(* the target is never truncated or closed, and save() returns with the    *)
(* position at the end of what it wrote.  The first event is               *)
(*   [a |-> "begin", p |-> start, old |-> length of the old content]       *)
(***************************************************************************)
EXTENDS Integers, Sequences, TLC, Json, IOUtils

Traces == JsonDeserialize(IOEnv.TRACE_FILE)

VARIABLES tid, l, pos, start, hw
vars == <<tid, l, pos, start, hw>>

ASSUME TLCSet(1, {})
ASSUME TLCSet(2, [i \in 1..Len(Traces) |-> 0])

Init == tid \in 1..Len(Traces) /\ l = 1 /\ pos = 0 /\ start = 0 /\ hw = 0
Ev == Traces[tid][l]

Begin == Ev.a = "begin" /\ l = 1 /\ pos' = Ev.p /\ start' = Ev.p /\ hw' = Ev.p
Write == /\ Ev.a = "write" /\ l > 1 /\ Ev.n >= 0
         /\ pos' = pos + Ev.n /\ Ev.p = pos'
         /\ hw' = (IF pos + Ev.n > hw THEN pos + Ev.n ELSE hw) /\ UNCHANGED start
Seek  == /\ Ev.a = "seek" /\ l > 1
         /\ Ev.p >= start /\ Ev.p <= hw             \* SaveTarget!Seek with Discipline = TRUE
         /\ pos' = Ev.p /\ UNCHANGED <<start, hw>>
Tell  == Ev.a = "tell" /\ l > 1 /\ Ev.p = pos /\ UNCHANGED <<pos, start, hw>>
End   == Ev.a = "end" /\ l > 1 /\ Ev.p = hw /\ pos = hw /\ UNCHANGED <<pos, start, hw>>   \* SaveTarget!Finish
\* "truncate" and "close" have no action: the target is the caller's

Next == /\ l <= Len(Traces[tid])
        /\ (Begin \/ Write \/ Seek \/ Tell \/ End)
        /\ l' = l + 1 /\ UNCHANGED tid
Spec == Init /\ [][Next]_vars

Note == /\ TLCSet(2, [TLCGet(2) EXCEPT ![tid] = IF @ < l THEN l ELSE @])
        /\ (l = Len(Traces[tid]) + 1) => TLCSet(1, TLCGet(1) \cup {tid})
Post == LET rej == (1..Len(Traces)) \ TLCGet(1) IN
        \A t \in rej : PrintT(ToString(<<"REJECTED", t, TLCGet(2)[t]>>))
=============================================================================
