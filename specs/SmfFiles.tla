------------------------------ MODULE SmfFiles ------------------------------
(***************************************************************************)
(* C07 / C08 (write direction): abstract files over the event kinds of     *)
(* SmfWire.Kinds.  A file is described by type, ticks per beat and, per    *)
(* track, a sequence of <<kind, delta>> pairs (delta -1 = negative time,   *)
(* -2 = a non-integer time; both not storable).                            *)
(*   mode "file"   : TLC checks RefRead(CanonWrite(f)) = NormalizeFile(f)  *)
(*                   with all conformance flags, and emits the file, its   *)
(*                   normal form and the canonical bytes                   *)
(*   mode "mutant" : one byte of the canonical bytes of a base file is     *)
(*                   replaced, or the bytes are truncated (fixed-point     *)
(*                   clause of C07; the relation is evaluated by the       *)
(*                   driver on the real loader)                            *)
(***************************************************************************)
EXTENDS SmfWire

CONSTANTS KindSet, DeltaSet, MaxEv, WithMutants

VARIABLES mode, ftype, tpb, tracks, mut
vars == <<mode, ftype, tpb, tracks, mut>>

VlqBounds == {0, 1, 127, 128, 16383, 16384, 2097151, 2097152, 268435455}
Storables == {k \in 1..Len(Kinds) : Kinds[k].k # "rt"}

TrackSet(n) == UNION {[1..m -> KindSet \X DeltaSet] : m \in 0..n}
SmallTracks == { <<>>, << <<1, 0>>, <<2, 1>> >>, << <<11, 5>>, <<14, 3>> >>,
                 << <<14, 2>>, <<1, 1>>, <<14, 0>>, <<14, 4>> >>, << <<10, 128>> >>,
                 \* runs that trigger and break running status
                 << <<1, 0>>, <<2, 0>>, <<11, 0>>, <<2, 0>>, <<1, 1>>, <<10, 0>>, <<1, 0>>,
                    <<8, 0>>, <<2, 0>>, <<3, 0>>, <<1, 0>>, <<13, 0>>, <<1, 0>> >> }

ToFile == [type |-> ftype, tpb |-> tpb,
           tracks |-> [t \in DOMAIN tracks |->
                         [i \in DOMAIN tracks[t] |-> KE(tracks[t][i][1], tracks[t][i][2])]]]

BaseFiles ==   \* for mutants
  { <<1, << << <<1, 0>>, <<2, 1>>, <<14, 0>> >> >> >>,
    <<1, << << <<11, 0>>, <<1, 128>>, <<10, 1>>, <<14, 0>> >>, << <<13, 0>>, <<4, 2>> >> >> >>,
    <<0, << << <<12, 0>>, <<7, 0>>, <<1, 0>>, <<2, 0>>, <<14, 1>> >> >> >>,
    <<2, << << <<9, 0>>, <<14, 0>> >>, << <<16, 3>>, <<3, 0>> >> >> >>,
    <<1, << << <<8, 0>>, <<1, 1>>, <<8, 2>>, <<14, 0>> >> >> >> }
MutVals == {0, 1, 47, 127, 128, 144, 240, 247, 248, 255}

InitFile ==
  /\ mode = "file" /\ mut = <<>>
  /\ \/ /\ ftype \in {0, 1} /\ tpb = 480                       \* one track, all short lists
        /\ \E tr \in TrackSet(MaxEv) : tracks = <<tr>>
     \/ /\ ftype = 1 /\ tpb = 480                              \* delta at every VLQ boundary
        /\ \E k1 \in KindSet, k2 \in KindSet, b1 \in VlqBounds, b2 \in {0, 128} :
              tracks = << << <<k1, b1>>, <<k2, b2>> >> >>
     \/ /\ ftype \in {0, 1, 2} /\ tpb \in {1, 480, 32767}      \* track counts, types, tpb
        /\ \/ tracks = <<>>
           \/ \E a \in SmallTracks : tracks = <<a>>
           \/ \E a \in SmallTracks, b \in SmallTracks : tracks = <<a, b>>
           \/ \E a \in SmallTracks : tracks = <<a, <<>>, a>>
     \/ /\ ftype = 1 /\ tpb = 480                              \* contents that cannot be stored
        /\ \E k \in KindSet, bad \in {<<17, 0>>, <<18, 1>>, <<1, -1>>, <<11, -1>>, <<1, -2>>,
                                      <<14, -1>>, <<10, -2>>} :
              \/ tracks = << <<bad>> >>
              \/ tracks = << << <<k, 1>>, bad >> >>
              \/ tracks = << << bad, <<k, 1>> >> >>
              \/ tracks = << <<>>, << <<k, 0>>, bad >> >>

InitMutant ==
  /\ WithMutants /\ mode = "mutant"
  /\ \E b \in BaseFiles :
       /\ ftype = b[1] /\ tpb = 96 /\ tracks = b[2]
       /\ \E i \in 1..Len(CanonWrite([type |-> b[1], tpb |-> 96,
                                      tracks |-> [t \in DOMAIN b[2] |->
                                         [j \in DOMAIN b[2][t] |-> KE(b[2][t][j][1], b[2][t][j][2])]]])) :
            \/ \E v \in MutVals : mut = <<i, v>>
            \/ mut = <<i, -1>>                 \* truncate before byte i

Init == InitFile \/ InitMutant
Next == FALSE /\ UNCHANGED vars
Spec == Init /\ [][Next]_vars

\* ---- theorem (write then reference-read) ----
WriteReadBack ==
  (mode = "file" /\ Storable(ToFile)) =>
     LET r == RefRead(CanonWrite(ToFile)) IN
     /\ Conformant(r)
     /\ AsFile(r) = NormalizeFile(ToFile)
\* the normal form is a fixed point of write/read
NormalFormStable ==
  (mode = "file" /\ Storable(ToFile)) =>
     CanonWrite(NormalizeFile(ToFile)) = CanonWrite(ToFile)

\* ---- emission (integers only) ----
PairsFlat(tr) == FoldLeft(LAMBDA a, x : a \o <<x[1], x[2]>>, <<>>, tr)
NormPairs(tr) ==
  LET r == FoldLeft(LAMBDA a, x :
              IF x[1] = 14 THEN [a EXCEPT !.accum = a.accum + x[2]]
              ELSE [out |-> Append(a.out, <<x[1], x[2] + a.accum>>), accum |-> 0],
              [out |-> <<>>, accum |-> 0], tr)
  IN Append(r.out, <<14, r.accum>>)
TracksFlat(trs, f(_)) ==
  FoldLeft(LAMBDA a, t : a \o <<Len(f(trs[t]))>> \o PairsFlat(f(trs[t])), <<>>,
           [t \in DOMAIN trs |-> t])
Id(x) == x
Bytes0 == CanonWrite(ToFile)
Mutated == IF mut[2] = -1 THEN SubSeq(Bytes0, 1, mut[1] - 1)
           ELSE [Bytes0 EXCEPT ![mut[1]] = mut[2]]
Emit == PrintT(ToString(
  IF mode = "file"
  THEN <<"EMIT", 1, ftype, tpb, IF Storable(ToFile) THEN 1 ELSE 0, Len(tracks)>>
       \o TracksFlat(tracks, Id)
       \o (IF Storable(ToFile)
           THEN TracksFlat(tracks, NormPairs) \o <<Len(Bytes0)>> \o Bytes0 ELSE <<>>)
  ELSE <<"EMIT", 2, mut[1], mut[2], Len(Mutated)>> \o Mutated))
=============================================================================
