----------------------------- MODULE PortTrace ------------------------------
(***************************************************************************)
(* Linearizability check of call/return histories recorded from real ports *)
(* driven by real threads, against PortCore.  Each trace starts with an    *)
(* init event giving the number of lanes, the pre-queued messages and the  *)
(* number of threads; then call / ret events in global sequence order.     *)
(* The linearization points are not logged: TLC infers them (Lin steps do  *)
(* not consume a line).                                                    *)
(***************************************************************************)
EXTENDS PortCore, Json, IOUtils

Traces == JsonDeserialize(IOEnv.TRACE_FILE)

VARIABLES tid, l
vars == <<tid, l, lanes, pend>>

ASSUME TLCSet(1, {})
ASSUME TLCSet(2, [i \in 1..Len(Traces) |-> 0])

Hdr(i) == Traces[i][1]

Init == /\ tid \in 1..Len(Traces) /\ l = 2
        /\ lanes = Hdr(tid).lanes
        /\ pend = [t \in 1..Hdr(tid).threads |-> Idle]

Ev == Traces[tid][l]

TCall == /\ l <= Len(Traces[tid]) /\ Ev.e = "call"
         /\ Call(Ev.t, Ev.op, Ev.m, Ev.lane)
         /\ l' = l + 1 /\ UNCHANGED tid
TRet ==  /\ l <= Len(Traces[tid]) /\ Ev.e = "ret"
         /\ Ret(Ev.t, R(Ev.k, Ev.v))
         /\ l' = l + 1 /\ UNCHANGED tid
TLin ==  /\ l <= Len(Traces[tid])
         /\ \E t \in DOMAIN pend : Lin(t)
         /\ UNCHANGED <<tid, l>>

Next == TCall \/ TRet \/ TLin
Spec == Init /\ [][Next]_vars

Note == /\ TLCSet(2, [TLCGet(2) EXCEPT ![tid] = IF @ < l THEN l ELSE @])
        /\ (l = Len(Traces[tid]) + 1) => TLCSet(1, TLCGet(1) \cup {tid})
Post == LET rej == (1..Len(Traces)) \ TLCGet(1) IN
        \A t \in rej : PrintT(ToString(<<"REJECTED", t, TLCGet(2)[t]>>))
=============================================================================
