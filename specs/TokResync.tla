----------------------------- MODULE TokResync ------------------------------
(***************************************************************************)
(* C06, the two consequences stated in the property:                       *)
(*  concat : any concatenation of encoded messages parses back to the list *)
(*  rtsysex: real-time bytes inserted strictly inside a sysex encoding are *)
(*           delivered ahead of it, the sysex payload is unchanged         *)
(*           (an undefined real-time byte, F9/FD, is dropped silently).    *)
(* (The first sentence - resynchronisation after any prefix - is the       *)
(* invariant Resync of TokStream, evaluated in every reachable state.)     *)
(***************************************************************************)
EXTENDS Tokenizer

CONSTANTS MaxList, MaxInner

VARIABLES mode, msgs, inner
vars == <<mode, msgs, inner>>

InnerAlphabet == {0, 127, 248, 249, 254, 255}

Init ==
  \/ /\ mode = "concat" /\ inner = <<>>
     /\ \E k \in 0..MaxList : msgs \in [1..k -> ProbeMsgs]
  \/ /\ mode = "rtsysex" /\ msgs = <<>>
     /\ \E k \in 0..MaxInner : inner \in [1..k -> InnerAlphabet]
Next == FALSE /\ UNCHANGED vars
Spec == Init /\ [][Next]_vars

EncList == [i \in DOMAIN msgs |-> Encode(msgs[i])]
ConcatParsesBack == mode = "concat" => ParseAll(Flatten(EncList)) = EncList

Stream  == <<240>> \o inner \o <<247>>
Payload == SelectSeq(inner, LAMBDA b : b < 128)
RTs     == SelectSeq(inner, LAMBDA b : b \in RealtimeBytes)
ExpectedRT == [i \in DOMAIN RTs |-> <<RTs[i]>>] \o << <<240>> \o Payload \o <<247>> >>
RealtimeInsideSysex == mode = "rtsysex" => ParseAll(Stream) = ExpectedRT

Emit == PrintT(ToString(
  IF mode = "concat"
  THEN <<"EMIT", 1, Len(msgs)>> \o Flatten([i \in DOMAIN msgs |-> <<Len(EncList[i])>> \o EncList[i]])
  ELSE <<"EMIT", 2, Len(inner)>> \o inner))
=============================================================================
