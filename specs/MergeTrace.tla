----------------------------- MODULE MergeTrace -----------------------------
(***************************************************************************)
(* Validates (input tracks, result) pairs logged from the real             *)
(* merge_tracks() against TrackOps.Merge.  Events are <<dt, id>> pairs.    *)
(***************************************************************************)
EXTENDS TrackOps, Json, IOUtils

Traces == JsonDeserialize(IOEnv.TRACE_FILE)
VARIABLE i
Init == i \in 1..Len(Traces)
Next == FALSE /\ UNCHANGED i
Spec == Init /\ [][Next]_i

ToEvs(s) == [k \in DOMAIN s |-> Ev(s[k][1], s[k][2])]
Ok(r) == IsMergeOf(ToEvs(r.result), [t \in DOMAIN r.tracks |-> ToEvs(r.tracks[t])])
Judge == Ok(Traces[i]) \/ PrintT(ToString(<<"REJECTED", i>>))
=============================================================================
