----------------------------- MODULE MsgObjHist -----------------------------
(***************************************************************************)
(* C03, histories: arbitrary sequences of accepted and rejected            *)
(* assignments (and sysex data +=) on ONE object, starting from the        *)
(* defaults.  Used with tlc -simulate; each complete history is replayed   *)
(* on one real Message object.                                             *)
(***************************************************************************)
EXTENDS MsgDomain

CONSTANTS MaxSteps

VARIABLES typ, attrs, hist
vars == <<typ, attrs, hist>>

Init == /\ typ \in AllTypes /\ attrs = Defaults(typ) /\ hist = <<>>

Names(t) == AttrSet(t) \cup Foreign(t)
Offered(t, n) == IF n \in AttrSet(t) THEN Probes(n) ELSE {I(0), I(1)}
Accepts(t, n, x) == n \in AttrSet(t) /\ InDomain(n, x)

Step(name, x, ok, post) ==
  /\ attrs' = post
  /\ hist' = Append(hist, [name |-> name, val |-> x, ok |-> ok, post |-> post])
  /\ UNCHANGED typ

SetAttr == \E n \in Names(typ) : \E x \in Offered(typ, n) :
             Step(n, x, Accepts(typ, n, x),
                  IF Accepts(typ, n, x) THEN [attrs EXCEPT ![n] = x] ELSE attrs)
IAdd == /\ typ = "sysex" /\ Len(attrs["data"].v) < 6
        /\ \E x \in Probes("data") :
             LET ok == x.k = "seq" /\ \A i \in DOMAIN x.v : x.v[i] \in 0..127 IN
             Step("data+=", x, ok, IF ok THEN [attrs EXCEPT !["data"] = V("seq", @.v \o x.v)] ELSE attrs)

Next == Len(hist) < MaxSteps /\ (SetAttr \/ IAdd)
Spec == Init /\ [][Next]_vars

AllValid == Valid(typ, attrs)
Emit == Len(hist) = MaxSteps => PrintT(ToString(<<"EMIT", typ, hist>>))
=============================================================================
