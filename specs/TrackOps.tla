------------------------------ MODULE TrackOps ------------------------------
(***************************************************************************)
(* Operations on tracks.  An event is [dt |-> delta ticks, id |-> n] where *)
(* id = 0 marks an end_of_track meta message and any other id names a      *)
(* message (the content of messages is irrelevant here).                   *)
(***************************************************************************)
EXTENDS Integers, Sequences, SequencesExt, FiniteSets, TLC

Ev(dt, id) == [dt |-> dt, id |-> id]
IsEot(e) == e.id = 0

\* what save() and merge_tracks() may normalise: end_of_track messages are
\* removed, their delta times carried over to the next message, and a single
\* end_of_track carrying the remaining delta is appended
FixEot(evs) ==
  LET r == FoldLeft(LAMBDA a, e :
              IF IsEot(e) THEN [a EXCEPT !.accum = a.accum + e.dt]
              ELSE [out |-> Append(a.out, [e EXCEPT !.dt = e.dt + a.accum]), accum |-> 0],
              [out |-> <<>>, accum |-> 0], evs)
  IN Append(r.out, Ev(r.accum, 0))

TotalTicks(evs) == FoldLeft(LAMBDA a, e : a + e.dt, 0, evs)
AbsTimes(evs) == [i \in DOMAIN evs |-> TotalTicks(SubSeq(evs, 1, i))]

MaxOf(S) == CHOOSE x \in S : \A y \in S : y <= x

(***************************************************************************)
(* Declarative merge: every non-end_of_track message of every track at its *)
(* absolute tick, ordered by (absolute tick, track, position), then one    *)
(* end_of_track at the end of the longest track.                           *)
(***************************************************************************)
Stamped(tracks) ==
  UNION {{[abs |-> AbsTimes(tracks[t])[i], tr |-> t, ix |-> i, id |-> tracks[t][i].id]
          : i \in {j \in DOMAIN tracks[t] : ~IsEot(tracks[t][j])}} : t \in DOMAIN tracks}
Before(a, b) == \/ a.abs < b.abs
                \/ a.abs = b.abs /\ a.tr < b.tr
                \/ a.abs = b.abs /\ a.tr = b.tr /\ a.ix < b.ix
Duration(tracks) == IF tracks = <<>> THEN 0
                    ELSE MaxOf({TotalTicks(tracks[t]) : t \in DOMAIN tracks})
Merge(tracks) ==
  LET s == SortSeq(SetToSeq(Stamped(tracks)), Before)
      body == [i \in DOMAIN s |-> Ev(s[i].abs - (IF i = 1 THEN 0 ELSE s[i-1].abs), s[i].id)]
      last == IF s = <<>> THEN 0 ELSE s[Len(s)].abs
  IN Append(body, Ev(Duration(tracks) - last, 0))

(***************************************************************************)
(* The pipeline of the implementation: absolute times, stable sort by      *)
(* time, relative times, end_of_track folding.                             *)
(***************************************************************************)
Pipeline(tracks) ==
  LET all == FoldLeft(LAMBDA a, t :
                a \o [i \in DOMAIN tracks[t] |->
                        [abs |-> AbsTimes(tracks[t])[i], tr |-> t, ix |-> i, id |-> tracks[t][i].id]],
                <<>>, [t \in DOMAIN tracks |-> t])
      s == SortSeq(all, Before)           \* (tr, ix) tie-break = stability of the sort
      rel == [i \in DOMAIN s |-> Ev(s[i].abs - (IF i = 1 THEN 0 ELSE s[i-1].abs), s[i].id)]
  IN FixEot(rel)

\* relational form used for trace validation
IsMergeOf(result, tracks) == result = Merge(tracks)
=============================================================================
