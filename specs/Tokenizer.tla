----------------------------- MODULE Tokenizer ------------------------------
(***************************************************************************)
(* The MIDI byte-stream tokenizer/parser as a state machine: one step per  *)
(* byte.  What the code really does is modelled, including behaviour one   *)
(* might not have designed that way:                                       *)
(*   - no running status: a data byte with no message in progress is stray *)
(*   - a real-time byte is delivered at once; inside a sysex it leaves the *)
(*     sysex open, anywhere else it aborts the message in progress         *)
(*   - undefined real-time bytes (F9, FD) behave the same but yield nothing*)
(*   - F4 / F5 (undefined system common) are ignored without resetting     *)
(*   - F7 outside a sysex resets and yields nothing                        *)
(*   - any other status byte discards a partial message and starts anew    *)
(* State: status (0 = idle), buf (bytes of the message in progress).       *)
(* Ghosts: inp (all bytes fed), out (messages produced so far).            *)
(***************************************************************************)
EXTENDS MidiWire, SequencesExt, TLC

Step(st, bf, b) ==                      \* one byte; st = 0 means idle
  IF b < 128 THEN
     IF st = 0 THEN [status |-> 0, buf |-> bf, emit |-> <<>>]      \* stray data
     ELSE LET nb == Append(bf, b) IN
          IF st # 240 /\ Len(nb) = SpecLen(st)
          THEN [status |-> 0,  buf |-> <<>>, emit |-> <<nb>>]
          ELSE [status |-> st, buf |-> nb,   emit |-> <<>>]
  ELSE IF b = 247 THEN                   \* EOX
     IF st = 240 THEN [status |-> 0, buf |-> <<>>, emit |-> <<Append(bf, 247)>>]
                 ELSE [status |-> 0, buf |-> <<>>, emit |-> <<>>]
  ELSE IF b >= 248 THEN                  \* real time: bypasses sysex, aborts the rest
     [status |-> IF st = 240 THEN st ELSE 0,
      buf    |-> IF st = 240 THEN bf ELSE <<>>,
      emit   |-> IF b \in Defined THEN << <<b>> >> ELSE <<>>]
  ELSE IF b \in Defined THEN             \* new message discards any partial one
     IF SpecLen(b) = 1 THEN [status |-> 0, buf |-> <<>>, emit |-> << <<b>> >>]
                       ELSE [status |-> b, buf |-> <<b>>, emit |-> <<>>]
  ELSE [status |-> st, buf |-> bf, emit |-> <<>>]   \* F4/F5: ignored, no reset

\* Iterated Step (FoldLeft is iterative: long inputs do not overflow the stack)
FeedAll(st, bf, bytes) ==
  FoldLeft(LAMBDA a, b : LET r == Step(a.status, a.buf, b) IN
              [status |-> r.status, buf |-> r.buf, emit |-> a.emit \o r.emit],
           [status |-> st, buf |-> bf, emit |-> <<>>], bytes)

ParseAll(bytes) == FeedAll(0, <<>>, bytes).emit

Flatten(ss) == FoldLeft(LAMBDA a, s : a \o s, <<>>, ss)

\* s is a (not necessarily contiguous) subsequence of t -- greedy scan
IsSubsequence(s, t) ==
  FoldLeft(LAMBDA k, x : IF k <= Len(s) /\ s[k] = x THEN k + 1 ELSE k, 1, t) = Len(s) + 1

IsRT(tok) == Len(tok) = 1 /\ tok[1] >= 248

\* one representative (or two) per byte class
ClassAlphabet == {0, 127, 145, 193, 225, 240, 241, 242, 243, 244, 246, 247,
                  248, 249, 254, 255}
SmallAlphabet == {0, 127, 145, 193, 240, 241, 242, 244, 246, 247, 248, 253}

ProbeMsgs ==
  { Msg("note_off", <<0, 0, 0>>), Msg("note_on", <<15, 127, 127>>),
    Msg("polytouch", <<1, 64, 1>>), Msg("control_change", <<2, 123, 0>>),
    Msg("program_change", <<3, 127>>), Msg("aftertouch", <<4, 0>>),
    Msg("pitchwheel", <<5, -8192>>), Msg("pitchwheel", <<6, 8191>>),
    Msg("sysex", <<>>), Msg("sysex", <<0>>), Msg("sysex", <<127, 0, 1>>),
    Msg("quarter_frame", <<7, 15>>), Msg("songpos", <<16383>>), Msg("songpos", <<0>>),
    Msg("song_select", <<127>>), Msg("tune_request", <<>>), Msg("clock", <<>>),
    Msg("start", <<>>), Msg("continue", <<>>), Msg("stop", <<>>),
    Msg("active_sensing", <<>>), Msg("reset", <<>>) }
=============================================================================
