------------------------------ MODULE MsgHeap -------------------------------
(***************************************************************************)
(* C15: copy, freeze and thaw have value semantics.                        *)
(* A heap of up to MaxObjs message objects.  An object is                  *)
(*   [cls, frozen, x, time]  with cls in                                   *)
(*     "M"  Message('note_on'):                x = note                    *)
(*     "MM" MetaMessage('set_tempo'):          x = tempo                   *)
(*     "SS" MetaMessage('sequencer_specific'): x stands for data (x,)      *)
(*     "UM" UnknownMetaMessage(0x60):          x stands for data (x,)      *)
(*     "SX" Message('sysex'):                  x stands for data (x,)      *)
(*     "RT" Message('clock'), a real-time message: no attribute but time   *)
(*          (x is a constant placeholder; every x override is rejected)    *)
(* x ranges over {1, 2}; overrides also try the out-of-range value Bad and  *)
(* Twin (the float 1.0, equal to 1 but ill-typed); UnknownMetaMessage *)
(* validates nothing, so Bad is a legal value there - which is exactly     *)
(* what constructing the class afresh with that value does.                *)
(* Actions name objects by index; an action on object i may change only    *)
(* heap[i] (Isolation) or add a new object.                                *)
(***************************************************************************)
EXTENDS Integers, Sequences, FiniteSets, TLC

CONSTANTS MaxObjs, MaxOps, Classes, NewTimes

StdTimes == {0, 5}
NegTimes == {-1, -2}      \* hash(-1) = hash(-2) in CPython: equal hashes, unequal messages

Bad == 999
Twin == 777      \* the float 1.0: equal to the valid value 1 but not an integer
Inf == 888       \* the time float('inf'): a real number like any other
XVals(c) == IF c = "UM" THEN {1, 2, Bad} ELSE {1, 2, Bad, Twin}
Obj(c, f, x, t) == [cls |-> c, frozen |-> f, x |-> x, time |-> t]

VARIABLES heap, hist
vars == <<heap, hist>>

ValidX(c, v) == c # "RT" /\ (v \in {1, 2} \/ (c = "UM" /\ v = Bad))
Full == Len(heap) >= MaxObjs

Step(op, i, j, attr, v, ok, newid) ==
  [op |-> op, i |-> i, j |-> j, attr |-> attr, v |-> v, ok |-> ok, newid |-> newid,
   heap |-> heap']
Record(s) == hist' = Append(hist, s)

Init == heap = <<>> /\ hist = <<>>

New == /\ ~Full
       /\ \E c \in Classes, x \in {1, 2, Bad}, t \in NewTimes :
            /\ (c = "RT" => x = 1)
            /\ (x = Bad => c \in {"M", "SX"})        \* built with skip_checks=True: no validation
            /\ heap' = Append(heap, Obj(c, FALSE, x, t))
            /\ Record(Step("new", 0, 0, "", 0, TRUE, Len(heap) + 1))

\* copy(): the result equals the original with the overrides applied, exactly
\* when constructing the class afresh with the merged values succeeds
Copy == /\ ~Full
        /\ \E i \in DOMAIN heap :
             \/ /\ heap' = Append(heap, heap[i])                       \* no overrides
                /\ Record(Step("copy", i, 0, "", 0, TRUE, Len(heap) + 1))
             \/ \E v \in XVals(heap[i].cls) :
                  IF ValidX(heap[i].cls, v)
                  THEN /\ heap' = Append(heap, [heap[i] EXCEPT !.x = v])
                       /\ Record(Step("copy", i, 0, "x", v, TRUE, Len(heap) + 1))
                  ELSE /\ heap' = heap
                       /\ Record(Step("copy", i, 0, "x", v, FALSE, 0))
             \/ \E tv \in {0, 7} :                      \* also the falsy value 0
                \* (a copy with overrides validates the whole message, like the constructor:
                \* an object that was built unchecked and holds Bad cannot be copied this way)
                IF heap[i].cls = "RT" \/ ValidX(heap[i].cls, heap[i].x)
                THEN /\ heap' = Append(heap, [heap[i] EXCEPT !.time = tv])
                     /\ Record(Step("copy", i, 0, "time", tv, TRUE, Len(heap) + 1))
                ELSE /\ heap' = heap
                     /\ Record(Step("copy", i, 0, "time", tv, FALSE, 0))

Freeze == \E i \in DOMAIN heap :
            IF heap[i].frozen
            THEN /\ heap' = heap                                       \* returned unchanged
                 /\ Record(Step("freeze", i, 0, "", 0, TRUE, i))
            ELSE /\ ~Full
                 /\ heap' = Append(heap, [heap[i] EXCEPT !.frozen = TRUE])
                 /\ Record(Step("freeze", i, 0, "", 0, TRUE, Len(heap) + 1))

Thaw == /\ ~Full
        /\ \E i \in DOMAIN heap :
             /\ heap' = Append(heap, [heap[i] EXCEPT !.frozen = FALSE])
             /\ Record(Step("thaw", i, 0, "", 0, TRUE, Len(heap) + 1))

SetAttr == \E i \in DOMAIN heap : \E a \in {"x", "time"} :
           \E v \in (IF a = "x" THEN XVals(heap[i].cls) ELSE {1, 2, Bad, Inf}) :
             LET ok == ~heap[i].frozen /\ (IF a = "x" THEN ValidX(heap[i].cls, v) ELSE TRUE) IN
             /\ heap' = IF ok THEN [heap EXCEPT ![i] = IF a = "x" THEN [@ EXCEPT !.x = v]
                                                        ELSE [@ EXCEPT !.time = v]]
                        ELSE heap
             /\ Record(Step("setattr", i, 0, a, v, ok, 0))

\* a frozen message takes no new attribute either
SetNew == \E i \in DOMAIN heap :
            /\ heap[i].frozen
            /\ heap' = heap
            /\ Record(Step("setnew", i, 0, "", 0, FALSE, 0))

\* attributes cannot be deleted, frozen or not
DelAttr == \E i \in DOMAIN heap : \E a \in {"x", "time"} :
             /\ heap' = heap
             /\ Record(Step("delattr", i, 0, a, 0, FALSE, 0))

\* equal frozen messages hash equal and collide as dictionary keys
SameValue(a, b) == a.cls = b.cls /\ a.x = b.x /\ a.time = b.time
HashEq == \E i, j \in DOMAIN heap :
            /\ heap[i].frozen /\ heap[j].frozen
            /\ heap' = heap
            /\ Record(Step("hash", i, j, "", 0, SameValue(heap[i], heap[j]), 0))

\* a frozen message and a freshly frozen one with the same values, the time
\* given as a float in one and an int in the other (5 = 5.0): equal, so they
\* must hash equal and find each other as dictionary keys
HashVariant == \E i \in DOMAIN heap :
                 /\ heap[i].frozen /\ heap[i].x # Bad
                 /\ heap' = heap
                 /\ Record(Step("hashf", i, 0, "", 0, TRUE, 0))

\* ... and one that came into being by another route (decoded from its bytes instead of
\* constructed): equal, so equal hashes
HashDecoded == \E i \in DOMAIN heap :
                 /\ heap[i].frozen /\ heap[i].x # Bad /\ heap[i].cls \in {"M", "SX", "RT", "MM", "SS"}
                 /\ heap' = heap
                 /\ Record(Step("hashd", i, 0, "", 0, TRUE, 0))

\* Operations that only READ a message (hash, str / repr, the text form without its time, dict(),
\* bytes(), len, comparison, pickling): the heap is UNCHANGED - not only the values but the set of
\* attributes of every object (the driver compares both after every step).  v is the reader.
Readers == 1..6
Read == \E i \in DOMAIN heap : \E r \in Readers :
          /\ heap[i].x # Bad
          /\ heap' = heap
          /\ Record(Step("read", i, 0, "", r, TRUE, 0))

NoneMaps == /\ heap' = heap
            /\ \E op \in {"freeze_none", "thaw_none"} : Record(Step(op, 0, 0, "", 0, TRUE, 0))

Next == /\ Len(hist) < MaxOps
        /\ (New \/ Copy \/ Freeze \/ Thaw \/ SetAttr \/ SetNew \/ DelAttr \/ HashEq \/ HashVariant \/ HashDecoded \/ NoneMaps \/ Read)
Spec == Init /\ [][Next]_vars

\* ---- properties ----
\* an action that names object i changes at most heap[i]; existing objects
\* are never removed
Isolation ==
  [][\A k \in DOMAIN heap :
        /\ k \in DOMAIN heap'
        /\ (heap'[k] # heap[k] => (hist'[Len(hist')].op = "setattr" /\ hist'[Len(hist')].i = k))]_vars
FrozenRejectsMutation ==
  \A n \in DOMAIN hist : (hist[n].op = "setattr" /\ hist[n].ok) =>
        ~(IF n = 1 THEN FALSE ELSE hist[n-1].heap[hist[n].i].frozen)
FrozenNeverChanges ==
  [][\A k \in DOMAIN heap : heap[k].frozen => heap'[k] = heap[k]]_vars
\* (objects of the classes that can be built unchecked may hold the out-of-range value)
AllValidOrUnknown == \A k \in DOMAIN heap : heap[k].cls \in {"RT", "M", "SX"} \/ ValidX(heap[k].cls, heap[k].x)

ClsCode(c) == CASE c = "M" -> 1 [] c = "MM" -> 2 [] c = "SS" -> 3 [] c = "UM" -> 4 [] c = "RT" -> 5 [] c = "SX" -> 6
OpCode(o) == CASE o = "new" -> 1 [] o = "copy" -> 2 [] o = "freeze" -> 3 [] o = "thaw" -> 4
               [] o = "setattr" -> 5 [] o = "hash" -> 6 [] o = "freeze_none" -> 7 [] o = "thaw_none" -> 8 [] o = "hashf" -> 9
               [] o = "delattr" -> 10 [] o = "setnew" -> 11 [] o = "hashd" -> 12 [] o = "read" -> 13
HeapFlat(h) == <<Len(h)>> \o [k \in 1..(4 * Len(h)) |->
                  LET o == h[((k - 1) \div 4) + 1] IN
                  CASE (k - 1) % 4 = 0 -> ClsCode(o.cls) [] (k - 1) % 4 = 1 -> (IF o.frozen THEN 1 ELSE 0)
                    [] (k - 1) % 4 = 2 -> o.x [] OTHER -> o.time]
RECURSIVE HistFlat(_)
HistFlat(hs) == IF hs = <<>> THEN <<>> ELSE
   LET s == Head(hs) IN
   <<OpCode(s.op), s.i, s.j, IF s.attr = "x" THEN 1 ELSE IF s.attr = "time" THEN 2 ELSE 0, s.v,
     IF s.ok THEN 1 ELSE 0, s.newid>> \o HeapFlat(s.heap) \o HistFlat(Tail(hs))
Emit == Len(hist) = MaxOps => PrintT(ToString(<<"EMIT", Len(hist)>> \o HistFlat(hist)))
=============================================================================
